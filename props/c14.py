"""C14 - a configuration file determines exactly the configured process set.

Theorems: coq/props/C14.v over coq/C14/{Strs,Config,Dump,Defaults,Proofs}.v and the
generated coq/C14/Gen_defaults.v (translator gen/c14_defaults.py).

Correspondence: structured configurations are rendered to ini text, parsed by the
real supervisor.options.ServerOptions (process_config(do_usage=False): the
entry point reloadConfig uses; no daemonising, no chdir), the resulting config
objects are dumped field by field and Coq compares the dump with the model run
on the structured form.  Then the corruption stream: every single-point
corruption must end in ValueError of the kind the model predicts; any other
exception type, or silent acceptance outside a known-finding signature, is a
violation.  The expander, the KEY=value parser and the converters are also
compared on their own on exhaustive small alphabets.
"""
import itertools
import json
import os
import re
import sys

import vlib

LEVEL = 'proof'
IMPORTS = ['SV.C14.Strs', 'SV.C14.Config', 'SV.C14.Dump']


# ----------------------------------------------------- known-finding signatures

def _sections(cfg):
    import c14_cfg
    secs = list(c14_cfg.merge_dups(cfg['main']))
    for _, s in cfg.get('incs', []):
        secs += c14_cfg.merge_dups(s)
    return secs


def _int(s):
    try:
        return int(s)
    except (ValueError, TypeError):
        return None


BARE = re.compile(r'%[-#0 +]*\d*(?:\.\d*)?[hlL]?[sra]')
PROGRAMISH = ('program:', 'eventlistener:', 'fcgi-program:')
# options whose value goes through `s % expansions`
SIG_CONSTANTS = {'SIG_DFL', 'SIG_IGN', 'SIG_BLOCK', 'SIG_UNBLOCK', 'SIG_SETMASK'}


def signatures(cfg):
    """The known-finding signatures a structured configuration falls into."""
    out = set()
    for name, opts in _sections(cfg):
        d = dict(opts)
        if ':' in name:
            nm = name.split(':', 1)[1]
            if name.startswith(PROGRAMISH + ('group:',)) and (nm.strip() == '' or '[' in nm or ']' in nm):
                out.add('C14-name-empty-or-bracket')
        if name.startswith(PROGRAMISH):
            n = _int(d.get('numprocs', '1'))
            pn = d.get('process_name', '')
            if n is not None and n > 1 and '%(process_num)' in pn:
                rest = pn.replace('%%(process_num)', '').replace('%(process_num).0s', '')
                if '%(process_num)' not in rest:
                    out.add('C14-process-num-not-expanded')
            if n is not None and n < 0:
                out.add('C14-negative-numprocs')
        if name.startswith(PROGRAMISH) or name in ('supervisord',) or name.startswith('group:'):
            for k, v in opts:
                if BARE.search(v.replace('%%', '')):
                    out.add('C14-bare-format')
    return out


KNOWN_TEXT = {
    'C14-process-num-not-expanded':
        'numprocs>1 with a process_name in which %(process_num) occurs only escaped (%%(process_num)) or with zero '
        'precision is accepted and every process of the section gets the same name',
    'C14-negative-numprocs': 'a negative numprocs is accepted silently: the group has no processes and the missing-command check is skipped',
    'C14-bare-format': 'a %s / %r / %a conversion without a (name) is accepted and replaced by the repr of the whole expansions dictionary',
    'C14-name-empty-or-bracket': 'an empty section name ([group:], [program:]) or a name containing a bracket is accepted although the documentation forbids it',
}
# signatures in which the faithful model accepts too (compared as usual);
# in the others the model rejects and the implementation's acceptance is the finding
MODEL_FAITHFUL = {'C14-process-num-not-expanded', 'C14-negative-numprocs', 'C14-name-empty-or-bracket'}
MODEL_REJECTS = {'C14-bare-format': 'expand_bare'}


# ------------------------------------------------------------ monitors on dumps

def monitor(o, het_names):
    """Property-level judgement of an accepted configuration, independent of
    the model: list of (signature-or-None, text).  Name clashes are judged in
    groups made from one section only (two programs of one [group:x] may
    legitimately be given clashing names by the user; see notes/C14.md)."""
    import signal
    out = []
    real_signals = set(int(s) for s in signal.Signals)
    # groups in ascending numeric priority, ties by name (0 and negative priorities are priorities)
    gkeys = [(g.priority, g.name) for g in o.process_group_configs]
    if all(isinstance(k[0], int) and not isinstance(k[0], bool) for k in gkeys) and gkeys != sorted(gkeys):
        out.append((None, 'process groups are not ordered by (priority, name): %r' % (gkeys,)))
    for g in o.process_group_configs:
        names = [p.name for p in g.process_configs]
        pkeys = [(p.priority, p.name) for p in g.process_configs]
        if g.name not in het_names and all(isinstance(k[0], int) for k in pkeys) and pkeys != sorted(pkeys):
            out.append((None, 'processes of group %r are not ordered by (priority, name): %r' % (g.name, pkeys[:6])))
        if g.name not in het_names and len(set(names)) != len(names):
            out.append(('C14-process-num-not-expanded', 'group %r has processes with equal names %r' % (g.name, names[:4])))
        for p in g.process_configs:
            if int(p.stopsignal) not in real_signals or type(p.stopsignal).__name__ == 'Handlers' \
                    or type(p.stopsignal).__name__ == 'Sigmasks':
                out.append((None, 'process %r has stopsignal %r which is not a signal' % (p.name, p.stopsignal)))
                break
    return out


# ------------------------------------------- spec judge on the implementation

def _merged_with_dirs(cfg, here):
    """{section: {key: (value, directory of the file in which it is written)}}
    in the order the reader reads the files."""
    import c14_cfg
    merged = {}
    files = [(here, cfg['main'])] + [(os.path.dirname(os.path.join(here, rel)), secs) for rel, secs in cfg.get('incs', [])]
    for d, secs in files:
        for n, opts in c14_cfg.merge_dups(secs):
            tgt = merged.setdefault(n, {})
            for k, v in opts:
                tgt[k] = (v, d)
    return merged


class _Abstain(Exception):
    pass


def judge_expansions(cfg, here, o):
    """The property, judged directly on the objects the real reader produced
    (no model involved): for every process of every group made from program /
    fcgi-program / eventlistener sections, name, command, directory and
    environment must be the section's values with %(here)s = the directory of
    the file in which the value is written, expanded with that process's own
    process_num, and the environment must be the [supervisord] environment
    overlaid by exactly that process's own environment string (nothing from
    sibling processes).  Abstains (returns nothing for a group) whenever the
    expected value is not computable by this small specification."""
    from supervisor.datatypes import dict_of_key_value_pairs, list_of_strings
    import c14_cfg
    merged = _merged_with_dirs(cfg, here)
    sup_env = dict(o.configroot.supervisord.environment)
    host = c14_cfg.oracle_tables()['host']
    base_env = dict(('ENV_' + k, v) for k, v in c14_cfg.ENV.items())
    base_env.update(('ENV_' + k, v) for k, v in sup_env.items())

    def val(sec, key, default=None):
        if key not in merged[sec]:
            return default
        v, d = merged[sec][key]
        if '%%(here)s' in v:
            raise _Abstain()
        return v.replace('%(here)s', d)

    def fmt(s, ex):
        try:
            return s % ex
        except Exception:
            raise _Abstain()

    def expected(sec, group_name):
        pname = sec.split(':', 1)[1].strip()
        ex = {'here': here, 'program_name': pname, 'host_node_name': host, 'group_name': group_name}
        ex0 = dict(ex)
        ex0.update(base_env)
        try:
            n = int(fmt(val(sec, 'numprocs', '1'), ex0))
            start = int(fmt(val(sec, 'numprocs_start', '0'), ex0))
        except ValueError:
            raise _Abstain()
        if n > 200:
            raise _Abstain()
        envs = val(sec, 'environment', '')
        tmpl = val(sec, 'process_name', '%(program_name)s').strip()
        out = []
        for i in range(start, start + n):
            ex.update({'process_num': i, 'numprocs': n})
            ex.update(base_env)
            try:
                own = dict_of_key_value_pairs(fmt(envs, ex))
            except ValueError:
                raise _Abstain()
            for k, v in own.items():
                ex['ENV_%s' % k] = v
            directory = val(sec, 'directory')
            command = val(sec, 'command')
            if command is None:
                raise _Abstain()
            env = dict(sup_env)
            env.update(own)
            out.append((fmt(tmpl, ex), fmt(command, ex), None if directory is None else fmt(directory, ex),
                        tuple(sorted(env.items()))))
        return out

    problems = []
    names = [g.name for g in o.process_group_configs]
    for g in o.process_group_configs:
        if names.count(g.name) != 1:
            continue
        try:
            cands = [s for s in merged if ':' in s and s.split(':', 1)[1].strip() == g.name
                     and s.split(':', 1)[0] in ('group', 'program', 'eventlistener', 'fcgi-program')]
            hets = [s for s in cands if s.startswith('group:')]
            if hets:
                if len(hets) != 1:
                    continue
                progs = val(hets[0], 'programs', '')
                if '%' in progs:
                    continue
                exp = []
                for prog in list_of_strings(progs):
                    sec = 'program:' + prog if ('program:' + prog) in merged else 'fcgi-program:' + prog
                    if sec not in merged:
                        raise _Abstain()
                    exp += expected(sec, g.name)
            else:
                own = [s for s in cands if not s.startswith('group:')]
                if len(own) != 1:
                    continue
                exp = expected(own[0], g.name)
        except _Abstain:
            continue
        got = [(p.name, p.command, p.directory, tuple(sorted(p.environment.items()))) for p in g.process_configs]
        if sorted(got, key=repr) != sorted(exp, key=repr):
            want = dict((e[0], e) for e in exp)
            for t in got:
                w = want.get(t[0])
                if w is not None and w != t:
                    for fld, a, b in zip(('name', 'command', 'directory', 'environment'), w, t):
                        if a != b:
                            problems.append('group %r process %r: %s should be %r (own section values, %%(here)s = directory of '
                                            'the defining file, [supervisord] environment overlaid by the process\'s own) but is %r'
                                            % (g.name, t[0], fld, dict(a) if fld == 'environment' else a,
                                               dict(b) if fld == 'environment' else b))
                            break
                    break
            else:
                problems.append('group %r: processes %r expected, %r found' % (g.name, sorted(e[0] for e in exp),
                                                                           sorted(t[0] for t in got)))
    return problems


# ------------------------------------------------------------------ unit streams

def expand_cases(chk):
    """Format strings over a small alphabet against CPython's `s % dict`."""
    import c14_cfg
    alpha = ['%', '(', ')', 'k', 'n', 's', 'd', '0', '3', '-', '.']
    d = {'k': 'xy', 'n': 7, 'm': -5}
    cd = '[("k", VS "xy"); ("n", VI 7); ("m", VI (-5))]'
    maxlen = 5 if chk.tier == 'quick' else 6
    strs = []
    for ln in range(0, maxlen + 1):
        for t in itertools.product(alpha, repeat=ln):
            s = ''.join(t)
            if '%' in s or ln <= 2:
                strs.append(s)
    if chk.tier == 'quick':
        # all of length <= 4, a deterministic tenth of length 5
        strs = [s for i, s in enumerate(strs) if len(s) <= 4 or i % 10 == chk.seed % 10]
    else:
        # all of length <= 5, a deterministic 1/12 of length 6
        strs = [s for i, s in enumerate(strs) if len(s) <= 5 or i % 12 == chk.seed % 12]
    extra = ['%(m)03d', '%(m)-4d|', '%(m).3d', '%(n)05d', '%(k)5s|', '%(k)-5s|', '%(k).1s', '%(k)05s', '%(n)ld', '%(n)i',
             '%(n)u', '%5%', '%(k)%', '%%(n)d', '%(k(x)s', '%(a(b)c)s', 'a%(k)sb%(n)02dc', '%(n)3.2d', '%(n)-03d', '%(n)0-3d',
             '%(m)5d|', '%(m)05d', '%(n)*d', '%(k)q', '%s', '%r', '%5s', '%d']
    strs += extra
    cases, meta, bare = [], [], 0
    for s in strs:
        try:
            r = s % d
            want = [('T', 'ok'), ('S', r)]
            if BARE.search(s.replace('%%', '')):
                want = [('T', 'err'), ('T', 'expand_bare')]
                bare += 1
        except KeyError:
            want = [('T', 'err'), ('T', 'expand_name')]
        except (ValueError, TypeError):
            want = [('T', 'err'), ('T', 'expand_format')]
        if want[0][1] == 'err' and want[1][1] != 'expand_bare' and BARE.search(s.replace('%%', '')):
            # CPython formats the dictionary for the nameless conversion and fails later in the
            # string; the model reports the nameless conversion first (known finding C14-bare-format)
            continue
        cases.append('(%s, %s, %s)' % (c14_cfg.cstr(s), cd, c14_cfg.catoms(want)))
        meta.append((s, want))
    return cases, meta, bare


def kv_cases(chk):
    import c14_cfg
    from supervisor.datatypes import dict_of_key_value_pairs
    alpha = ['A', 'b', '=', ',', '"', "'", ' ', '#', '\n'] if chk.tier != 'quick' else ['A', '=', ',', '"', "'", ' ', '#']
    maxlen = 4 if chk.tier == 'quick' else 5
    strs = []
    for ln in range(0, maxlen + 1):
        for t in itertools.product(alpha, repeat=ln):
            strs.append(''.join(t))
    strs += ['A="1",B=\'two words\'', 'KEY=val,OTHER="x,y"', 'P=/usr/bin:/bin,Q="a b"', 'A=1,\nB=2', 'A=1,A=2', 'X="",Y=\'\'',
             'A==1', 'A=1;B=2', 'A=1 B=2 C', 'A="unclosed', 'K=v#c\nw', 'K=v #c\n,L=1', 'a.b-c:d(e)+f/g=1', 'A=\'"x"\'', 'A="\'x\'"',
             'A=1,', 'A=1,B', '=', 'A=$HOME', 'A=x"y z"', 'A="x"y']
    rng = chk.rng
    for _ in range(300 if chk.tier == 'quick' else 5000):
        strs.append(''.join(rng.choice(alpha + ['A', 'B', '1', '=', ',', '/', ':', '.']) for _ in range(rng.randrange(5, 14))))
    cases, meta = [], []
    for s in strs:
        try:
            r = dict_of_key_value_pairs(s)
            want = [('T', 'ok'), ('Z', len(r))]
            for k, v in r.items():
                want += [('S', k), ('S', v)]
        except ValueError as e:
            want = [('T', 'err'), ('T', 'quote' if 'No closing quotation' in str(e) else 'env_syntax')]
        cases.append('(%s, %s)' % (c14_cfg.cstr(s), c14_cfg.catoms(want)))
        meta.append((s, want))
    return cases, meta


def conv_cases(chk):
    import signal
    import c14_cfg
    from supervisor import datatypes as dt
    cases, meta = [], []
    known = {'sig': 0}

    def add(conv, fn, s, okf, errkind):
        try:
            r = fn(s)
            want = [('T', 'ok')] + okf(r)
        except ValueError:
            want = [('T', 'err'), ('T', errkind)]
        except Exception as e:
            want = [('T', 'err'), ('T', 'OTHER-EXCEPTION-' + type(e).__name__)]
        cases.append('(%s, %s, %s)' % (c14_cfg.cstr(conv), c14_cfg.cstr(s), c14_cfg.catoms(want)))
        meta.append((conv, s, want))
    ialpha = ['1', '0', '7', '9', '_', '-', '+', ' ', 'x', '.', 'o']
    maxlen = 4 if chk.tier == 'quick' else 5
    ints = [''.join(t) for ln in range(0, maxlen + 1) for t in itertools.product(ialpha, repeat=ln)]
    if chk.tier == 'quick':
        ints = [s for i, s in enumerate(ints) if len(s) <= 3 or i % 12 == chk.seed % 12]
    else:
        ints = [s for i, s in enumerate(ints) if len(s) <= 4 or i % 8 == chk.seed % 8]
    ints += ['2.7', '1.5', '1e1', '1E3', 'inf', '-inf', 'nan', 'Infinity', '1e400', '0.0', '3.', '.5', '1_0.0', '-0.0', '+1e0']
    for s in ints:
        add('integer', dt.integer, s, lambda r: [('Z', r)], 'int')
        add('octal_type', dt.octal_type, s, lambda r: [('Z', r)], 'octal')
    for s in ints[::7] + ['0,2', '1, 2 ,3', '255', '256', '-1', '0,,2', 'a', '0;2', ',', '2,+3', '1_0,2', '0 ,', ' ']:
        add('list_of_exitcodes', dt.list_of_exitcodes, s, lambda r: [('Z', x) for x in r], 'exitcodes')
    sizes = []
    for n in ['', '0', '1', '10', '1.5', '-2', ' 3 ', '1_0', 'x', '+4']:
        for suf in ['', 'kb', 'KB', 'Mb', 'gB', 'b', 'XB', 'tb', 'k', 'kbb', ' kb', 'kb ']:
            sizes.append(n + suf)
    sizes += ['10KKB', '2GGB', '50MMB', '1kbkb', '12bkb', 'kbkb', '10k b', '1 0kb', '10 kb', '+5mb', '-5mb', '1.5gb', '0x10kb',
              '10bk', '10kbb', '10mbb', '1e3kb', '1_0kb', '__kb', '10kbkb', '10KBMB', '10k', '10m', '10g', '10b', '10kib',
              '1,000kb', '10kb.', '.5mb', '5.mb', '0b1kb', '0o7kb', '10 mb 5', 'k10b', '1k0b', '1kkkb', '1bbbb', '5kbk', '5gbb',
              '7MBB', '7mmb', '3GBGB', '3gbkb', '0kkb', 'bkb', 'kkb', 'mmb', 'ggb']
    for s in sizes:
        add('byte_size', dt.byte_size, s, lambda r: [('Z', r)], 'int')
    for s in ['true', 'false', 'yes', 'no', 'on', 'off', '1', '0', 'TRUE', 'False', 'Yes', 'oN', 't', 'y', '', '2', 'tru', ' true', 'maybe', '01']:
        add('boolean', dt.boolean, s, lambda r: [('B', r)], 'bool')
        add('auto_restart', dt.auto_restart, s, lambda r: [c14_cfg._autorestart(r)], 'autorestart')
    for s in ['unexpected', 'UNEXPECTED', 'Unexpected', 'unexpected ', 'always', 'never']:
        add('auto_restart', dt.auto_restart, s, lambda r: [c14_cfg._autorestart(r)], 'autorestart')
    signames = [k for k in dir(signal) if k.startswith('SIG')]
    sigs = signames + [k[3:] for k in signames] + [k.lower() for k in signames[:10]] + [str(i) for i in range(-2, 70)] + \
        ['', 'FOO', 'SIG', ' term ', 'TERM,KILL', '1.5', 'RTMIN+1', '1_0', '+9', '015']
    for s in sigs:
        add('signal_number', dt.signal_number, s, lambda r: [('Z', int(r))], 'signal')
    for s in ['critical', 'error', 'warn', 'info', 'debug', 'trace', 'blather', 'INFO', 'Debug', 'warning', '', '20', 'nope', '__doc__']:
        add('logging_level', dt.logging_level, s, lambda r: [('Z', r)], 'loglevel')
    for s in ['a', 'a b', 'a:b', 'a/b', ' a ', '', 'a[b', 'a]b', 'x_y-z.w', '\ta\n', 'a\tb', ':', 'a,b', 'a%b']:
        add('process_or_group_name', dt.process_or_group_name, s, lambda r: [('S', r)], 'name')
    for s in ['', 'a', 'a,b', ' a , b ', 'a,,b', ',', 'a, b c ,d']:
        add('list_of_strings', dt.list_of_strings, s, lambda r: [('S', x) for x in r], 'never')
    return cases, meta


# ------------------------------------------------------------------ main driver

def server_stream(chk, fresh_dir, clean):
    """[unix_http_server] / [inet_http_server] sections: every key, default,
    configured falsy value and bad value; accepted sections are compared with
    what the documentation says the keys mean, bad ones must be ValueError."""
    import socket
    import c14_cfg
    cases = []

    def add(label, secs, expect):
        cases.append((label, [('supervisord', [])] + secs, expect))
    U, I = 'unix_http_server', 'inet_http_server'
    add('unix defaults', [(U, [('file', '%(here)s/run/s.sock')])], [{'family': 'unix', 'file': '{here}/run/s.sock', 'chmod': 0o700,
                                                                    'chown': (-1, -1), 'username': None, 'password': None}])
    add('unix all keys', [(U, [('file', '/tmp/c14.sock'), ('chmod', '0770'), ('chown', 'root:root'), ('username', 'u'), ('password', 'p')])],
        [{'family': 'unix', 'file': '/tmp/c14.sock', 'chmod': 0o770, 'chown': (0, 0), 'username': 'u', 'password': 'p'}])
    add('unix chmod 000, chown user only', [(U, [('file', '/tmp/c14.sock'), ('chmod', '000'), ('chown', 'root')])],
        [{'family': 'unix', 'file': '/tmp/c14.sock', 'chmod': 0, 'chown': (0, -1), 'username': None, 'password': None}])
    add('unix file with ENV', [(U, [('file', '/tmp/%(ENV_C14_A)s.sock')])],
        [{'family': 'unix', 'file': '/tmp/alpha.sock', 'chmod': 0o700, 'chown': (-1, -1), 'username': None, 'password': None}])
    add('inet host:port', [(I, [('port', 'LocalHost:9001')])], [{'family': 'inet', 'host': 'localhost', 'port': 9001, 'username': None, 'password': None}])
    add('inet port only', [(I, [('port', '9001'), ('username', 'u'), ('password', '')])],
        [{'family': 'inet', 'host': '', 'port': 9001, 'username': 'u', 'password': ''}])
    add('inet *:port', [(I, [('port', '*:65535')])], [{'family': 'inet', 'host': '', 'port': 65535, 'username': None, 'password': None}])
    add('inet and unix', [(U, [('file', '/tmp/c14.sock')]), (I, [('port', '127.0.0.1:1')])],
        [{'family': 'inet', 'host': '127.0.0.1', 'port': 1, 'username': None, 'password': None},
         {'family': 'unix', 'file': '/tmp/c14.sock', 'chmod': 0o700, 'chown': (-1, -1), 'username': None, 'password': None}])
    for label, secs in [
        ('unix without file', [(U, [('chmod', '0700')])]),
        ('unix chmod 999', [(U, [('file', '/tmp/c14.sock'), ('chmod', '999')])]),
        ('unix chmod empty', [(U, [('file', '/tmp/c14.sock'), ('chmod', '')])]),
        ('unix chown unknown user', [(U, [('file', '/tmp/c14.sock'), ('chown', 'no_such_user_c14')])]),
        ('unix chown unknown group', [(U, [('file', '/tmp/c14.sock'), ('chown', 'root:no_such_group_c14')])]),
        ('unix username without password', [(U, [('file', '/tmp/c14.sock'), ('username', 'u')])]),
        ('unix password without username', [(U, [('file', '/tmp/c14.sock'), ('password', 'p')])]),
        ('unix file with unknown name', [(U, [('file', '/tmp/%(nope)s.sock')])]),
        ('unix file with process_num', [(U, [('file', '/tmp/%(process_num)d.sock')])]),
        ('inet without port', [(I, [('username', 'u'), ('password', 'p')])]),
        ('inet port 0', [(I, [('port', '0')])]), ('inet port 65536', [(I, [('port', 'localhost:65536')])]),
        ('inet port empty', [(I, [('port', '')])]), ('inet port host only', [(I, [('port', 'localhost:')])]),
        ('inet port word', [(I, [('port', 'http')])]), ('inet port negative', [(I, [('port', '-1')])]),
        ('inet username without password', [(I, [('port', '9001'), ('username', 'u')])]),
        ('inet bad expansion', [(I, [('port', '%(')])]),
    ]:
        add(label, secs, None)
    n = 0
    for label, secs, expect in cases:
        here = fresh_dir()
        cfg = {'main': secs, 'incs': []}
        path = c14_cfg.write_case(cfg, here)
        r = c14_cfg.real_parse(path)
        n += 1
        chk.dist('stream:http-server-sections')
        rep = {'stream': 'server', 'label': label, 'files': _file_texts(cfg, here)}
        if r[0] == 'exc':
            rep['kind'] = 'the configuration reader raised %s instead of ValueError' % r[1]
            rep['message'] = r[2]
            chk.violation(rep)
        elif expect is None and r[0] == 'ok':
            rep['kind'] = 'a malformed [unix_http_server]/[inet_http_server] section was accepted silently'
            chk.violation(rep)
        elif expect is not None and r[0] == 'err':
            rep['kind'] = 'a well-formed [unix_http_server]/[inet_http_server] section was rejected: ' + r[2]
            chk.violation(rep)
        elif expect is not None:
            got = []
            for c in r[1].configroot.supervisord.server_configs:
                d = {'family': 'unix' if c['family'] == socket.AF_UNIX else 'inet', 'username': c['username'], 'password': c['password']}
                if d['family'] == 'unix':
                    d.update(file=c['file'], chmod=c['chmod'], chown=tuple(c['chown']))
                else:
                    d.update(host=c['host'], port=c['port'])
                got.append(d)
            want = [dict((k, (v.replace('{here}', here) if isinstance(v, str) else v)) for k, v in e.items()) for e in expect]
            if got != want:
                rep['kind'] = 'server section values differ from the file: expected %r, found %r' % (want, got)
                chk.violation(rep)
        clean(here)
    return n


def subscription_stream(chk, fresh_dir, clean):
    """events= lines -> real parser -> real EventListenerPool (make_group) ->
    one events.notify per class of the hierarchy; how often each reaches the
    pool's buffer.  Judged on the implementation against the DOCUMENTED name
    tree (exactly once iff the type's name or a name above it is listed) and
    queued for the Coq model (Subscribe.check_subscription_names; that the class
    tree of events.py realises the name tree is theorem c14_class_tree_matches_names)."""
    import c14_cfg
    from supervisor import events
    from supervisor.events import EventTypes
    names = [k for k in vars(EventTypes) if not k.startswith('_')]
    cls_of = dict((k, getattr(EventTypes, k)) for k in names)
    # the DOCUMENTED hierarchy is the name tree (docs/events.rst, class EventTypes): EVENT above
    # everything, NAME above NAME_SUFFIX - not whatever class tree events.py has at the moment
    def above(a, b_):
        return a == 'EVENT' or a == b_ or b_.startswith(a + '_')
    rng = chk.rng
    lines = list(names)
    for a in names:
        for b_ in names:
            if a != b_ and above(a, b_):
                lines += ['%s,%s' % (a, b_), '%s,%s' % (b_, a)]            # supertype with its subtype, both orders
    lines += ['PROCESS_STATE,PROCESS_STATE', 'tick_5,TICK_5,TICK', 'TICK_5,TICK_60', 'EVENT,TICK_5,PROCESS_STATE',
              'PROCESS_STATE_RUNNING,EVENT', 'PROCESS_COMMUNICATION_STDOUT,PROCESS_COMMUNICATION,PROCESS_LOG',
              'PROCESS_GROUP_ADDED,PROCESS_GROUP,PROCESS_GROUP_REMOVED,PROCESS_GROUP',
              'PROCESS_STATE_STARTING,PROCESS_STATE_BACKOFF', 'TICK_5,TICK,TICK_60,TICK,TICK_3600',
              'PROCESS_STATE_STOPPED, process_state ,PROCESS_STATE_EXITED']
    for _ in range(40 if chk.tier == 'quick' else 1500):
        lines.append(rng.choice([',', ', ']).join(rng.choice(names) if rng.random() < 0.85 else rng.choice(names).lower()
                                                  for _ in range(rng.randrange(1, 6))))
    if chk.tier == 'quick':
        # all single names, the special lists, the random ones and a deterministic half of the pairs
        lines = [l for i, l in enumerate(lines) if i < len(names) or i >= len(lines) - 50 or i % 2 == chk.seed % 2]
    cases, meta = [], []
    for line in lines:
        here = fresh_dir()
        cfg = {'main': [('supervisord', []),
                        ('eventlistener:lis', [('command', '/bin/lis'), ('events', line), ('buffer_size', '500')])], 'incs': []}
        path = c14_cfg.write_case(cfg, here)
        r = c14_cfg.real_parse(path)
        chk.dist('stream:listener-subscription')
        rep = {'stream': 'subscription', 'label': 'events=' + line, 'files': _file_texts(cfg, here)}
        if r[0] != 'ok':
            rep['kind'] = 'a well-formed events= line was not accepted: %r' % (r[1:],)
            chk.violation(rep)
            clean(here)
            continue
        listed = [x.strip().upper() for x in line.split(',')]
        gconf = [g for g in r[1].process_group_configs if g.name == 'lis'][0]
        events.clear()
        try:
            pool = gconf.make_group()
            observed = []
            for nm in names:
                del pool.event_buffer[:]
                ev = cls_of[nm].__new__(cls_of[nm])
                events.notify(ev)
                observed.append((nm, sum(1 for e in pool.event_buffer if e is ev)))
        except Exception as e:
            rep['kind'] = 'building the pool or notifying it raised %s: %s' % (type(e).__name__, e)
            chk.violation(rep)
            clean(here)
            continue
        finally:
            events.clear()
        wrong = [(nm, n, 1 if any(above(l, nm) for l in listed) else 0) for nm, n in observed
                 if n != (1 if any(above(l, nm) for l in listed) else 0)]
        if wrong:
            rep['kind'] = ('the pool made from this section is not subscribed to exactly its listed event types: one '
                           'notification of %s reaches it %d time(s), expected %d' % wrong[0])
            rep['all_wrong'] = wrong[:10]
            chk.violation(rep)
            clean(here)
            continue
        cases.append('(%s, [%s])' % (c14_cfg.cstr(line), '; '.join('(%s, %d)' % (c14_cfg.cstr(nm), n) for nm, n in observed)))
        meta.append(rep)
        clean(here)
    return cases, meta


def boolean_stream(chk, fresh_dir, clean):
    """Every boolean / autorestart key x the documented spellings (true false yes
    no on off 1 0, any case): must be accepted with exactly that value; anything
    else must be rejected.  Judged on the implementation."""
    import c14_cfg
    import c14_gen
    from supervisor.datatypes import RestartUnconditionally, RestartWhenExitUnexpected
    yes = ['true', 'yes', 'on', '1', 'TRUE', 'Yes', 'oN']
    no = ['false', 'no', 'off', '0', 'FALSE', 'No', 'oFF']
    bad = ['off0', 'of', 'tru', '2', 'y', 'n', 'none', '', '01', 'yes0', '0ff']
    if chk.tier == 'quick':
        yes, no, bad = yes[:5], no[:5], bad[:5]
    keys = []
    for sec, rows in c14_gen.option_tables().items():
        for opt, conv in rows:
            if conv in ('boolean', 'auto_restart') and (sec, opt) not in keys and sec in ('supervisord', 'program:web'):
                keys.append((sec, opt, conv))
    keys.append(('eventlistener:lis', 'autostart', 'boolean'))
    base = c14_gen.grid_base('')
    n = 0
    for sec, opt, conv in keys:
        values = [(v, True) for v in yes] + [(v, False) for v in no] + [(v, None) for v in bad]
        if conv == 'auto_restart':
            values += [('unexpected', 'unexpected'), ('UNEXPECTED', 'unexpected')]
        for v, want in values:
            cfg = c14_gen._set(base, sec, opt, v)
            if opt == 'stopasgroup' and want is True:
                cfg = c14_gen._set(cfg, sec, 'killasgroup', 'true')
            if opt == 'killasgroup' and want is False:
                cfg = c14_gen._set(cfg, sec, 'stopasgroup', 'false')
            here = fresh_dir()
            path = c14_cfg.write_case(cfg, here)
            r = c14_cfg.real_parse(path)
            n += 1
            chk.dist('stream:boolean-spellings')
            rep = {'stream': 'boolean', 'label': '[%s] %s=%s' % (sec, opt, v), 'files': _file_texts(cfg, here)}
            if r[0] == 'exc':
                rep['kind'] = 'the configuration reader raised %s instead of ValueError' % r[1]
                chk.violation(rep)
            elif want is None:
                if r[0] == 'ok':
                    rep['kind'] = '%s=%r is not one of the documented boolean spellings but was accepted silently' % (opt, v)
                    chk.violation(rep)
            elif r[0] != 'ok':
                rep['kind'] = 'the documented spelling %s=%s was rejected: %s' % (opt, v, r[2])
                chk.violation(rep)
            else:
                if sec == 'supervisord':
                    got = getattr(r[1].configroot.supervisord, opt)
                else:
                    g = [g_ for g_ in r[1].process_group_configs if g_.name in ('grp', 'lis')
                         and g_.name == ('grp' if sec == 'program:web' else 'lis')][0]
                    got = getattr(g.process_configs[0], opt)
                if conv == 'auto_restart':
                    got = {RestartUnconditionally: True, RestartWhenExitUnexpected: 'unexpected'}.get(got, got)
                if got is not want and got != want or type(got) is not type(want):
                    rep['kind'] = '%s=%s is read as %r, documented meaning %r' % (opt, v, got, want)
                    chk.violation(rep)
            clean(here)
    return n


def reread_stream(chk, fresh_dir, clean, wd):
    """The same ServerOptions object reads one file, then another (what reloadConfig
    does): after each read the configured set must be the one of the file just
    read - in particular empty when that file has no program-like sections.
    Judged on the implementation; each step is also queued for the model."""
    import c14_cfg
    import c14_gen
    from supervisor.options import ServerOptions
    rng = chk.rng
    empty = {'main': [('supervisord', [])], 'incs': []}
    only_sup = {'main': [('supervisord', [('environment', 'A="1"')]), ('supervisorctl', [('serverurl', 'unix:///tmp/s.sock')])], 'incs': []}
    seqs = []
    for first in [c14_gen.grid_base, c14_gen.base_config]:
        seqs.append([first, lambda h: empty])
        seqs.append([first, lambda h: only_sup, first])
        seqs.append([lambda h: empty, first, lambda h: empty])
    one_prog = lambda h: {'main': [('supervisord', []), ('program:solo', [('command', '/bin/solo')])], 'incs': []}
    seqs.append([c14_gen.grid_base, one_prog, lambda h: empty, one_prog])
    for _ in range(6 if chk.tier == 'quick' else 150):
        seqs.append([(lambda h: c14_gen.valid_config(rng, h, chk.tier != 'quick')) if rng.random() < 0.7 else (lambda h: empty)
                     for _ in range(rng.choice([2, 3]))])
    cases, meta = [], []

    def expected_names(cfg):
        secs = dict(c14_cfg.merge_dups(cfg['main']))
        listed = set()
        for n, o in secs.items():
            if n.startswith('group:'):
                for p_ in dict(o).get('programs', '').split(','):
                    p_ = p_.strip()
                    listed.add('program:' + p_ if 'program:' + p_ in secs else 'fcgi-program:' + p_)
        out = []
        for n in secs:
            kind = n.split(':', 1)[0]
            if kind in ('group', 'eventlistener') or (kind in ('program', 'fcgi-program') and n not in listed):
                out.append(n.split(':', 1)[1].strip())
        return sorted(out)
    for seq in seqs:
        here = fresh_dir()
        o = c14_cfg.new_options()
        history = []
        for step, mk in enumerate(seq):
            cfg = mk(here)
            if cfg.get('incs'):
                cfg = {'main': [s_ for s_ in cfg['main'] if s_[0] != 'include'], 'incs': []}
                if not any(s_[0] == 'supervisord' for s_ in cfg['main']):
                    cfg['main'].insert(0, ('supervisord', []))
            path = c14_cfg.write_case(cfg, here)
            history.append(_file_texts(cfg, here))
            o.configfile = path
            r = c14_cfg._real_parse(o)
            chk.dist('stream:reread-steps')
            rep = {'stream': 'reread', 'label': 'read %d of %d by one ServerOptions object' % (step + 1, len(seq)),
                   'files': history[-1], 'files_read_before': history[:-1]}
            if r[0] == 'exc':
                rep['kind'] = 'the configuration reader raised %s instead of ValueError' % r[1]
                rep['message'] = r[2]
                chk.violation(rep)
                break
            if r[0] == 'err':
                continue
            got = sorted(g.name for g in o.process_group_configs)
            want = expected_names(cfg)
            if got != want:
                rep['kind'] = ('after re-reading, the configured process groups are %r although the file just read '
                               'configures %r' % (got, want))
                chk.violation(rep)
                break
            if signatures(cfg):
                continue
            try:
                atoms = c14_cfg.dump_options(o)
            except TypeError as e:
                rep['kind'] = 'after re-reading: ' + str(e)
                chk.violation(rep)
                break
            probs = c14_cfg.effective_problems(o) + judge_expansions(cfg, here, o)
            if probs:
                rep['kind'] = 'after re-reading, the accepted configuration violates the property: ' + probs[0]
                chk.violation(rep)
                break
            cases.append(c14_cfg.ccase(cfg, here, atoms))
            meta.append(rep)
        clean(here)
    return cases, meta


def run(chk):
    import c14_defaults
    import c09_events
    proved = chk.prove('props/C14.v', gens=[c14_defaults.generate, c09_events.generate])
    with vlib.WorkDir('c14') as wd:
        _run(chk, wd, proved)


def _corpus():
    d = os.path.join(vlib.VERIF, 'corpus', 'C14')
    out = []
    if os.path.isdir(d):
        for f in sorted(os.listdir(d)):
            if f.endswith('.json'):
                with open(os.path.join(d, f)) as fh:
                    obj = json.load(fh)
                obj['main'] = [(n, [tuple(kv) for kv in o]) for n, o in obj['main']]
                obj['incs'] = [(rel, [(n, [tuple(kv) for kv in o]) for n, o in secs]) for rel, secs in obj.get('incs', [])]
                out.append((f, obj))
    return out


def _file_texts(cfg, here):
    out = {}
    for root, _, files in os.walk(here):
        for f in files:
            if f.endswith('.conf'):
                p = os.path.join(root, f)
                with open(p, 'rb') as fh:
                    out[os.path.relpath(p, here)] = fh.read().decode('utf-8', 'replace')
    return out


def _run(chk, wd, proved):
    import c14_cfg
    import c14_gen
    rng = chk.rng
    thorough = chk.tier != 'quick'
    cases, meta = [], []          # Coq cases of the configuration model
    distinct = set()
    counters = {'known': {}}
    uid = [0]

    def known(sig, detail):
        counters['known'].setdefault(sig, []).append(detail)

    def fresh_dir():
        uid[0] += 1
        return os.path.join(wd, 'k%d' % uid[0])

    def clean(here):
        # keep the tree small: the files are rewritten from the structure on replay
        import shutil
        shutil.rmtree(here, ignore_errors=True)

    def one(cfg, stream, label=None, constraint=None, noise=True, must_reject=False, spellings=False):
        """Run one structured configuration through the real reader and queue
        the comparison with the model."""
        here = fresh_dir()
        if callable(cfg):
            fn = cfg
            cfg = fn(here)
            if cfg is None:
                return
            label = getattr(fn, 'label', label)
            constraint = getattr(fn, 'constraint', constraint)
        path = c14_cfg.write_case(cfg, here, rng if noise else None)
        texts = _file_texts(cfg, here)
        r = c14_cfg.real_parse(path)
        sigs = signatures(cfg)
        replay = {'stream': stream, 'label': label, 'constraint': constraint, 'files': texts,
                  'structured': {'main': cfg['main'], 'incs': cfg.get('incs', [])}}
        chk.dist('stream:' + stream)
        atoms = None
        if r[0] == 'exc':
            chk.dist('outcome:other-exception')
            replay.update(kind='the configuration reader raised %s instead of ValueError' % r[1], message=r[2])
            chk.violation(replay)
            clean(here)
            return
        if r[0] == 'err':
            chk.dist('outcome:ValueError:' + r[1])
            if r[1] == 'UNCLASSIFIED':
                counters['unclassified'] = counters.get('unclassified', 0) + 1
                if counters['unclassified'] <= 3:
                    replay.update(kind='ValueError with a message this check does not know', message=r[2])
                    chk.violation(replay, nofail=True)
                clean(here)
                return
            atoms = [('T', 'err'), ('T', r[1])]
            distinct.add(('err', r[1], stream == 'corruption' and constraint))
            if any(s_ in MODEL_REJECTS for s_ in sigs) and r[1] not in MODEL_REJECTS.values():
                # the real reader accepted the value of a known-finding signature and failed later
                # on something else; the model stops at the signature: not comparable
                chk.dist('not-compared:error-after-known-finding-signature')
                atoms = None
        else:
            o = r[1]
            chk.dist('outcome:accepted')
            ill = None
            try:
                atoms = c14_cfg.dump_options(o)
            except Exception as e:
                ill = '%s: %s' % (type(e).__name__, e) if not isinstance(e, TypeError) else str(e)
            mon = monitor(o, set(n.split(':', 1)[1].strip() for n, _ in _sections(cfg) if n.startswith('group:')))
            # --- judgement of an acceptance
            accepted_sigs = set()
            if ill is not None:
                hit = [s for s in sigs if s in MODEL_REJECTS]
                if not hit:
                    replay.update(kind='accepted with an ill-typed value: ' + ill)
                    chk.violation(replay)
                    clean(here)
                    return
                accepted_sigs.update(hit)
            for msig, text in mon:
                if msig in sigs:
                    accepted_sigs.add(msig)
                else:
                    replay.update(kind='accepted configuration violates the property: ' + text)
                    chk.violation(replay)
                    clean(here)
                    return
            if must_reject:
                if not sigs:
                    replay.update(kind='a configuration violating a documented constraint (%s) was accepted silently' % constraint)
                    chk.violation(replay)
                    clean(here)
                    return
                accepted_sigs.update(sigs)
            if not sigs:
                probs = c14_cfg.effective_problems(o) + judge_expansions(cfg, here, o)
                chk.dist('judged-on-implementation')
                if probs:
                    replay.update(kind='accepted configuration violates the property: ' + probs[0], problems=probs[:5])
                    chk.violation(replay)
                    clean(here)
                    return
            for s in accepted_sigs:
                known(s, label or stream)
            rej = [s for s in sigs if s in MODEL_REJECTS]
            if rej and atoms is not None and not any(a_[0] == 'S' and "'here': " in a_[1] for a_ in atoms):
                # the nameless conversion sits in a value that was never expanded (e.g. the command of a
                # section with numprocs=0): nothing was formatted, model and reader are compared as usual
                rej = []
            if rej:
                # the model answers with its documented error; the acceptance is the finding
                atoms = [('T', 'err'), ('T', MODEL_REJECTS[rej[0]])]
                for s in rej:
                    known(s, label or stream)
            if atoms is not None and atoms[0] == ('T', 'ok'):
                ngroups = len(o.process_group_configs)
                nprocs = sum(len(g.process_configs) for g in o.process_group_configs)
                kinds = tuple(sorted(set(type(g).__name__ for g in o.process_group_configs)))
                distinct.add(('ok', ngroups, min(nprocs, 50), kinds, bool(cfg.get('incs'))))
                chk.dist('groups:%d' % min(ngroups, 6))
                chk.dist('processes:%s' % ('0' if nprocs == 0 else '1-3' if nprocs <= 3 else '4-12' if nprocs <= 12 else '13-40' if nprocs <= 40 else '>40'))
                if cfg.get('incs'):
                    chk.dist('with-include-files')
        if spellings and r[0] in ('ok', 'err'):
            # the same tree named by a relative path: identical outcome, %(here)s stays absolute
            ways = [(os.path.dirname(here), os.path.join(os.path.basename(here), 'supervisord.conf')),
                    (here, 'supervisord.conf')]
            if thorough:
                ways += [(here, './supervisord.conf'), (os.path.join(here, 'logs'), '../supervisord.conf')]
            first = c14_cfg.dump_or_error(r)
            for cwd, rel in ways:
                r2 = c14_cfg.real_parse(rel, cwd=cwd)
                chk.dist('spelling:relative-path')
                second = c14_cfg.dump_or_error(r2)
                probs = []
                if r2[0] == 'ok' and not sigs:
                    probs = c14_cfg.effective_problems(r2[1]) + judge_expansions(cfg, here, r2[1])
                if second != first or probs:
                    diff = next((('field %d: %r with the absolute path, %r with the relative one' % (i, a_, b_))
                                 for i, (a_, b_) in enumerate(zip(first, second)) if a_ != b_), 'different length')
                    replay.update(kind='the configuration gives a different process set when its file is named by the '
                                       'relative path %r (cwd %r) than by its absolute path: %s' % (rel, cwd, probs[0] if probs else diff),
                                  spelling={'cwd': cwd, 'path': rel})
                    chk.violation(replay)
                    clean(here)
                    return
        if atoms is not None:
            too_big = any(_int(dict(o_).get('numprocs', '1')) is not None and _int(dict(o_).get('numprocs', '1')) > 200
                          for _, o_ in _sections(cfg))
            if not too_big:
                cases.append(c14_cfg.ccase(cfg, here, atoms))
                meta.append(replay)
        clean(here)

    # ---- 1. corpus, 2. exhaustive small scope, 3. random well-formed
    for fname, cfg in _corpus():
        one(cfg, 'corpus', label=fname, spellings=True)
    sweep = c14_gen.sweep_configs(wd, thorough)
    for cfg in sweep:
        one(cfg, 'sweep', noise=False, spellings=True)
    nrand = 260 if not thorough else 2500
    for _ in range(nrand):
        one(lambda here: c14_gen.valid_config(rng, here, thorough), 'random', spellings=True)
    # ---- 3b. option tables x {falsy, bad} values and expansion variables x keys (generated key lists)
    grid = c14_gen.table_grid(wd, thorough) + c14_gen.expansion_grid(wd, thorough)
    for label, cfg in grid:
        one(cfg, 'grid', label=label, noise=False, spellings=label.startswith('supervisord'))
    # ---- 4. single-point corruptions of a valid configuration
    cors = c14_gen.corruptions(wd, thorough)
    for label, constraint, cfg in cors:
        one(cfg, 'corruption', label=label, constraint=constraint, noise=False, must_reject=True)
    # ---- 5. the same corruptions planted into random well-formed configurations
    planted = [0]
    base = dict((n, dict(o)) for n, o in c14_gen.base_config(wd)['main'])

    def plant(here):
        cfg = c14_gen.valid_config(rng, here, thorough)
        label, constraint, donor = rng.choice(cors)
        diff = None
        for n, o in donor['main']:
            if n in base:
                for k, v in o:
                    if base[n].get(k) != v:
                        diff = (n.split(':')[0], k, v.replace(wd, here))
        if diff is None:
            return None
        targets = [i for i, (n, _) in enumerate(cfg['main']) if n.split(':')[0] == diff[0]]
        if not targets:
            return None
        i = rng.choice(targets)
        n, o = cfg['main'][i]
        o2 = [(k, v) for k, v in o if k != diff[1]] + [(diff[1], diff[2])]
        if diff[1] == 'process_name' or diff[1] == 'killasgroup':
            o2 = [(k, v) for k, v in o2 if k not in ('numprocs', 'stopasgroup')] + \
                 [('numprocs', '3')] + ([('stopasgroup', 'true')] if diff[1] == 'killasgroup' else [])
        cfg['main'][i] = (n, o2)
        planted[0] += 1
        plant.label = 'planted: ' + label
        plant.constraint = constraint
        return cfg
    for _ in range(120 if not thorough else 1500):
        # other errors may come first in a random context, so only the exception type, the
        # known-finding signatures and the agreement with the model are judged
        one(plant, 'planted', label='planted', must_reject=False)
    # ---- 6. corruptions of the ini text itself (tokeniser: not modelled)
    ntext = 0
    for label, text in c14_gen.text_corruptions(wd):
        here = fresh_dir()
        cfg = {'main': [], 'incs': [], 'main_text': text if text is not None else ''}
        path = c14_cfg.write_case(cfg, here)
        if text is None:
            with open(path, 'wb') as f:
                f.write(b'[supervisord]\n[program:x]\ncommand=/bin/\xff\xfe\n')
        r = c14_cfg.real_parse(path)
        ntext += 1
        chk.dist('stream:text')
        if r[0] == 'exc':
            chk.violation({'stream': 'text', 'label': label, 'files': _file_texts(cfg, here),
                           'kind': 'the configuration reader raised %s instead of ValueError' % r[1], 'message': r[2]})
        elif r[0] == 'ok' and label == 'program section without name':
            known('C14-name-empty-or-bracket', label)
        clean(here)

    # ---- 7. [unix_http_server] / [inet_http_server] (outside the model: judged by a small specification)
    nserver = server_stream(chk, fresh_dir, clean)

    # ---- 7b. boolean spellings on every boolean key; 7c. one options object reading several files in turn
    nbool = boolean_stream(chk, fresh_dir, clean)
    rcases, rmeta = reread_stream(chk, fresh_dir, clean, wd)
    cases += rcases
    meta += rmeta

    # ---- 8. eventlistener sections -> real pool -> notifications of every class of the hierarchy
    scases, smeta = subscription_stream(chk, fresh_dir, clean)

    # ---- Coq comparison of everything queued
    total = len(cases)
    pre = c14_cfg.coq_preamble()
    bad, errs = vlib.coq_compare(IMPORTS, 'input * list atom', 'check_case', cases, wd, shard=12, tag='cfg', preamble=pre)
    for e in errs:
        chk.violation({'kind': 'model evaluation failed', 'part': 'configuration', 'error': e}, nofail=True)
    for i in bad[:6]:
        rep = dict(meta[i])
        rep['kind'] = 'model and implementation disagree on this configuration'
        got, _ = vlib.coq_eval(IMPORTS, 'firstn 4 (run (%s))' % cases[i][1:cases[i].rindex(',\n   [')], wd,
                               tag='dis%d' % i, preamble=pre)
        rep['model_says'] = got
        rep['explanation'] = ('the Coq model (about which the C14 theorems are proved) computes a different set of groups/'
                              'processes/option values, or a different error kind, than the real ServerOptions on these files')
        chk.violation(rep, nofail=True)

    # ---- unit streams
    ecases, emeta, bare = expand_cases(chk)
    kcases, kmeta = kv_cases(chk)
    ccases, cmeta = conv_cases(chk)
    if bare:
        known('C14-bare-format', '%d format strings' % bare)
    for name, ctype, fn, cs, mt in [
        ('subscription', 'string * list (string * Z)', 'check_subscription_names', scases, smeta),
        ('expand', 'string * exps * list atom', 'check_expand', ecases, emeta),
        ('kv', 'string * list atom', 'check_kv', kcases, kmeta),
        ('conv', 'string * string * list atom', 'check_conv', ccases, cmeta),
    ]:
        b2, e2 = vlib.coq_compare(IMPORTS + ['SV.C09.Gen_EvTypes', 'SV.C09.EvTypes', 'SV.C14.Subscribe'], ctype, fn, cs, wd,
                                  shard=(60 if name == 'subscription' else 700), tag=name, preamble='Open Scope string_scope.')
        total += len(cs)
        chk.dist('unit:' + name, len(cs))
        for e in e2:
            chk.violation({'kind': 'model evaluation failed', 'part': name, 'error': e}, nofail=True)
        for i in b2[:5]:
            chk.violation({'kind': 'model and implementation disagree', 'part': name, 'case': repr(mt[i]),
                           'explanation': 'the modelled %s differs from CPython / supervisor.datatypes on this string' % name},
                          nofail=True)

    for sig, details in sorted(counters['known'].items()):
        chk.known_finding(sig, '[%s] %s; %d inputs explored, e.g. %s' % (sig, KNOWN_TEXT[sig], len(details), details[0]))
    if not proved:
        chk.violation({'kind': 'proof obligation no longer checks', 'detail': chk.proof_failure,
                       'file': 'coq/props/C14.v'}, nofail=not chk.violations)
    # violations that carry a failing input are reported first (the driver prints the first 20)
    chk.violations.sort(key=lambda v: bool(v[1]))
    cov = chk.coverage
    cov['evaluations'] = total + ntext + nserver + nbool
    cov['distinct_nontrivial'] = len(distinct)
    cov['traces_validated_against_impl'] = total
    cov['exhaustive'] = False
    cov['rule'] = ('configurations: corpus + exhaustive sweep (%d: numprocs x numprocs_start x name template, group membership x '
                   'priorities; includes x %%(here)s) + %d grid (every key of every option table x falsy/bad values, every expansion variable x every key) + %d random well-formed + %d catalogued single-point corruptions + %d planted corruptions + %d ini-text '
                   'corruptions; each parsed by the real ServerOptions and compared field by field with the model inside Coq. '
                   'distinct = distinct (outcome, #groups, #processes, group classes, includes) or (error kind, constraint). '
                   'unit streams: format strings over an 11-letter alphabet, KEY=value strings over a 9-letter alphabet, '
                   'converter inputs' % (len(sweep), len(grid), nrand, len(cors), planted[0], ntext))
    cov['samples'] = [dict((k, m[k]) for k in ('stream', 'label', 'files')) for m in meta[len(sweep) + 3:len(sweep) + 5]]
    cov['samples'] += [repr(emeta[200]), repr(kmeta[300]), repr(cmeta[100])]


def replay(chk, path):
    """Re-run the real reader on the files of a replay object, then the whole check."""
    import c14_cfg
    with open(path) as f:
        obj = json.load(f)
    print(json.dumps(dict((k, v) for k, v in obj.items() if k != 'structured'), indent=1)[:6000])
    files = obj.get('files')
    if files:
        with vlib.WorkDir('c14replay') as wd:
            here = os.path.join(wd, 'k')
            c14_cfg.write_case({'main': [], 'incs': [], 'main_text': ''}, here)
            for rel, text in files.items():
                with open(os.path.join(here, rel), 'w') as fh:
                    fh.write(text)
            r = c14_cfg.real_parse(os.path.join(here, 'supervisord.conf'))
            print('real reader now answers:', r[:2] if r[0] != 'ok' else ('ok', [(g.name, [p.name for p in g.process_configs])
                                                                                for g in r[1].process_group_configs]))
    run(chk)
