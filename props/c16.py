"""C16 - log retrieval returns exactly the requested bytes.

Theorems: coq/props/C16.v over coq/C16/*.v.
Correspondence: real readFile/tailFile on real files, the RPC methods through
the real XML-RPC handler, the real tail_f_producer / chunked producer chain and
the real http_client chunk decoder, each against the Coq model on the same inputs.
"""
import json
import os
import sys

import vlib
from vlib import zlit, bytes_lit, blit, coq_opt

LEVEL = 'proof'
IMPORTS = ['SV.C16.LogRead']

# file contents used by the small exhaustive sweep: ASCII, multi-byte UTF-8 cut
# at every position, invalid UTF-8, NUL bytes
PATTERNS = [
    b'', b'a', b'ab', b'abcdef', b'h\xc3\xa9llo!', b'\xe2\x82\xac\xf0\x9f\x98\x80'[:6],
    b'\xff\xfe\x00ab\x80', b'\n\n\n', b'\xc3\xa9\xc3\xa9\xc3',
]


def _impl_read(path, off, ln):
    from supervisor.options import readFile
    try:
        return ('data', readFile(path, off, ln))
    except ValueError as e:
        return ('err', e.args[0])


def _impl_tail(path, off, ln):
    from supervisor.options import tailFile
    try:
        r = tailFile(path, off, ln)
        return ('ok', r)
    except UnicodeDecodeError:
        return ('undecodable', None)


def gen_args(chk):
    """(content, offset, length) triples: exhaustive small box + random 32-bit."""
    out = []
    small = range(-8, 9) if chk.tier == 'quick' else range(-10, 11)
    for c in PATTERNS:
        for off in small:
            for ln in small:
                out.append((c, off, ln))
    n_exh = len(out)
    rng = chk.rng
    nrand = 1500 if chk.tier == 'quick' else 20000
    for _ in range(nrand):
        size = rng.choice([0, 1, 2, 5, 17, 100, 1000])
        kind = rng.random()
        if kind < 0.4:
            c = bytes(rng.randrange(256) for _ in range(size))
        elif kind < 0.7:
            c = ''.join(rng.choice(u'abé€\U0001F600\n') for _ in range(size)).encode('utf-8')
        else:
            c = bytes(rng.choice(b'abc\n') for _ in range(size))

        def num():
            k = rng.random()
            if k < 0.5:
                return rng.randrange(-3, size + 4)
            if k < 0.7:
                return rng.choice([-2 ** 31, 2 ** 31 - 1, -1, 0, 1, size, size - 1, size + 1, -size])
            return rng.randrange(-2 ** 31, 2 ** 31)
        out.append((c, num(), num()))
    return out, n_exh


class FakeLogger(object):
    def __getattr__(self, name):
        return lambda *a, **k: None


def make_rpc(workdir):
    """The real RPC namespace over a minimal supervisord exposing one process
    with stdout/stderr logs and a main log."""
    from supervisor import rpcinterface, states
    from rpcstack import RpcStack

    class PConfig(object):
        name = 'p'
        stdout_logfile = None
        stderr_logfile = None

    class Proc(object):
        config = PConfig()

    class GConfig(object):
        name = 'g'

    class Group(object):
        config = GConfig()
        processes = {'p': Proc()}

    class Options(object):
        mood = states.SupervisorStates.RUNNING
        logfile = None
        logger = FakeLogger()

    class Sup(object):
        options = Options()
        process_groups = {'g': Group()}

    sup = Sup()
    iface = rpcinterface.SupervisorNamespaceRPCInterface(sup)
    stack = RpcStack(sup, [('supervisor', iface)])
    return sup, stack


def run(chk):
    proved = chk.prove('props/C16.v')
    with vlib.WorkDir('c16') as wd:
        _run(chk, wd, proved)
        # the streaming half (/logtail, /mainlogtail, chunked coding): coq/props/C16b.v, props/c16b.py
        import c16b
        c16b.run_part(chk, wd)


def _classify_utf8(b):
    try:
        b.decode('utf-8')
        return True
    except UnicodeDecodeError:
        return False


def _run(chk, wd, proved):
    args, n_exh = gen_args(chk)
    path = os.path.join(wd, 'log')
    read_cases, tail_cases, utf_cases, rpcr_cases, rpct_cases = [], [], [], [], []
    meta = {'read': [], 'tail': [], 'utf8': [], 'rpc_read': [], 'rpc_tail': []}
    sup, stack = make_rpc(wd)
    distinct = set()
    known_hits = 0
    counters = {}
    last = None
    for (c, off, ln) in args:
        if c != last:
            with open(path, 'wb') as f:
                f.write(c)
            last = c
        # --- direct functions
        r = _impl_read(path, off, ln)
        if r[0] == 'data':
            term = '(RData %s)' % bytes_lit(r[1])
            chk.dist('read:data' if r[1] else 'read:empty')
        elif r[1] == 'BAD_ARGUMENTS':
            term = 'RBadArgs'
            chk.dist('read:bad_arguments')
        else:
            term = None
            chk.dist('read:other_error')
        if term is None:
            chk.violation({'kind': 'readFile raised an undocumented error', 'content': list(c), 'offset': off,
                           'length': ln, 'result': repr(r)})
        else:
            read_cases.append('(%s, %s, %s, %s)' % (bytes_lit(c), zlit(off), zlit(ln), term))
            meta['read'].append((c, off, ln, r))
            distinct.add(('r', r[0], len(r[1]) if r[0] == 'data' else 0, off < 0, ln < 0, ln == 0))
        # tailFile returns text; compare bytes by re-encoding (valid windows only)
        t = _impl_tail(path, off, ln)
        if t[0] == 'ok':
            data, noff, ov = t[1]
            tail_cases.append('(%s, %s, %s, (%s, %s, %s))' % (
                bytes_lit(c), zlit(off), zlit(ln), bytes_lit(data.encode('utf-8')), zlit(noff), blit(ov)))
            meta['tail'].append((c, off, ln, t))
            rpct = 'TValue %s %s %s' % (bytes_lit(data.encode('utf-8')), zlit(noff), blit(ov))
            chk.dist('tail:overflow' if ov else ('tail:data' if data else 'tail:empty'))
            distinct.add(('t', len(data), ov, off >= len(c)))
        else:
            rpct = 'TUndecodable'
            chk.dist('tail:undecodable')
        # --- through the real XML-RPC handler (arguments must be 32-bit ints)
        if -2 ** 31 <= off < 2 ** 31 and -2 ** 31 <= ln < 2 ** 31:
            for which in ('main', 'stdout', 'nofile'):
                if which == 'main':
                    sup.options.logfile = path
                    res = call_both(chk, stack, 'supervisor.readLog', (off, ln), counters)
                    fterm = '(Some %s)' % bytes_lit(c)
                elif which == 'stdout':
                    sup.process_groups['g'].processes['p'].config.stdout_logfile = path
                    res = call_both(chk, stack, 'supervisor.readProcessStdoutLog', ('g:p', off, ln), counters)
                    fterm = '(Some %s)' % bytes_lit(c)
                else:
                    if chk.rng.random() > 0.1:
                        continue
                    sup.process_groups['g'].processes['p'].config.stderr_logfile = os.path.join(wd, 'absent')
                    res = call_both(chk, stack, 'supervisor.readProcessStderrLog', ('g:p', off, ln), counters)
                    fterm = 'None'
                rterm = _rpc_read_term(res)
                if rterm is None:
                    chk.violation({'kind': 'read RPC gave an undocumented answer', 'content': list(c), 'offset': off,
                                   'length': ln, 'method': which, 'answer': repr(res)})
                    continue
                if rterm == 'RUndecodable':
                    known_hits += 1
                rpcr_cases.append('(%s, %s, %s, %s)' % (fterm, zlit(off), zlit(ln), rterm))
                meta['rpc_read'].append((which, c, off, ln, repr(res)))
                chk.dist('rpc_read:' + rterm.split()[0].strip('()'))
            sup.process_groups['g'].processes['p'].config.stdout_logfile = path
            res = call_both(chk, stack, 'supervisor.tailProcessStdoutLog', ('g:p', off, ln), counters)
            tterm = _rpc_tail_term(res)
            if tterm is None:
                chk.violation({'kind': 'tail RPC gave an undocumented answer', 'content': list(c), 'offset': off,
                               'length': ln, 'answer': repr(res)})
            else:
                if tterm == 'TUndecodable':
                    known_hits += 1
                rpct_cases.append('(Some %s, %s, %s, %s)' % (bytes_lit(c), zlit(off), zlit(ln), tterm))
                meta['rpc_tail'].append((c, off, ln, repr(res)))
    # utf-8 validator of the model against CPython
    seen = set()
    for (c, off, ln) in args:
        for w in (c, c[max(0, off):max(0, off) + max(0, ln)], c[1:], c[:-1]):
            if len(w) <= 40 and w not in seen:
                seen.add(w)
                utf_cases.append('(%s, %s)' % (bytes_lit(w), blit(_classify_utf8(w))))
                meta['utf8'].append(w)
    rng = chk.rng
    for _ in range(3000 if chk.tier == 'quick' else 40000):
        n = rng.randrange(1, 6)
        w = bytes(rng.choice([rng.randrange(256), rng.choice(b'\xc2\xe0\xed\xf0\xf4\x80\xbf\x9f\xa0\x90\x8f\xc0\xc1\xf5a')])
                  for _ in range(n))
        if w not in seen:
            seen.add(w)
            utf_cases.append('(%s, %s)' % (bytes_lit(w), blit(_classify_utf8(w))))
            meta['utf8'].append(w)

    total = 0
    for name, ctype, fn, cases in [
        ('read', 'bytes * Z * Z * rres', 'check_read', read_cases),
        ('tail', 'bytes * Z * Z * (bytes * Z * bool)', 'check_tail', tail_cases),
        ('utf8', 'bytes * bool', 'check_utf8', utf_cases),
        ('rpc_read', 'option bytes * Z * Z * rpc_read', 'check_rpc_read', rpcr_cases),
        ('rpc_tail', 'option bytes * Z * Z * rpc_tail', 'check_rpc_tail', rpct_cases),
    ]:
        bad, errs = vlib.coq_compare(IMPORTS, ctype, fn, cases, wd, tag=name)
        total += len(cases)
        for e in errs:
            chk.violation({'kind': 'model evaluation failed', 'part': name, 'error': e}, nofail=True)
        for i in bad[:5]:
            chk.violation({'kind': 'model and implementation disagree', 'part': name,
                           'case': _jsonable(meta[name][i]),
                           'coq_case': cases[i][:2000],
                           'explanation': 'the Coq model (about which the C16 theorems are proved) gives a different '
                                          'answer than the implementation on this input'})
    if known_hits:
        chk.known_finding('C16-utf8', 'readLog/readProcess*Log/tailProcess*Log on a window that is not valid UTF-8 '
                                     'answers HTTP 500 (UnicodeDecodeError); %d such windows explored, all agree with the model' % known_hits)
    if counters.get('xmlctl'):
        chk.known_finding('C16-xmlctl', 'a log window containing a control character other than TAB/LF (NUL, CR, ESC ...) '
                                       'is marshalled into an XML-RPC response that is not well-formed or is altered by the '
                                       'parser (CR->LF); %d such windows explored' % counters['xmlctl'])
    if not proved:
        chk.violation({'kind': 'proof obligation no longer checks', 'detail': chk.proof_failure,
                       'file': 'coq/props/C16.v'}, nofail=not chk.violations)
    cov = chk.coverage
    cov['evaluations'] = total
    cov['distinct_nontrivial'] = len(distinct)
    cov['traces_validated_against_impl'] = total
    cov['exhaustive'] = False
    cov['rule'] = ('exhaustive: %d contents x offsets x lengths in a small box (%d triples), plus random contents with '
                   'boundary and 32-bit offsets/lengths; each triple is run through readFile, tailFile and the RPC methods via '
                   'the real XML-RPC handler; distinct = distinct (kind, result length, sign class) outcomes' % (len(PATTERNS), n_exh))
    cov['samples'] = [_jsonable(x) for x in meta['read'][100:103]] + [_jsonable(x) for x in meta['rpc_tail'][-2:]]


def xml_hostile(text):
    """Characters XML 1.0 cannot carry (or that a parser normalises): a string
    value containing one does not survive xmlrpclib marshalling."""
    if not isinstance(text, str):
        return False
    return any((ord(ch) < 32 and ch not in '\t\n') or ch in u'\ufffe\uffff' for ch in text)


def call_both(chk, stack, method, params, counters):
    """Call through the handler's dispatch and through the full XML path; the
    two must agree except for the known XML limitation."""
    d = stack.direct(method, params)
    x = stack.call(method, params)
    if d[0] == 'exception':
        d = ('http', 500) if x == ('http', 500) else d
        return d
    dv = d
    if d[0] == 'value' and isinstance(d[1], tuple):
        dv = ('value', list(d[1]))
    if x != dv:
        val = d[1] if d[0] == 'value' else None
        text = val if isinstance(val, str) else (val[0] if isinstance(val, (list, tuple)) and val else None)
        if xml_hostile(text):
            counters['xmlctl'] = counters.get('xmlctl', 0) + 1
        else:
            chk.violation({'kind': 'XML-RPC response differs from the method result', 'method': method,
                           'params': repr(params), 'direct': repr(d), 'xml': repr(x)})
    return dv


def _rpc_read_term(res):
    from supervisor.xmlrpc import Faults
    if res[0] == 'value' and isinstance(res[1], str):
        return '(RValue %s)' % bytes_lit(res[1].encode('utf-8'))
    if res[0] == 'fault':
        m = {Faults.BAD_ARGUMENTS: 'BAD_ARGUMENTS', Faults.NO_FILE: 'NO_FILE', Faults.BAD_NAME: 'BAD_NAME',
             Faults.FAILED: 'FAILED'}
        if res[1] in m:
            return '(RFault %s)' % m[res[1]]
        return None
    if res == ('http', 500):
        return 'RUndecodable'
    return None


def _rpc_tail_term(res):
    if res[0] == 'value' and isinstance(res[1], list) and len(res[1]) == 3:
        d, o, v = res[1]
        return '(TValue %s %s %s)' % (bytes_lit(d.encode('utf-8')), zlit(o), blit(v))
    if res == ('http', 500):
        return 'TUndecodable'
    return None


def _jsonable(x):
    if isinstance(x, bytes):
        return {'bytes': list(x)}
    if isinstance(x, (list, tuple)):
        return [_jsonable(y) for y in x]
    return x


def replay(chk, path):
    with open(path) as f:
        obj = json.load(f)
    print(json.dumps(obj, indent=1)[:4000])
    run(chk)
