"""C06 - the main loop survives anything its children, listeners or the kernel do.

Decided by coq/props/C06.v (crash-freedom of the lifecycle model via the global invariant) and tied to /repo by
  * the shared lifecycle correspondence (props/life_check.py) with a fault-heavy generator,
  * a hostile stream run by the real main loop on the simulated kernel (hostile child output, errno faults
    in read/close/waitpid/write, liveness probes), judged by the trace monitors,
  * the listener-protocol and event-pool correspondences of C10 and C09 (hostile listener byte streams, full
    stdin pipes, write errors at dispatch and at drain), whose parsers have their own no-crash theorems; any
    exception escaping there is a C06 violation too.
"""
import importlib

import vlib
import life_check

LEVEL = 'proof'


def _sub(chk, modname):
    mod = importlib.import_module(modname)
    sub = vlib.Check('C06', chk.tier, chk.seed, level='proof')
    mod.run(sub)
    for path, nofail in sub.violations:
        chk.violations.append((path, nofail))
    cov, sc = chk.coverage, sub.coverage
    cov['evaluations'] += sc.get('evaluations', 0)
    cov['traces_validated_against_impl'] += sc.get('traces_validated_against_impl', 0)
    cov['distinct_nontrivial'] += sc.get('distinct_nontrivial', 0)
    cov.setdefault('sub_checks', {})[modname] = {
        'evaluations': sc.get('evaluations', 0), 'theorems': [t.get('name') for t in sc.get('theorems', []) if isinstance(t, dict)],
        'violations': len(sub.violations)}
    cov['obligations'] += sc.get('obligations', 0)
    cov['discharged'] += sc.get('discharged', 0)


def fcgi_rebind_probe(chk):
    # (a failure is only reported when it repeats on a second, different port: another process of this machine may
    # grab the port in the instant it is closed)
    first = _fcgi_rebind_once(chk, report=False)
    if first == 'failed':
        _fcgi_rebind_once(chk, report=True)


def _fcgi_rebind_once(chk, report):
    """Runtime probe (real kernel, loopback; outside the model): the shared socket of an [fcgi-program] group is closed
    when its last child is reaped and created again by the next spawn (FastCGISubprocess.before_spawn, which runs in
    transition() outside every guard of the main loop).  A child that served a connection and exited leaves the port in
    TIME_WAIT; the next create_and_bind() must still succeed, or the OSError ends runforever()."""
    import socket
    from supervisor.datatypes import InetStreamSocketConfig
    from supervisor.socket_manager import SocketManager

    class Log(object):
        def info(self, *a):
            pass
        debug = warn = error = critical = info
    try:
        probe = socket.socket(socket.AF_INET, socket.SOCK_STREAM)
        probe.bind(('127.0.0.1', 0))
        port = probe.getsockname()[1]
        probe.close()
    except (OSError, socket.error) as e:
        chk.coverage['fcgi_rebind_probe'] = 'skipped: no loopback (%s)' % e
        return
    rounds = 0
    mgr = SocketManager(InetStreamSocketConfig('127.0.0.1', port), logger=Log())
    for k in range(4):
        try:
            ref = mgr.get_socket()               # what before_spawn() does
        except (OSError, socket.error) as e:
            if k == 0:
                chk.coverage['fcgi_rebind_probe'] = 'skipped: port taken (%s)' % e
                return
            if not report:
                return 'failed'
            chk.violation({'kind': 'fcgi socket cannot be created again after its children served a connection and exited',
                           'history': 'tcp fcgi socket on 127.0.0.1: get_socket, one connection accepted and closed by the '
                                      'child, last reference dropped (child reaped), get_socket again (round %d)' % k,
                           'error': repr(e),
                           'explanation': 'before_spawn() runs in transition() outside every guard: this OSError ends the '
                                          'main loop although only a child served a request and exited'})
            return
        try:
            c = socket.create_connection(('127.0.0.1', port), timeout=5)
            a, _ = ref.accept()
            a.close()                            # the "child" closes first: TIME_WAIT on the fcgi port
            c.close()
        except (OSError, socket.error) as e:
            chk.coverage['fcgi_rebind_probe'] = 'skipped: cannot connect on loopback (%s)' % e
            return
        ref = None                               # after_finish(): the last reference goes, the socket is closed
        if mgr.is_prepared():
            chk.violation({'kind': 'fcgi socket still open after its last reference was dropped', 'round': k})
            return
        rounds += 1
    chk.coverage['fcgi_rebind_probe'] = '%d create/serve/close rounds on 127.0.0.1:%d' % (rounds, port)
    chk.coverage['evaluations'] += rounds


def run(chk):
    life_check.run_property(chk, 'C06', 'props/C06.v')
    fcgi_rebind_probe(chk)
    _sub(chk, 'c10')      # which runs the C09 correspondence itself
    chk.coverage['rule'] += ('; plus the C10 (listener protocol) and C09 (event pools) correspondences, run here because an '
                             'exception escaping the listener parser, the pool dispatch or finish()/drain() ends the main loop')


def replay(chk, path):
    life_check.replay_property(chk, 'C06', 'props/C06.v', path)
