"""C06 - the main loop survives anything its children, listeners or the kernel do.

Decided by coq/props/C06.v (crash-freedom of the lifecycle model via the global invariant) and tied to /repo by
  * the shared lifecycle correspondence (props/life_check.py) with a fault-heavy generator,
  * a hostile stream run by the real main loop on the simulated kernel (hostile child output, errno faults
    in read/close/waitpid/write, liveness probes), judged by the trace monitors,
  * the listener-protocol and event-pool correspondences of C10 and C09 (hostile listener byte streams, full
    stdin pipes, write errors at dispatch and at drain), whose parsers have their own no-crash theorems; any
    exception escaping there is a C06 violation too.
"""
import importlib

import vlib
import life_check

LEVEL = 'proof'


def _sub(chk, modname):
    mod = importlib.import_module(modname)
    sub = vlib.Check('C06', chk.tier, chk.seed, level='proof')
    mod.run(sub)
    for path, nofail in sub.violations:
        chk.violations.append((path, nofail))
    cov, sc = chk.coverage, sub.coverage
    cov['evaluations'] += sc.get('evaluations', 0)
    cov['traces_validated_against_impl'] += sc.get('traces_validated_against_impl', 0)
    cov['distinct_nontrivial'] += sc.get('distinct_nontrivial', 0)
    cov.setdefault('sub_checks', {})[modname] = {
        'evaluations': sc.get('evaluations', 0), 'theorems': [t.get('name') for t in sc.get('theorems', []) if isinstance(t, dict)],
        'violations': len(sub.violations)}
    cov['obligations'] += sc.get('obligations', 0)
    cov['discharged'] += sc.get('discharged', 0)


def run(chk):
    life_check.run_property(chk, 'C06', 'props/C06.v')
    _sub(chk, 'c10')      # which runs the C09 correspondence itself
    chk.coverage['rule'] += ('; plus the C10 (listener protocol) and C09 (event pools) correspondences, run here because an '
                             'exception escaping the listener parser, the pool dispatch or finish()/drain() ends the main loop')


def replay(chk, path):
    life_check.replay_property(chk, 'C06', 'props/C06.v', path)
