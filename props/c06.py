"""C06 - see coq/props/C06.v and props/life_check.py (shared lifecycle check)."""
import life_check

LEVEL = 'proof'


def run(chk):
    life_check.run_property(chk, 'C06', 'props/C06.v')


def replay(chk, path):
    life_check.replay_property(chk, 'C06', 'props/C06.v', path)
