"""C09 - Events reach exactly the subscribed pools, in order, and are not lost.

Theorems: coq/props/C09.v over coq/C09/*.v (Gen_EvTypes: generated class
hierarchy; EvTypes: subtyping; Pool: callbacks/notify/_subscription_types/
_acceptEvent/dispatch/_dispatchEvent/handle_rejected with C10's listeners).

Correspondence: real EventListenerPool objects (recording subclass calling the
real methods) with real Subprocess listeners, real events.notify/subscribe;
1-3 pools with overlapping / disjoint / abstract / concrete / duplicate
subscriptions, 1-3 listeners, buffer sizes 0-4; histories of emitted events,
listener READY/OK/FAIL/garbage answers, deaths, restarts, full stdin pipes,
dispatch()/transition() passes.  After every operation Coq compares buffers,
serials, listener states and the effects (offered / rebuffered / discarded /
sent(serial, poolserial, eventname) / acked / rejected); the implementation's
own trace is also judged by Python monitors of the property statement
(routing by issubclass, bound, discard log, no loss, FIFO, isolation, serials).
"""
import itertools
import json
import sys

import vlib
from vlib import zlit, bytes_lit, coq_list

LEVEL = 'proof'
IMPORTS = ['SV.C10.Listener', 'SV.C10.Proc', 'SV.C09.Gen_EvTypes', 'SV.C09.EvTypes', 'SV.C09.Pool', 'SV.C09.Groups']
CASE_TYPE = 'Z * Z * (list pcfg * Z * Z) * list gop * list (wobs * list weff) * list tobs'
BIG = 1000000
B = ['room', BIG]

SUBS = [
    ['Event'], ['ProcessStateEvent'], ['ProcessStateRunningEvent'],
    ['ProcessStateEvent', 'ProcessStateRunningEvent'], ['ProcessStateRunningEvent', 'ProcessStateEvent'],
    ['TickEvent', 'Tick5Event', 'Tick5Event'], ['Tick5Event', 'Tick60Event'], ['Tick5Event', 'Tick5Event'],
    ['ProcessLogEvent', 'ProcessCommunicationStdoutEvent'], ['RemoteCommunicationEvent'], [],
    ['ProcessStateStartingOrBackoffEvent', 'ProcessStateStartingEvent', 'Event', 'TickEvent'],
]
EMIT = ['Tick5Event', 'Tick60Event', 'Tick3600Event', 'ProcessGroupRemovedEvent', 'ProcessStateRunningEvent', 'ProcessStateExitedEvent',
        'ProcessLogStdoutEvent', 'RemoteCommunicationEvent', 'SupervisorRunningEvent',
        'ProcessCommunicationStdoutEvent', 'ProcessStateStartingEvent', 'ProcessGroupAddedEvent']


def gens():
    import c09_events
    import c10_tokens
    return [c10_tokens.generate, c09_events.generate]


def wt(w):
    return '(WRoom %s)' % zlit(w[1]) if w[0] == 'room' else {'again': 'WAgain', 'epipe': 'WEpipe', 'err': 'WErr'}[w[0]]


def cfg_term(c):
    subs, bs, nl, ps = c[:4]
    return '(%s, %s, %d%%nat, %s)' % (coq_list(['T_' + n for n in subs]), zlit(bs), nl, zlit(ps))


def op_term(op, new, pre_state, effs=(), cfgs=(), skipped=False):
    k = op[0]
    if k == 'restart':
        nnew = len([e for e in effs if e.startswith('ERegroup')])
        return '(GRestart %s %s)' % (coq_list([cfg_term(c) for c in cfgs[len(cfgs) - nnew:]]) if nnew else '[]',
                                     coq_list([zlit(v) for v in new]))
    if k in ('remove', 'add'):
        if list(effs) == ['EInapplicable']:
            return '(GRemove 999 0)'            # not applicable: no such group / name in use
        if k == 'remove':
            return '(GRemove %d %s)' % (op[1], zlit((list(new) + [0])[0]))
        return '(GAdd %s %s)' % (cfg_term(cfgs[-1]), zlit((list(new) + [0])[0]))
    if skipped:
        return '(GRemove 999 0)'                # operation on a removed pool: nothing happens
    return '(GOp %s)' % wop_term(op, new, pre_state)


def wop_term(op, new, pre_state):
    k = op[0]
    new = list(new) + [0, 0]
    if k == 'emit':
        return '(WEmit %s T_%s)' % (zlit(new[0]), op[1])
    if k == 'feed':
        return '(WFeed %d %d %s)' % (op[1], op[2], bytes_lit(bytes(op[3])))
    if k == 'writable':
        return '(WWritable %d %d %s)' % (op[1], op[2], wt(op[3]))
    if k == 'spawn':
        return '(WSpawn %d %d %s %s)' % (op[1], op[2], zlit(op[3]), zlit(new[0]))
    if k == 'running':
        return '(WRunning %d %d %s)' % (op[1], op[2], zlit(new[0]))
    if k == 'stop':
        return '(WStop %d %d %s)' % (op[1], op[2], zlit(new[0]))
    if k == 'stopfail':
        return '(WStopFail %d %d %s %s)' % (op[1], op[2], zlit(new[0]), zlit(new[1]))
    if k == 'finish':
        if pre_state == 'unknown':
            e1, e2 = 0, 0
        elif pre_state == 'stopping':
            e1, e2 = new[0], 0
        elif pre_state == 'starting':
            e1, e2 = new[0], new[1]
        else:
            e1, e2 = 0, new[0]
        return '(WFinish %d %d %s %s %s %s)' % (op[1], op[2], bytes_lit(bytes(op[3])), wt(op[4]), zlit(e1), zlit(e2))
    if k in ('dispatch', 'transition'):
        return '(%s %d %s)' % ('WDispatch' if k == 'dispatch' else 'WTransition', op[1],
                               coq_list([coq_list([wt(x) for x in ws]) for ws in op[2]]))
    raise ValueError(op)


class Monitor(object):
    """the property statement, judged on the implementation's own trace"""

    def __init__(self, world, cfgs, check_serials=True):
        from c10_env import events
        self.events = events
        self.w = world
        self.cfgs = cfgs
        self.n = len(cfgs)
        self.offered = [[] for _ in cfgs]      # event ids accepted by each pool, in order
        self.acked = [[] for _ in cfgs]
        self.discarded = [[] for _ in cfgs]
        self.sent_serial = {}
        self.pserial_seen = [dict() for _ in cfgs]
        self.check_serials = check_serials
        self.member = [True for _ in cfgs]     # plain bookkeeping: is the pool one of the process groups?

    def _grow(self):
        while len(self.offered) < len(self.cfgs):
            for l in (self.offered, self.acked, self.discarded):
                l.append([])
            self.pserial_seen.append({})
            self.member.append(True)

    def step(self, op, pre, post, effs):
        for x in effs:
            if x.startswith('ERaise (*') and 'escaped from' in x:
                return 'an exception left the event code and would reach the main loop: ' + x[10:-3]
        ev = self.events
        from c10_env import ProcessStates
        stopped = (ProcessStates.STOPPED, ProcessStates.EXITED, ProcessStates.FATAL, ProcessStates.UNKNOWN)
        # ---- process groups: a removal is refused exactly while a listener of the pool is not stopped;
        #      a refused removal changes nothing, an accepted one ends the pool's membership
        cls = None
        if op[0] == 'remove' and effs and effs[0].startswith('ERaise'):
            return 'remove_process_group raised an exception: %s' % effs[0]
        if op[0] == 'remove' and effs != ['EInapplicable']:
            pi = op[1]
            expect_ok = all(l[0] in stopped for l in pre[pi][2])
            if expect_ok != (effs[0] == 'ERegroup %d' % pi):
                return 'removal of pool %d %s although its listeners are %s' % (
                    pi, 'accepted' if not expect_ok else 'refused', 'all stopped' if expect_ok else 'not all stopped')
            if expect_ok:
                self.member[pi] = False
                cls = ev.ProcessGroupRemovedEvent
            elif post != pre or len(effs) != 1:
                return 'a refused removal of pool %d changed the pools or had effects %r' % (pi, effs[1:])
        if op[0] == 'add' and effs != ['EInapplicable']:
            self._grow()
            cls = ev.ProcessGroupAddedEvent
        if op[0] == 'restart':
            # a new daemon life: the pools of the previous life are gone, the new ones are the only groups
            old_n = len(self.member)
            for k in range(old_n):
                self.member[k] = False
            self._grow()
            got = sorted(int(e.split()[1]) for e in effs if e.startswith('EOffered'))
            stale = [k for k in got if k < old_n]
            if stale:
                return 'pools %r of the previous daemon life were offered an event of the new life' % sorted(set(stale))
            n = self.n = len(self.cfgs)
        if op[0] == 'emit':
            cls = getattr(ev, op[1])
        n = self.n = len(self.cfgs)
        # ---- routing: offered once to exactly the member pools subscribed to the class or a superclass
        if cls is not None:
            got = [int(e.split()[1]) for e in effs if e.startswith('EOffered')]
            want = [pi for pi, c in enumerate(self.cfgs)
                    if self.member[pi] and any(issubclass(cls, getattr(ev, t)) for t in c[0])]
            if sorted(got) != want:
                return 'event of class %s offered to pools %r; the subscribed pools among the process groups are %r' % (
                    cls.__name__, got, want)
        elif any(e.startswith('EOffered') for e in effs):
            got = sorted(set(int(e.split()[1]) for e in effs if e.startswith('EOffered')))
            bad = [pi for pi in got if not self.member[pi]]
            if bad:
                return 'pool %r is no process group any more but was offered an event' % bad
        for e in effs:
            f = e.replace('%Z', '').replace('(', ' ').replace(')', ' ').split()
            if f[0] == 'EOffered':
                self.offered[int(f[1])].append(int(f[2]))
            elif f[0] == 'EAcked':
                self.acked[int(f[1])].append(int(f[3]))
            elif f[0] == 'EDiscard':
                self.discarded[int(f[1])].append(int(f[2]))
            elif f[0] == 'ESent':
                pi, vid, ser, pser = int(f[1]), int(f[3]), int(f[4]), int(f[5])
                if self.check_serials:
                    if self.sent_serial.setdefault(vid, ser) != ser:
                        return 'event %d sent with two different serials' % vid
                    for v2, s2 in self.sent_serial.items():
                        if v2 != vid and s2 == ser:
                            return 'events %d and %d share serial %d' % (vid, v2, ser)
                    if self.pserial_seen[pi].setdefault(vid, pser) != pser:
                        return 'event %d sent by pool %d with two different poolserials' % (vid, pi)
                    # poolserial increases in acceptance order
                    order = self.offered[pi]
                    for v2, p2 in self.pserial_seen[pi].items():
                        if v2 != vid and v2 in order and vid in order and \
                                (order.index(v2) < order.index(vid)) != (p2 < pser):
                            return 'pool %d: poolserials of events %d and %d do not follow acceptance order' % (pi, v2, vid)
        # ---- a listener that dies holding an event (in whatever process state: RUNNING, STOPPING after a stop
        #      request, UNKNOWN) gives it back: slot empty afterwards, EventRejectedEvent notified
        if op[0] == 'finish' and effs != ['EInapplicable'] and op[1] < len(pre) and op[2] < len(pre[op[1]][2]):
            held = pre[op[1]][2][op[2]][2]
            after = post[op[1]][2][op[2]][2]
            if after is not None:
                return 'listener %d/%d died (process state %s) and still holds event %r: it was not returned to its pool' % (
                    op[1], op[2], pre[op[1]][2][op[2]][0], after)
        # ---- a full stdin pipe (EAGAIN) is not a write error: the listener takes the event and goes BUSY
        if op[0] in ('dispatch', 'transition') and any(x.startswith('EWriteError') for x in effs):
            if not any(w[0] == 'err' for ws in op[2] for w in ws):
                return 'a write to a listener was treated as failed although the pipe only was full or broken (EAGAIN/EPIPE)'
        if op[0] == 'finish' and any(x.startswith('ERaise') for x in effs):
            return 'an exception escaped from finish() of a listener'
        if self.w.discard_log_mismatch:
            return 'number of error-level log lines differs from the number of discarded events plus write errors'
        # ---- a BUSY listener whose answer does not start with the header "RESULT <digits>\\n" violates the
        #      protocol: its event goes back to the pool (never acknowledged) and the listener is UNKNOWN
        if op[0] == 'feed' and effs != ['EInapplicable'] and getattr(self, 'pre_disp', None) == (b'', None) \
                and op[1] < len(pre) and op[2] < len(pre[op[1]][2]):
            import re
            from c10_env import EventListenerStates as _LS2
            st0 = pre[op[1]][2][op[2]]
            data = bytes(op[3])
            if st0[1] == _LS2.BUSY and st0[2] is not None and b'\n' in data \
                    and not re.fullmatch(rb'RESULT [0-9]+', data.split(b'\n')[0]):
                st1 = post[op[1]][2][op[2]]
                if any(x.startswith('EAcked') for x in effs) or st1[1] != _LS2.UNKNOWN or \
                        not any(x.startswith('ERejected %d %d' % (op[1], op[2])) for x in effs):
                    return ('listener %d/%d answered with the malformed header %r: its event must return to the pool and '
                            'the listener become UNKNOWN; effects were %r, listener state %r'
                            % (op[1], op[2], data.split(b'\n')[0], [x.split()[0] for x in effs], st1[1]))
        # ---- a main-loop pass over a pool with a queued event and a RUNNING+READY listener tries to send it,
        #      wherever in the pool that listener is and whatever state the others are in
        if op[0] == 'transition' and op[1] < len(pre) and effs != ['EInapplicable']:
            from c10_env import EventListenerStates as _LS
            buf, _, ls = pre[op[1]]
            if buf and any(l[0] == ProcessStates.RUNNING and l[1] == _LS.READY for l in ls):
                if not any(x.startswith(('ESent', 'EEpipe', 'EWriteError')) for x in effs):
                    return ('pool %d has queued events and a RUNNING+READY listener (listener states %r) but the pass '
                            'sent nothing: the READY listener starves' % (op[1], [l[1] for l in ls]))
        # ---- FIFO: a dispatch pass sends a prefix of the queue, in queue order
        if op[0] in ('dispatch', 'transition') and op[1] < len(pre):
            pi = op[1]
            sent = [int(e.replace('%Z', '').split()[3]) for e in effs if e.startswith('ESent')]
            if list(pre[pi][0][:len(sent)]) != sent:
                return 'pool %d sent %r but its queue was %r' % (pi, sent, list(pre[pi][0]))
        # ---- isolation of rejections (checked first: a foreign re-buffer also breaks the counts below)
        for e in effs:
            if e.startswith('ERejected') and 'Some' in e:
                f = e.replace('%Z', '').replace('(', ' ').replace(')', ' ').split()
                pi, vid = int(f[1]), int(f[4])
                reb = [x for x in effs if x.startswith('ERebuffered')]
                if any(int(x.split()[1]) != pi for x in reb if int(x.replace('%Z', '').split()[2]) == vid):
                    return 'event %d rejected by a listener of pool %d was re-buffered by another pool' % (vid, pi)
                if not any(int(x.split()[1]) == pi and int(x.replace('%Z', '').split()[2]) == vid for x in reb):
                    return 'event %d rejected by a listener of pool %d was not returned to its queue' % (vid, pi)
                # at the head of the owner's queue, unless something was queued or dropped there afterwards
                # (finish(): a rejection during drain() is followed by the state-change notifications)
                k = max(j for j, x in enumerate(effs) if x.startswith('ERebuffered %d ' % pi)
                        and int(x.replace('%Z', '').split()[2]) == vid)
                later = [x for x in effs[k + 1:] if x.startswith(('EOffered %d ' % pi, 'EDiscard %d ' % pi, 'ERebuffered %d ' % pi))]
                if op[0] in ('feed', 'finish') and not later and (not post[pi][0] or post[pi][0][0] != vid):
                    return 'event %d rejected by a listener of pool %d is not at the head of its queue' % (vid, pi)
        # ---- bound, no loss, isolation
        for pi in range(len(post)):
            buf, _, ls = post[pi]
            bs = self.cfgs[pi][1]
            if len(buf) > max(1, bs):
                return 'pool %d holds %d events, buffer_size is %d' % (pi, len(buf), bs)
            inflight = [l[2] for l in ls if l[2] is not None]
            lhs = sorted(self.offered[pi])
            rhs = sorted(list(buf) + inflight + self.acked[pi] + self.discarded[pi])
            if lhs != rhs and 'ERaise' not in effs:
                return ('pool %d: accepted %r but buffered+in-flight+acknowledged+discarded = %r'
                        % (pi, lhs, rhs))
        if op[0] == 'feed' and op[1] < len(pre):
            for pj in range(min(len(pre), len(post))):
                if pj != op[1] and post[pj] != pre[pj]:
                    return 'listener output in pool %d changed pool %d' % (op[1], pj)
        return None


def run_history(cfgs, ops, hk, gserial, maxdig, strip=False, partial=False):
    """-> (coq case, monitor verdict, trace info)"""
    import c09_drive as drv
    from c10_env import ProcessStates
    cfgs = list(cfgs)            # grows when a pool is added
    cfgs0 = list(cfgs)
    w = drv.World(cfgs, hk, gserial, strip)
    mon = Monitor(w, cfgs, check_serials=(gserial == -1 and all(c[3] == -1 for c in cfgs)))
    opterms, exp = [], []
    verdict = None
    kinds = []
    sent = {}          # (pool, listener) -> serials of the envelopes sent to the current incarnation
    tainted = set()    # incarnations that saw a write error other than EAGAIN/EPIPE (envelope may stay buffered)
    for k, op in enumerate(ops):
        pre = w.raw()
        pre_state = None
        if op[0] == 'finish' and op[1] < len(w.pools) and op[2] < len(w.pools[op[1]].procs):
            p = w.pools[op[1]].procs[op[2]]
            pre_state = 'unknown' if p.state == ProcessStates.UNKNOWN else \
                ('stopping' if p.killing else ('starting' if p.state == ProcessStates.STARTING else 'running'))
        mon.pre_disp = None
        if op[0] == 'feed' and op[1] < len(w.pools) and op[2] < len(w.pools[op[1]].procs):
            d0 = w.pools[op[1]].stdout_disp(w.pools[op[1]].procs[op[2]])
            if d0 is not None:
                mon.pre_disp = (d0.state_buffer, d0.resultlen)
        v0 = w.next_vid
        effs = w.apply(op)
        new = list(range(v0, w.next_vid))
        opterms.append(op_term(op, new, pre_state, effs, cfgs, w.skipped))
        exp.append('(%s, %s)' % (w.obs(), coq_list(effs)))
        post = w.raw()
        kinds.append((op[0], tuple(e.split()[0] for e in effs)))
        # ---- what a listener finds on its stdin is exactly the envelopes sent to it, each serial once, in order
        if op[0] == 'spawn' and effs != ['EInapplicable']:
            sent[(op[1], op[2])] = []
            tainted.discard((op[1], op[2]))
        for e in effs:
            if e.startswith('ESent'):
                f = e.replace('%Z', '').split()
                sent.setdefault((int(f[1]), int(f[2])), []).append(int(f[4]))
            elif e.startswith('EWriteError'):
                for i in range(len(w.pools[int(e.split()[1])].procs)):
                    tainted.add((int(e.split()[1]), i))
        if verdict is None:
            for pi, pool in enumerate(w.pools):
                for i, p in enumerate(pool.procs):
                    pipe, si = pool.pipe(p), pool.stdin_disp(p)
                    if pipe is None or (pi, i) in tainted:
                        continue
                    got = drv.parse_envelopes(pipe.accepted + (si.input_buffer if si is not None and not pipe.broken else b''))
                    want = sent.get((pi, i), [])
                    ser = [x[0] for x in got] if got is not None else None
                    if ser is None or (ser != want if (si is not None and not pipe.broken) else ser != want[:len(ser)]):
                        verdict = {'step': k, 'operation': _js([op])[0],
                                   'broken': 'stdin of listener %d/%d carries the envelopes with serials %r, the events sent '
                                             'to it have serials %r' % (pi, i, ser, want)}
        if verdict is None:
            why = mon.step(op, pre, post, effs)
            if why is not None:
                verdict = {'step': k, 'operation': _js([op])[0], 'broken': why}
    # captured stdin of every listener: whole envelopes only, consistent with what was sent
    if verdict is None:
        for pi, pool in enumerate(w.pools):
            for i, p in enumerate(pool.procs):
                pipe = pool.pipe(p)
                if pipe is not None and pipe.accepted:
                    envs = drv.parse_envelopes(pipe.accepted)
                    if envs is None or any(e[1] != w.names[pi] for e in envs):
                        verdict = {'step': len(ops), 'broken': 'stdin of listener %d/%d does not consist of whole envelopes of its pool' % (pi, i)}
    cfgterm = coq_list([cfg_term(c) for c in cfgs0])
    case = '(%s, %s, (%s, %s, %s), %s,\n %s,\n %s)' % (
        zlit(hk), zlit(maxdig), cfgterm, zlit(sys.maxsize), zlit(gserial), coq_list(opterms), coq_list(exp), w.table_term())
    return case, verdict, kinds


def ready_setup(cfgs):
    """all listeners spawned, RUNNING and READY"""
    ops = []
    pid = 100
    for pi, c in enumerate(cfgs):
        for i in range(c[2]):
            pid += 1
            ops += [['spawn', pi, i, pid], ['running', pi, i], ['feed', pi, i, b'READY\n']]
    return ops


def run(chk):
    proved = chk.prove('props/C09.v', gens=gens())
    with vlib.WorkDir('c09') as wd:
        _run(chk, wd, proved)


def _run(chk, wd, proved):
    rng = chk.rng
    quick = chk.tier == 'quick'
    maxdig = sys.get_int_max_str_digits() if hasattr(sys, 'get_int_max_str_digits') else 0
    cases, meta, distinct = [], [], set()
    nviol = [0]

    def add(cfgs, ops, hk=0, gserial=-1, tag='', strip=False):
        case, verdict, kinds = run_history(cfgs, ops, hk, gserial, maxdig, strip)
        m = {'family': tag, 'pools': [list(c) for c in cfgs], 'handler': hk, 'gserial': gserial, 'strip_ansi': strip,
             'ops': _js(ops)}
        add.last_kinds = kinds
        cases.append(case)
        meta.append(m)
        for kd in kinds:
            distinct.add(kd)
        chk.dist('pools=%d' % len(cfgs))
        if verdict is not None and nviol[0] < 8:
            nviol[0] += 1
            chk.violation({'kind': 'the implementation breaks the event distribution property on this history',
                           'case': m, 'monitor': verdict})

    # ---- corpus of earlier minimized histories, first
    import os
    cdir = os.path.join(vlib.VERIF, 'corpus', 'C09')
    if os.path.isdir(cdir):
        for fn in sorted(os.listdir(cdir)):
            if fn.endswith('.json'):
                with open(os.path.join(cdir, fn)) as f:
                    c = json.load(f)
                add([tuple(x) for x in c['pools']], _unjs(c['ops']), hk=c.get('handler', 0), gserial=c.get('gserial', -1), tag='corpus')

    # ---- exhaustive: every operation sequence of depth d after the READY setup, on a grid of configurations
    grid = []
    for subs0, subs1 in [(SUBS[3], SUBS[0]), (SUBS[4], SUBS[0]), (SUBS[5], SUBS[6]), (SUBS[1], SUBS[2]), (SUBS[0], SUBS[10])]:
        for bs in ((1, 2) if quick else (0, 1, 2, 3)):
            for nl in (1, 2):
                # listeners of the two pools share their priority (distinct names) / their names (distinct priorities)
                for prefix in (None, 'listener'):
                    grid.append([(subs0, bs, nl, -1, 999, prefix), (subs1, max(1, bs), 1, -1, 999, prefix)])
    alpha = []
    for t in ('Tick5Event', 'ProcessStateRunningEvent'):
        alpha.append(['emit', t])
    for pi in (0, 1):
        alpha.append(['transition', pi, []])
        alpha.append(['feed', pi, 0, b'RESULT 2\nOKREADY\n'])
        alpha.append(['feed', pi, 0, b'RESULT 4\nFAILREADY\n'])
    alpha.append(['feed', 0, 0, b'garbage'])
    alpha.append(['feed', 0, 0, b'XXXXXXX2\nOKREADY\n'])   # header wrong only in its first 7 bytes
    alpha.append(['feed', 0, 1, b'garbage'])      # the last listener of a two-listener pool leaves the protocol
    alpha.append(['finish', 0, 0, b'', B])
    alpha.append(['stopfail', 0, 0])
    alpha.append(['dispatch', 0, [[['again'], ['again']]]])
    alpha.append(['dispatch', 0, [[['err'], ['room', BIG]], [['room', BIG], ['err']]]])   # write error: logged, event kept
    depth = 3
    for cfgs in grid:
        setup = ready_setup(cfgs)
        for seq in itertools.product(alpha, repeat=depth):
            if quick and rng.random() < 0.97:
                continue
            if not quick and (cfgs[0][1] in (0, 3) and rng.random() < 0.7 or rng.random() < 0.5):
                continue
            add(cfgs, setup + [['emit', 'ProcessStateRunningEvent'], ['emit', 'Tick5Event']] + list(seq), tag='exh')
            chk.dist('exh')
    n_exh = len(cases)

    # ---- routing: every (type, supertype) pair of the real hierarchy, configured in both orders, also
    #      next to a pool subscribed to the subtype only; events of the subtype, the supertype and a leaf
    from c10_env import events as _ev
    classes = [getattr(_ev, n) for n in dir(_ev) if isinstance(getattr(_ev, n), type) and issubclass(getattr(_ev, n), _ev.Event)]
    classes.sort(key=lambda c: c.__name__)
    npairs = 0
    for T in classes:
        for S in classes:
            if T is not S and issubclass(T, S):
                leaf = [c for c in classes if issubclass(c, T) and not [d for d in classes if d is not c and issubclass(d, c)]][0]
                for order in ([T.__name__, S.__name__], [S.__name__, T.__name__]):
                    cfgs = [(order, 3, 1, -1, 999, None), ([T.__name__], 3, 1, -1, 999, None)]
                    add(cfgs, [['emit', T.__name__], ['emit', S.__name__], ['emit', leaf.__name__]], tag='pairs')
                npairs += 1
    chk.dist('pairs', 2 * npairs)

    # ---- process groups: removal attempts on pools that are not stopped (refused: the pool keeps receiving
    #      every subscribed event), on stopped pools (accepted: nothing more is offered), adding the pool again
    #      under the same name (a new pool object), events emitted in between - through the real
    #      Supervisor.remove_process_group / add_process_group
    def finish_all(pi, nl):
        return [['finish', pi, i, b'', B] for i in range(nl)]
    g_cfgs = [
        [(['ProcessGroupEvent', 'TickEvent'], 2, 2, -1, 999, None), (['Event'], 3, 1, -1, 999, None)],
        [(['ProcessStateEvent', 'ProcessStateRunningEvent'], 1, 1, -1, 999, 'listener'),
         (['ProcessGroupRemovedEvent', 'Tick5Event'], 2, 1, -1, 999, 'listener')],
        [(['Event'], 2, 1, -1, 999, None), (['Event'], 2, 2, -1, 999, None), (['TickEvent'], 1, 1, -1, 999, None)],
    ]
    emits = [['emit', 'Tick5Event'], ['emit', 'ProcessStateRunningEvent'], ['emit', 'ProcessGroupAddedEvent']]
    n_g0 = len(cases)
    for cfgs in g_cfgs:
        nl0 = cfgs[0][2]
        pres = {
            'never-started': [],
            'running': ready_setup(cfgs),
            'busy': ready_setup(cfgs) + [['emit', 'Tick5Event'], ['transition', 0, []]],
            'stopping': ready_setup(cfgs) + [['stop', 0, 0]],
            'unknown-holding-event': ready_setup(cfgs) + [['emit', 'Tick5Event'], ['transition', 0, []]] +
                                     [['stopfail', 0, i] for i in range(nl0)],
            'one-exited': ready_setup(cfgs) + finish_all(0, 1),
            'all-exited': ready_setup(cfgs) + finish_all(0, nl0),
            'stopped': ready_setup(cfgs) + [['stop', 0, i] for i in range(nl0)] + finish_all(0, nl0),
            'exited-holding-events': ready_setup(cfgs) + [['emit', 'Tick5Event'], ['emit', 'Tick5Event'], ['transition', 0, []]]
                                     + finish_all(0, nl0),
        }
        for pname, pre in sorted(pres.items()):
            for which in (0, 1):
                ops = pre + emits[:1] + [['remove', which]] + emits + [['transition', 1, []], ['remove', which]] + emits[:2] + \
                    [['add', which]] + emits + \
                    [['spawn', len(cfgs), 0, 700], ['running', len(cfgs), 0], ['feed', len(cfgs), 0, b'READY\n'],
                     ['transition', len(cfgs), []], ['remove', len(cfgs)], ['emit', 'Tick5Event'],
                     ['finish', len(cfgs), 0, b'', B], ['remove', len(cfgs)], ['emit', 'Tick5Event'], ['add', which],
                     ['emit', 'Tick5Event']]
                add(cfgs, ops, tag='groups')
                chk.dist('groups:' + pname)
    n_groups = len(cases) - n_g0

    # ---- a new daemon life through the real Supervisor.run(): pools of life 1, restart, pools of life 2
    #      (new objects from the same configuration): events of life 2 reach life-2 pools only
    for cfgs in g_cfgs:
        n0 = len(cfgs)
        for pre in ([], ready_setup(cfgs), ready_setup(cfgs) + [['emit', 'Tick5Event'], ['transition', 0, []]]):
            ops = pre + emits[:2] + [['restart']] + emits + \
                [['spawn', n0, 0, 800], ['running', n0, 0], ['feed', n0, 0, b'READY\n'], ['transition', n0, []],
                 ['emit', 'Tick5Event'], ['remove', n0 + 1], ['emit', 'ProcessStateRunningEvent'], ['restart'], ['emit', 'Tick5Event'],
                 ['emit', 'ProcessGroupAddedEvent']]
            add(cfgs, ops, tag='restart')
            chk.dist('restart')

    # ---- options.strip_ansi must not influence what happens to an event: the same history with the flag
    #      off and on (escape sequences inside result lines and bodies) must have the same effects
    ansi_feeds = [b'RESULT 2\n\x1b[0mOK', b'RESULT 6\nO\x1b[1mK', b'RESULT 2\x1b[K\nOK', b'RES\x1b[mULT 2\nOK',
                  b'RESULT 7\n\x1b[31mOK', b'RESULT 2\nOK\x1b[0m', b'\x1b[1mRESULT 2\nOK', b'RESULT 4\nFA\x1b[', b'IL']
    ansi_cfg = [(['Event'], 3, 1, -1, 999, None), (['TickEvent'], 2, 1, -1, 999, None)]
    for f1 in ansi_feeds:
        for f2 in (b'READY\n', b'RE\x1b[1mADY\n', b'\x1b[0mREADY\n'):
            ops = ready_setup(ansi_cfg) + [['emit', 'Tick5Event'], ['emit', 'Tick60Event'], ['transition', 0, []],
                                           ['transition', 1, []], ['feed', 0, 0, f1], ['feed', 1, 0, f1],
                                           ['feed', 0, 0, f2], ['transition', 0, []], ['transition', 1, []],
                                           ['feed', 0, 0, b'RESULT 2\nOK'], ['finish', 1, 0, b'', B]]
            add(ansi_cfg, ops, tag='ansi', strip=False)
            plain = add.last_kinds
            add(ansi_cfg, ops, tag='ansi', strip=True)
            chk.dist('ansi', 2)
            if add.last_kinds != plain and nviol[0] < 12:
                nviol[0] += 1
                step = [i for i, (a, b) in enumerate(zip(plain, add.last_kinds)) if a != b][0]
                chk.violation({'kind': 'the fate of an event depends on options.strip_ansi',
                               'case': meta[-1], 'first_difference_at_step': step, 'operation': _js([ops[step]])[0],
                               'effects_with_strip_ansi_false': list(plain[step][1]),
                               'effects_with_strip_ansi_true': list(add.last_kinds[step][1]),
                               'explanation': 'whether a listener\'s answer accepts or rejects its event must be a function of '
                                              'the raw bytes it wrote; escape stripping is for the child log only'})

    # ---- a result handler that raises something else than RejectEvent (second handler, body '!X')
    for cfgs in g_cfgs[:2]:
        for body in (b'RESULT 2\n!X', b'RESULT 2\n', b'RESULT 2\n!XREADY\n', b'RESULT 2\n!S', b'RESULT 2\n!KREADY\n'):
            ops = ready_setup(cfgs) + [['emit', 'Tick5Event'], ['emit', 'ProcessStateRunningEvent'], ['transition', 0, []],
                                       ['transition', 1, []], ['feed', 0, 0, body], ['feed', 1, 0, body],
                                       ['feed', 0, 0, b'!X'], ['transition', 0, []], ['emit', 'Tick5Event'], ['transition', 1, []]]
            add(cfgs, ops, hk=1, tag='handler')
            chk.dist('handler')

    # ---- partial writes (the pipe takes a part of the envelope): judged on the implementation only - what a
    #      listener finds on its stdin plus what is still buffered must be the whole envelopes that were sent
    for cfgs in g_cfgs[:2]:
        for room in (1, 30, 55):
            for mid in ([], [['stop', 0, 0]], [['feed', 0, 0, b'RESULT 2\nOK']]):
                ops = ready_setup(cfgs) + [['emit', 'Tick5Event'], ['emit', 'ProcessStateRunningEvent'],
                                           ['dispatch', 0, [[['room', room]] * 3] * 3], ['dispatch', 1, [[['room', room]] * 3] * 3]] + mid + \
                    [['writable', 0, 0, ['room', 7]], ['writable', 0, 0, B], ['writable', 1, 0, B], ['emit', 'Tick5Event'],
                     ['transition', 0, []], ['transition', 1, []]]
                case, verdict, kinds = run_history(cfgs, ops, 0, -1, maxdig, False, partial=True)
                chk.dist('partial')
                if verdict is not None and nviol[0] < 12:
                    nviol[0] += 1
                    chk.violation({'kind': 'the implementation breaks the event distribution property on this history',
                                   'case': {'family': 'partial', 'pools': [list(c) for c in cfgs], 'handler': 0, 'gserial': -1,
                                            'strip_ansi': False, 'ops': _js(ops)}, 'monitor': verdict})

    # ---- configuration comparison (what reread/update uses to find changed pools): two pool configurations that
    #      differ in one attribute only must compare unequal, and the real Supervisor.diff_to_active() must report
    #      the running pool as changed - else it keeps its old buffer_size / subscriptions / handler
    from c10_env import EventListenerPoolConfig as _PC, listener_config as _lc, events as _ev2, sdisp as _sd, fresh_world as _fw
    from supervisor.supervisord import Supervisor as _Sup
    base_kw = dict(name='pool', priority=999, buffer_size=10, pool_events=[_ev2.TickEvent], result_handler=_sd.default_handler)

    def mk(o, **kw):
        a = dict(base_kw)
        a.update(kw)
        return _PC(o, a['name'], a['priority'], [_lc(o, 'l0', 999)], a['buffer_size'], list(a['pool_events']), a['result_handler'])
    variants = [('buffer_size', dict(buffer_size=1)), ('pool_events', dict(pool_events=[_ev2.TickEvent, _ev2.ProcessStateEvent])),
                ('result_handler', dict(result_handler=env_test_handler())), ('priority', dict(priority=5)), ('name', dict(name='other'))]
    for what, kw in variants:
        o = _fw()
        old_c, same_c, new_c = mk(o), mk(o), mk(o, **kw)
        chk.dist('config')
        if old_c != same_c or not (old_c == same_c):
            chk.violation({'kind': 'two identical pool configurations compare unequal', 'attribute': what})
        sup = _Sup(o)
        sup.process_groups = {old_c.name: old_c.make_group()}
        o.process_group_configs = [new_c]
        added, changed, removed = sup.diff_to_active()
        reported = bool(changed) or (what == 'name' and bool(added) and bool(removed))
        if old_c == new_c or not reported:
            chk.violation({'kind': 'a pool configuration that differs only in %s is not reported as changed' % what,
                           'old': {k: repr(v) for k, v in base_kw.items()}, 'new': {k: repr(v) for k, v in kw.items()},
                           'configs_compare_equal': old_c == new_c,
                           'diff_to_active': [len(added), len(changed), len(removed)],
                           'consequence': 'reread/update leaves the running pool as it is: e.g. it keeps its old buffer_size '
                                          'and holds more undelivered events than configured, without an overflow error'})
        _ev2.clear()

    # ---- random histories
    def rand_cfgs():
        n = rng.choice([1, 2, 2, 3])
        same_prio = rng.random() < 0.7
        prefix = 'listener' if rng.random() < 0.5 else None     # same process names in every pool
        return [(rng.choice(SUBS), rng.choice([0, 1, 1, 2, 3, 4]), rng.choice([1, 1, 2, 3]),
                 -1, 999 if same_prio else 900 + k, prefix) for k in range(n)]

    def rand_ops(cfgs, n):
        ops = ready_setup(cfgs) if rng.random() < 0.8 else []
        pid = [500]
        for _ in range(n):
            pi = rng.randrange(len(cfgs))
            i = rng.randrange(cfgs[pi][2])
            r = rng.random()
            if r < 0.012:
                ops.append(['restart'])
            elif r < 0.06:
                # process groups: removal (after stopping everything, or as it is) and adding again
                k = rng.random()
                if k < 0.4:
                    ops += [['finish', pi, j, b'', B] for j in range(cfgs[pi][2])]
                if k < 0.8:
                    ops.append(['remove', pi])
                else:
                    ops.append(['add', pi])
                    if rng.random() < 0.7:
                        newpi = len(cfgs) + rng.randrange(2)
                        ops += [['spawn', newpi, 0, 600 + len(ops)], ['running', newpi, 0], ['feed', newpi, 0, b'READY\n']]
            elif r < 0.30:
                ops.append(['emit', rng.choice(EMIT)])
            elif r < 0.55:
                ops.append(['feed', pi, i, rng.choice([b'READY\n', b'RESULT 2\nOK', b'RESULT 2\nOKREADY\n', b'RESULT 4\nFAIL',
                                                        b'RESULT 4\nFAILREADY\n', b'garbage', b'RESULT x\n', b'RESULT 2\n',
                                                        b'result 2\nOK', b'RESULT:2\nOK', b'XXXXXXX2\nOKREADY\n', b'RESULt 2\nOK',
                                                        b'OK', b'!X', b'RESULT 2\n!X', b'RESULT 0\n', b''])])
            elif r < 0.72:
                wss = [[rng.choice([B, B, B, B, ['again'], ['epipe'], ['err']]) for _ in range(cfgs[pi][2])] for _ in range(4)]
                ops.append([rng.choice(['transition', 'transition', 'dispatch']), pi, wss])
            elif r < 0.78:
                ops.append(['writable', pi, i, rng.choice([B, B, ['again'], ['epipe']])])
            elif r < 0.86:
                pid[0] += 1
                ops.append(['spawn', pi, i, pid[0]])
                if rng.random() < 0.75:      # else: still STARTING when it announces READY
                    ops.append(['running', pi, i])
                if rng.random() < 0.8:
                    ops.append(['feed', pi, i, b'READY\n'])
            elif r < 0.89:
                ops.append(['stop', pi, i])
            elif r < 0.905:
                ops.append(['stopfail', pi, i])     # the signal cannot be sent: process state UNKNOWN
            else:
                ops.append(['finish', pi, i, rng.choice([b'', b'', b'RESULT 2\nOK', b'junk']), rng.choice([B, B, ['epipe'], ['err']])])
        return ops
    nrand = 500 if quick else 8000
    for _ in range(nrand):
        cfgs = rand_cfgs()
        add(cfgs, rand_ops(cfgs, rng.randrange(5, 22)), hk=rng.choice([0, 0, 1]), tag='rand', strip=rng.random() < 0.4)
    # ---- serial wrap at maxint (GlobalSerial and pool serial start just below it)
    for _ in range(40 if quick else 400):
        cfgs = [(c[0], c[1], c[2], sys.maxsize - rng.randrange(0, 3), c[4], c[5]) for c in rand_cfgs()]
        add(cfgs, rand_ops(cfgs, rng.randrange(5, 14)), gserial=sys.maxsize - rng.randrange(0, 4), tag='wrap')

    # ---- compare with the model inside Coq
    import time
    t_gen = time.time() - chk.t0
    bad, errs = _compare(cases, wd)
    t_coq = time.time() - chk.t0 - t_gen
    for e in errs:
        chk.violation({'kind': 'model evaluation failed', 'error': e}, nofail=True)
    for i in bad[:5]:
        chk.violation({'kind': 'model and implementation disagree', 'case': meta[i],
                       'explanation': 'the Coq model of event distribution (about which the C09 theorems are proved) and '
                                      'the implementation differ on this history; the monitors of the property statement '
                                      'found no step at which the implementation itself breaks it'},
                      nofail=True)

    # ---- tables: subscription dedupe, subtyping, event names against the real classes
    from c10_env import events
    names = [n for n in dir(events) if isinstance(getattr(events, n), type) and
             (issubclass(getattr(events, n), events.Event) or n == 'EventRejectedEvent')]
    sub_cases = []
    for a in names:
        for b in names:
            sub_cases.append('(T_%s, T_%s, %s)' % (a, b, vlib.blit(issubclass(getattr(events, a), getattr(events, b)))))
    sbad, serr = vlib.coq_compare(IMPORTS, 'etype * etype * bool', 'check_subtype', sub_cases, wd, shard=2000, tag='subtype')
    name_cases = []
    for a in names:
        nm = events.getEventNameByType(getattr(events, a))
        name_cases.append('(T_%s, %s)' % (a, ('(Some %s)' % bytes_lit(nm.encode())) if nm else 'None'))
    nbad, nerr = vlib.coq_compare(IMPORTS, 'etype * option (list Z)', 'check_name', name_cases, wd, tag='names')
    dd_cases = []
    pools_for_dedupe = list(SUBS)
    for _ in range(300 if quick else 3000):
        pools_for_dedupe.append([rng.choice(names[:-1] if names[-1] == 'EventRejectedEvent' else names)
                                 for _ in range(rng.randrange(0, 6))])
    for subs in pools_for_dedupe:
        subs = [s for s in subs if s != 'EventRejectedEvent']
        env_opts = _Opts()
        from supervisor.options import EventListenerPoolConfig
        from supervisor.process import EventListenerPool
        events.clear()
        cfg = EventListenerPoolConfig(env_opts, 'x', 1, [], 1, [getattr(events, s) for s in subs], None)
        real = EventListenerPool(cfg)._subscription_types()
        dd_cases.append('(%s, %s)' % (coq_list(['T_' + s for s in subs]), coq_list(['T_' + c.__name__ for c in real])))
    dbad, derr = vlib.coq_compare(IMPORTS, 'list etype * list etype', 'check_subs', dd_cases, wd, tag='dedupe')
    for what, b, e in (('subtype table', sbad, serr), ('event names', nbad, nerr), ('_subscription_types', dbad, derr)):
        for x in e:
            chk.violation({'kind': 'model evaluation failed (%s)' % what, 'error': x}, nofail=True)
        if b:
            chk.violation({'kind': 'generated/model %s disagrees with the real classes' % what, 'indices': b[:10]}, nofail=True)

    if not proved:
        chk.violation({'kind': 'proof obligation no longer checks', 'detail': chk.proof_failure,
                       'file': 'coq/props/C09.v'}, nofail=not chk.violations)
    cov = chk.coverage
    cov['evaluations'] = len(cases) + len(sub_cases) + len(name_cases) + len(dd_cases)
    cov['traces_validated_against_impl'] = len(cases)
    cov['distinct_nontrivial'] = len(distinct)
    cov['exhaustive'] = False
    cov['rule'] = ('%d histories: %d from the exhaustive part (every sequence of %d operations over %d operation kinds after a '
                   'READY setup plus two emitted events, on %d two-pool configurations; quick tier samples 3%% of them, thorough 50%% of '
                   'buffer sizes 1-2 and 15%% of 0 and 3; every configuration once with listeners of different pools sharing their '
                   'priority and once sharing their process names), %d random '
                   'histories of 5-21 operations on 1-3 pools (12 subscription lists incl. type+supertype, duplicates, empty; '
                   'buffer sizes 0-4; 1-3 listeners; equal and different priorities), 40+ histories starting just below maxint; every (type, supertype) pair of the hierarchy configured in both orders; %d process-group histories (removal refused / accepted in 9 pool states, re-adding under the same name) through the real Supervisor.remove_process_group/add_process_group, and such operations in the random stream; '
                   'distinct = distinct (operation kind, effect kinds) combinations observed'
                   % (len(cases), n_exh, depth, len(alpha), len(grid), nrand, n_groups))
    cov['samples'] = [meta[0], meta[n_exh + 1] if len(meta) > n_exh + 1 else meta[-1], meta[-1]]
    chk.note('%d histories compared in Coq; build+implementation runs %.0fs, model evaluation %.0fs; %d subtype pairs, '
             '%d event names, %d subscription lists' % (len(cases), t_gen, t_coq, len(sub_cases), len(name_cases), len(dd_cases)))


def env_test_handler():
    import c10_env
    return c10_env.test_handler


class _Opts(object):
    identifier = 's'

    class logger:
        @staticmethod
        def debug(*a): pass
        info = warn = error = critical = debug


def _compare(cases, wd):
    shards, cur, size = [], [], 0
    for c in cases:
        if cur and (size + len(c) > 150000 or len(cur) >= 300):
            shards.append(cur)
            cur, size = [], 0
        cur.append(c)
        size += len(c)
    if cur:
        shards.append(cur)
    tagged, base = [], 0
    for sh in shards:
        tagged.append((base, sh))
        base += len(sh)
    from concurrent.futures import ThreadPoolExecutor

    def one(args):
        k, (b0, sh) = args
        b, e = vlib.coq_compare(IMPORTS, CASE_TYPE, 'check_gworld', sh, wd, shard=len(sh) + 1, tag='w%d' % k)
        return [b0 + x for x in b], e
    bad, errs = [], []
    with ThreadPoolExecutor(max_workers=vlib.NCPU) as ex:
        for b, e in ex.map(one, enumerate(tagged)):
            bad += b
            errs += e
    return sorted(bad), errs


def _js(ops):
    out = []
    for op in ops:
        out.append([{'bytes': list(x)} if isinstance(x, (bytes, bytearray)) else x for x in op])
    return out


def _unjs(ops):
    out = []
    for op in ops:
        out.append([bytes(x['bytes']) if isinstance(x, dict) and 'bytes' in x else x for x in op])
    return out


def replay(chk, path):
    with open(path) as f:
        obj = json.load(f)
    print(json.dumps(obj, indent=1)[:3000])
    m = obj.get('case')
    if m and 'ops' in m:
        maxdig = sys.get_int_max_str_digits() if hasattr(sys, 'get_int_max_str_digits') else 0
        cfgs = [tuple(c) for c in m['pools']]
        with vlib.WorkDir('c09r') as wd:
            case, verdict, kinds = run_history(cfgs, _unjs(m['ops']), m['handler'], m['gserial'], maxdig, m.get('strip_ansi', False))
            print('monitor verdict:', verdict)
            b, e = vlib.coq_compare(IMPORTS, CASE_TYPE, 'check_gworld', [case], wd, tag='replay')
            print('model agrees' if not b and not e else 'model DISAGREES %r %r' % (b, e))
            if verdict is not None:
                chk.violation(obj, name='replayed')
            elif b or e:
                chk.violation(obj, nofail=True, name='replayed')
    else:
        run(chk)
