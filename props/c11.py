"""C11 - event notifications tell the truth.

Theorems: coq/props/C11.v over coq/C11/*.v (Gen_events.v regenerated from
supervisor/events.py, states.py, process.py and the notify() call sites).
Correspondence: the real _eventEnvelope, every payload(), getEventNameByType,
Supervisor.tick, Subprocess.change_state/finish, Supervisor group/daemon-state
notifications, sendRemoteCommEvent through the real XML-RPC handler, and real
pool dispatch whose bytes on the listener's stdin are parsed at byte level -
each against the Coq model on the same inputs; independent Python monitors
judge the implementation's output directly so that a broken property is
reported with the failing input.
"""
import itertools
import json
import os
import sys

import vlib
from vlib import zlit, zlist, blit, coq_opt, coq_list

LEVEL = 'proof'
_REPLAY = []      # case objects of --replay, run first like the corpus
IMPORTS = ['SV.C11.Base', 'SV.C11.Utf8', 'SV.C11.Gen_events', 'SV.C11.Envelope', 'SV.C11.Tick',
           'SV.C11.Notify', 'SV.C11.Routing', 'SV.C11.Capture', 'SV.C11.Listeners', 'SV.C11.Register', 'SV.C11.Pipe', 'SV.C11.Corr']
HEADER_KEYS = [b'ver', b'server', b'serial', b'pool', b'poolserial', b'eventname', b'len']

# docs/events.rst, written down independently of events.py: concrete class -> event name
DOCUMENTED_NAMES = {
    'ProcessStateStartingEvent': 'PROCESS_STATE_STARTING', 'ProcessStateRunningEvent': 'PROCESS_STATE_RUNNING',
    'ProcessStateBackoffEvent': 'PROCESS_STATE_BACKOFF', 'ProcessStateStoppingEvent': 'PROCESS_STATE_STOPPING',
    'ProcessStateExitedEvent': 'PROCESS_STATE_EXITED', 'ProcessStateStoppedEvent': 'PROCESS_STATE_STOPPED',
    'ProcessStateFatalEvent': 'PROCESS_STATE_FATAL', 'ProcessStateUnknownEvent': 'PROCESS_STATE_UNKNOWN',
    'RemoteCommunicationEvent': 'REMOTE_COMMUNICATION',
    'ProcessLogStdoutEvent': 'PROCESS_LOG_STDOUT', 'ProcessLogStderrEvent': 'PROCESS_LOG_STDERR',
    'ProcessCommunicationStdoutEvent': 'PROCESS_COMMUNICATION_STDOUT',
    'ProcessCommunicationStderrEvent': 'PROCESS_COMMUNICATION_STDERR',
    'SupervisorRunningEvent': 'SUPERVISOR_STATE_CHANGE_RUNNING', 'SupervisorStoppingEvent': 'SUPERVISOR_STATE_CHANGE_STOPPING',
    'Tick5Event': 'TICK_5', 'Tick60Event': 'TICK_60', 'Tick3600Event': 'TICK_3600',
    'ProcessGroupAddedEvent': 'PROCESS_GROUP_ADDED', 'ProcessGroupRemovedEvent': 'PROCESS_GROUP_REMOVED',
}


def tlit(s):
    """A Python str as `text` (code points)."""
    return zlist([ord(c) for c in s])


def blist(b):
    return zlist(list(b))


def otext(s):
    return 'None' if s is None else '(Some %s)' % tlit(s)


def obytes(b):
    return 'None' if b is None else '(Some %s)' % blist(b)


def is_ascii(s):
    return all(ord(c) < 128 for c in s)


# ----------------------------------------------------------------- byte-level listener (Python)

def parse_header_bytes(w):
    """As a listener in another language would: first LF, spaces, first colon."""
    i = w.find(b'\n')
    if i < 0:
        return None
    line, rest = w[:i], w[i + 1:]
    kvs = []
    for tok in line.split(b' '):
        j = tok.find(b':')
        if j < 0:
            return None
        kvs.append((tok[:j], tok[j + 1:]))
    return kvs, rest


def parse_dec_bytes(v):
    neg = v.startswith(b'-')
    d = v[1:] if neg else v
    if not d or any(c < 48 or c > 57 for c in d):
        return None
    n = 0
    for c in d:
        n = n * 10 + (c - 48)
    return -n if neg else n


def listener_stream_bytes(w):
    out = []
    while w:
        h = parse_header_bytes(w)
        if h is None:
            return None
        kvs, rest = h
        lv = dict(kvs).get(b'len')
        if lv is None:
            return None
        n = parse_dec_bytes(lv)
        if n is None or n < 0 or len(rest) < n:
            return None
        out.append((kvs, rest[:n]))
        w = rest[n:]
    return out


def stream_term(w, parsed):
    if parsed is None:
        r = 'None'
    else:
        r = '(Some %s)' % coq_list('(%s, %s)' % (coq_list('(%s, %s)' % (blist(k), blist(v)) for k, v in kvs), blist(p))
                                   for kvs, p in parsed)
    return '(%s, %s)' % (blist(w), r)


# ----------------------------------------------------------------- term builders

def pdata_term(d):
    return '(DBytes %s)' % blist(d) if isinstance(d, bytes) else '(DStr %s)' % tlit(d)


def rc_term(a):
    return '(RBytes %s)' % blist(a) if isinstance(a, bytes) else '(RStr %s)' % tlit(a)


def ogroup(g):
    return 'None' if g is None else '(Some %s)' % tlit(g)


def rendered_term(evs):
    return coq_list('(%s, %s)' % (cn, otext(pl)) for cn, pl in evs)


class FakeProcCfg(object):
    def __init__(self, name):
        self.name = name


class FakeProc(object):
    """What payload()/get_extra_values() read from event.process."""
    def __init__(self, name, group, pid, backoff):
        import c11_impl
        self.config = FakeProcCfg(name)
        self.group = c11_impl.FakeGroup(group) if group is not None else None
        self.pid = pid
        self.backoff = backoff


def safe_payload(e):
    try:
        return e.payload()
    except Exception:
        return None


# ----------------------------------------------------------------- the run

def run(chk):
    import c11_events
    proved = chk.prove('props/C11.v', gens=[c11_events.generate], extra_targets=['C11/Corr.vo'])
    with vlib.WorkDir('c11') as wd:
        _run(chk, wd, proved)


NAMES_ASCII = ['p', 'proc_1', 'cat-0']
NAMES_WILD = [u'prôc', u'€', u'a b', u'a:b', u'x\ny', u'\U0001F600z', u'']
DATA_BYTES = [b'', b'hello', b'h\xc3\xa9llo', b'\xe2\x82\xac\xf0\x9f\x98\x80', b'\xff\xfe', b'\xc3', b"it's",
              b'a"b\'c', b'\x00\t\n\r\\\x7f\x80', b'line1\nline2\n', b'\xed\xa0\x80', b'\xc0\xaf', b'\xf4\x90\x80\x80',
              b'ver:3.0 len:5\n', b'100%', b'%s', b'%(ver)s and %(len)s', b'50%% done %d', b'%']
DATA_STR = [u'', u'plain', u'héllo', u'€\U0001F600', u'%(payload)s', u'cpu 97% %s']


def _run(chk, wd, proved):
    import c11_impl as I
    import c11_events
    from supervisor import events, process, states
    from supervisor.compat import as_bytes
    from supervisor.options import decode_wait_status as _real_decode_wait_status

    def true_exit_status(sts):
        # POSIX wait status, decoded here and not by the code under test: low 7 bits = terminating
        # signal (0: exited), 0x80 = core flag, next byte = exit status
        return (sts >> 8) & 0xff if (sts & 0x7f) == 0 else -1

    def decode_wait_status(sts):
        return (true_exit_status(sts), None)
    rng = chk.rng
    quick = chk.tier == 'quick'
    # at most 3 replays per kind of failure (the first ones, which are the smallest inputs)
    raw_violation = chk.violation
    per_kind = {}

    def limited(obj, nofail=False, name=None):
        k = (obj.get('kind'), obj.get('part')) if isinstance(obj, dict) else None
        per_kind[k] = per_kind.get(k, 0) + 1
        if per_kind[k] <= 3:
            return raw_violation(obj, nofail=nofail, name=name)
    chk.violation = limited
    parts = {}      # name -> (case_type, check_fn, [terms], [meta])
    distinct = set()
    known_len = [0]
    samples = []

    def part(name, ctype, fn):
        parts[name] = (ctype, fn, [], [])
        return parts[name][2], parts[name][3]

    # corpus of earlier failures (and the case of --replay), run before everything else of their kind
    import glob
    corpus_objs = list(_REPLAY)
    for f in sorted(glob.glob(os.path.join(vlib.VERIF, 'corpus', 'C11', '*.json'))):
        with open(f) as fh:
            corpus_objs.append(json.load(fh))
    try:
        gen_names = c11_events.read_events()['names']
    except Exception as e:
        gen_names = None
        chk.violation({'kind': 'translator rejected the current source', 'error': repr(e)}, nofail=True)
        return

    def cls_term(cls):
        n = cls.__name__
        if n not in gen_names:
            chk.violation({'kind': 'event class unknown to the generated table', 'class': n}, nofail=True)
        return n

    # ---------------- A. primitives
    enc_c, enc_m = part('encode', 'text * option bytes', 'check_encode')
    texts = set(NAMES_ASCII + NAMES_WILD + DATA_STR + [u'\ud800', u'a\udfffb', u'\x7f\x80߿ࠀ￿\U00010000\U0010ffff'])
    for _ in range(300 if quick else 5000):
        n = rng.randrange(0, 6)
        texts.add(u''.join(chr(rng.choice([rng.randrange(0, 128), rng.randrange(128, 0x800), rng.randrange(0x800, 0x10000),
                                           rng.randrange(0x10000, 0x110000), rng.choice([0xd7ff, 0xd800, 0xdfff, 0xe000])]))
                           for _ in range(n)))
    for t in sorted(texts):
        try:
            r = t.encode('utf-8')
        except UnicodeEncodeError:
            r = None
        enc_c.append('(%s, %s)' % (tlit(t), obytes(r)))
        enc_m.append(repr(t))
        chk.dist('encode:' + ('error' if r is None else ('ascii' if is_ascii(t) else 'multibyte')))
    dec_c, dec_m = part('decode', 'bytes * option text', 'check_decode')
    rep_c, rep_m = part('repr', 'bytes * text', 'check_repr')
    bs = set(DATA_BYTES)
    alpha = [0x00, 0x27, 0x22, 0x41, 0x5c, 0x7f, 0x80, 0xbf, 0xc2, 0xe0, 0xed, 0xf0, 0xf4, 0xa0, 0x9f, 0x90, 0x8f, 0xc0, 0xf5, 0xff, 0x0a]
    for n in (1, 2):
        for tup in itertools.product(alpha, repeat=n):
            bs.add(bytes(tup))
    for _ in range(1500 if quick else 30000):
        n = rng.randrange(1, 7)
        bs.add(bytes(rng.choice([rng.randrange(256), rng.choice(alpha)]) for _ in range(n)))
    for b in sorted(bs):
        try:
            r = b.decode('utf-8')
        except UnicodeDecodeError:
            r = None
        dec_c.append('(%s, %s)' % (blist(b), otext(r)))
        dec_m.append(list(b))
        rep_c.append('(%s, %s)' % (blist(b), tlit(repr(b))))
        rep_m.append(list(b))
        chk.dist('decode:' + ('invalid' if r is None else 'valid'))
    num_c, num_m = part('dec', 'Z * bytes', 'check_dec')
    nums = set(list(range(-12, 130)) + [999, 1000, 1001, 65535, 65536, 2 ** 31 - 1, 2 ** 31, 2 ** 63 - 1, 2 ** 63, 10 ** 30, -10 ** 30])
    for _ in range(300 if quick else 3000):
        nums.add(rng.randrange(-10 ** rng.randrange(1, 25), 10 ** rng.randrange(1, 25)))
    for n in sorted(nums):
        num_c.append('(%s, %s)' % (zlit(n), blist(('%s' % n).encode('ascii'))))
        num_m.append(n)

    # ---------------- B. getEventNameByType and the class hierarchy
    name_c, name_m = part('names', 'evclass * option bytes * list Z', 'check_name')
    real_classes = [v for k, v in vars(events).items()
                    if isinstance(v, type) and v.__module__ == events.__name__ and k != 'EventTypes']
    real_by_name = dict((c.__name__, c) for c in real_classes)
    if sorted(real_by_name) != sorted(gen_names):
        chk.violation({'kind': 'classes of supervisor.events differ from the generated table',
                       'real': sorted(real_by_name), 'generated': sorted(gen_names)}, nofail=True)
    name_of = {}
    for n in gen_names:
        cls = real_by_name.get(n)
        if cls is None:
            continue
        en = events.getEventNameByType(cls)
        name_of[cls] = en
        anc = [i for i, a in enumerate(gen_names) if a in real_by_name and issubclass(cls, real_by_name[a])]
        name_c.append('(%s, %s, %s)' % (n, obytes(None if en is None else en.encode('utf-8')), zlist(anc)))
        name_m.append((n, en))
    # monitor: every concrete (leaf) Event class has a name that belongs to it alone
    leafs = [c for c in real_classes if issubclass(c, events.Event) and not [d for d in real_classes if d is not c and issubclass(d, c)]]
    et_items = [(k, v) for k, v in vars(events.EventTypes).items() if isinstance(v, type)]
    for c in leafs:
        mine = [k for k, v in et_items if v is c]
        en = events.getEventNameByType(c)
        if len(mine) != 1 or en != mine[0] or any(ch in en for ch in ' :\n') or \
                DOCUMENTED_NAMES.get(c.__name__, en) != en:
            chk.violation({'kind': 'concrete event class without exactly one clean EventTypes name',
                           'class': c.__name__, 'names': mine, 'getEventNameByType': en})

    # ---------------- C. payload() of every class
    pay_c, pay_m = part('payload', 'evclass * evargs * option text', 'check_payload')

    def add_payload(cls, args_term, ev, meta):
        pl = safe_payload(ev)
        pay_c.append('(%s, %s, %s)' % (cls_term(cls), args_term, otext(pl)))
        pay_m.append(meta)
        chk.dist('payload:' + cls.__name__)
        distinct.add(('payload', cls.__name__, None if pl is None else (is_ascii(pl), '\n' in pl, len(pl) > 40)))
        return pl

    names = NAMES_ASCII + NAMES_WILD
    groups = [None, 'g', u'grüp']
    log_classes = [events.ProcessLogEvent, events.ProcessLogStdoutEvent, events.ProcessLogStderrEvent]
    comm_classes = [events.ProcessCommunicationEvent, events.ProcessCommunicationStdoutEvent,
                    events.ProcessCommunicationStderrEvent]
    for cls in log_classes + comm_classes:
        ctor = 'ALog' if cls in log_classes else 'AComm'
        combos = []
        for d in DATA_BYTES + DATA_STR:
            combos.append(('proc', 'g', 42, d))
        for n in names:
            for g in groups:
                combos.append((n, g, rng.choice([0, 1, 42, 32768, 4194304]), rng.choice(DATA_BYTES + DATA_STR)))
        for _ in range(40 if quick else 600):
            ln = rng.randrange(0, 12)
            d = bytes(rng.choice([rng.randrange(256), rng.choice(b'ab\n :\xc3\xa9')]) for _ in range(ln))
            combos.append((rng.choice(names), rng.choice(groups), rng.randrange(0, 70000), d))
        for (n, g, pid, d) in combos:
            ev = cls(FakeProc(n, g, pid, 0), pid, d)
            pl = add_payload(cls, '(%s %s %s %s %s)' % (ctor, tlit(n), ogroup(g), zlit(pid), pdata_term(d)), ev,
                             (cls.__name__, n, g, pid, d if isinstance(d, str) else list(d)))
            if pl is None and cls in leafs:
                chk.violation({'kind': 'payload() of a concrete PROCESS_LOG/COMMUNICATION event raises on this data',
                               'class': cls.__name__, 'process': n, 'group': g, 'pid': pid,
                               'data': list(d) if isinstance(d, bytes) else d})
            # monitor: first line names process, group, pid (and channel); body carries the data
            if pl is not None and all(c not in (n + (g or '')) for c in ' :\n'):
                head, _, body = pl.partition('\n')
                want = 'processname:%s groupname:%s pid:%d' % (n, g or '', pid)
                if cls in log_classes:
                    want += ' channel:%s' % cls.channel
                good_body = True
                if isinstance(d, bytes):
                    try:
                        good_body = body == d.decode('utf-8')
                    except UnicodeDecodeError:
                        good_body = body == 'Undecodable: %r' % d
                if head != want or not good_body:
                    chk.violation({'kind': 'PROCESS_LOG/COMMUNICATION payload does not name process/group/pid/data',
                                   'class': cls.__name__, 'process': n, 'group': g, 'pid': pid,
                                   'data': repr(d), 'payload': pl})
    state_classes = [c for c in real_classes if issubclass(c, events.ProcessStateEvent)]
    codes = [v for k, v in vars(states.ProcessStates).items() if not k.startswith('__')]
    for cls in state_classes:
        combos = []
        for fs in codes + [7, -1]:
            for exp in (True, False):
                combos.append(('proc', 'g', fs, 4711, 3, exp))
        for n in names:
            for g in groups:
                combos.append((n, g, rng.choice(codes), rng.choice([0, 1, 99999]), rng.choice([0, 1, 17]), rng.random() < 0.5))
        for (n, g, fs, pid, bo, exp) in combos:
            proc = FakeProc(n, g, pid, bo)
            ev = cls(proc, fs, exp)
            # the process moves on before the payload is rendered
            proc.pid = 0
            proc.backoff = 0
            ev.expected = not exp
            term = '(snd (new_state_event %s %s %s %s %s %s %s))' % (cls_term(cls), tlit(n), ogroup(g), zlit(fs), zlit(bo), blit(exp), zlit(pid))
            pl = add_payload(cls, term, ev, (cls.__name__, n, g, fs, pid, bo, exp))
            if pl is not None and all(c not in (n + (g or '')) for c in ' :\n'):
                toks = [t.split(':', 1) for t in pl.split(' ')]
                want = [['processname', n], ['groupname', g or ''], ['from_state', str(states.getProcessStateDescription(fs))]]
                doc = {'ProcessStateStartingEvent': [['tries', bo]], 'ProcessStateBackoffEvent': [['tries', bo]],
                       'ProcessStateRunningEvent': [['pid', pid]], 'ProcessStateStoppingEvent': [['pid', pid]],
                       'ProcessStateStoppedEvent': [['pid', pid]],
                       'ProcessStateExitedEvent': [['expected', int(exp)], ['pid', pid]],
                       'ProcessStateFatalEvent': [], 'ProcessStateUnknownEvent': []}
                if cls.__name__ in doc:
                    want = want + [[k, str(v)] for k, v in doc[cls.__name__]]
                    if toks != want:
                        chk.violation({'kind': 'PROCESS_STATE payload does not carry the values at the moment of the change',
                                       'class': cls.__name__, 'process': n, 'group': g, 'from_state': fs,
                                       'pid_at_change': pid, 'backoff_at_change': bo, 'expected': exp, 'payload': pl})
    for (ty, d) in [('t', 'd'), (u'té', u'd€'), ('', ''), ('a b', 'x\ny'), (b'by', b'\xff'), ('t', b"q'"), (b'', 'z'),
                    ('ty', u'\U0001F600')] + [(rng.choice(names), rng.choice(DATA_STR + DATA_BYTES)) for _ in range(30)]:
        ev = events.RemoteCommunicationEvent(ty, d)
        add_payload(events.RemoteCommunicationEvent, '(ARemote %s %s)' % (rc_term(ty), rc_term(d)), ev,
                    ('RemoteCommunicationEvent', repr(ty), repr(d)))
    for cls in [events.SupervisorStateChangeEvent, events.SupervisorRunningEvent, events.SupervisorStoppingEvent,
                events.Event, events.EventRejectedEvent]:
        try:
            ev = cls() if cls is not events.EventRejectedEvent else cls(None, None)
        except Exception:
            continue
        add_payload(cls, 'ASupervisor', ev, (cls.__name__,))
    for cls in [events.ProcessGroupEvent, events.ProcessGroupAddedEvent, events.ProcessGroupRemovedEvent]:
        for n in names + ['g']:
            pl = add_payload(cls, '(AGroup %s)' % tlit(n), cls(n), (cls.__name__, n))
            if pl != 'groupname:%s\n' % n:
                chk.violation({'kind': 'PROCESS_GROUP payload does not name the group', 'class': cls.__name__,
                               'group': n, 'payload': pl})
    for cls in [events.TickEvent, events.Tick5Event, events.Tick60Event, events.Tick3600Event]:
        for w in [0, 5, 60, 3600, 1700000000, -5, 10 ** 12]:
            add_payload(cls, '(ATick %s)' % zlit(w), cls(w, None), (cls.__name__, w))
    # arguments of another family: the model must say "raises" exactly when the code does
    add_payload(events.Tick5Event, '(AGroup %s)' % tlit('g'), events.Event(), ('mismatch',))

    # ---------------- C2. PROCESS_LOG through the real output dispatcher: one notification per non-empty read
    for channel in ('stdout', 'stderr'):
        for enabled in (True, False):
            for grp in ('grp', None):
                reads = [rng.choice(DATA_BYTES) for _ in range(6)] + [b'', b'tail']
                res = I.run_log_events(reads, channel=channel, enabled=enabled, gname=grp)
                cname = 'ProcessLogStdoutEvent' if channel == 'stdout' else 'ProcessLogStderrEvent'
                chk.dist('log:%s:%s' % (channel, 'enabled' if enabled else 'disabled'))
                for r, evs in zip(reads, res):
                    want_n = 1 if (enabled and r) else 0
                    ok = len(evs) == want_n and all(cn == cname and d == r for cn, _pl, d in evs)
                    if not ok:
                        chk.violation({'kind': 'PROCESS_LOG notifications are not one-to-one with the output read from the process',
                                       'channel': channel, 'events_enabled': enabled, 'read': list(r),
                                       'notifications': [[cn, pl] for cn, pl, _ in evs]})
                    for cn, pl, d in evs:
                        pay_c.append('(%s, (ALog %s %s %s %s), %s)' % (cn, tlit('worker'), ogroup(grp), zlit(3131), pdata_term(d), otext(pl)))
                        pay_m.append((cn, 'worker', grp, 3131, list(d)))

    # ---------------- D. _eventEnvelope directly, E. pool dispatch, bytes on the listener's stdin
    env_c, env_m = part('envelope', 'text * text * evclass * Z * Z * text * text', 'check_envelope')
    dis_c, dis_m = part('dispatch', 'text * text * Z * Z * evclass * evargs * option bytes', 'check_dispatch')
    str_c, str_m = part('stream', 'bytes * option (list (list (bytes * bytes) * bytes))', 'check_stream')
    idents = [('supervisor', 'pool'), ('sup-1', 'listeners_2'), (u'süp', u'pöol'), ('a b', 'c:d'), ('', '')]
    maxint = process.maxint if hasattr(process, 'maxint') else sys.maxsize
    payload_texts = ['', 'x', 'processname:p groupname:g from_state:RUNNING pid:1', u'héllo', u'€' * 3,
                     'a\nb\n', u'\U0001F600', 'when:5', '100%', 'type:t\n%s', '%(ver)s %(len)s %(nokey)s', '%%']
    env_classes = [c for c in real_classes]
    for (sid, pn) in idents:
        pool, opts = I.make_pool(sid, pn)
        try:
            for cls in env_classes:
                for pl in ([rng.choice(payload_texts)] if quick and cls not in (events.RemoteCommunicationEvent, events.ProcessCommunicationStdoutEvent) else payload_texts):
                    serial = rng.choice([0, 1, 9, 10, 99, 12345, maxint - 1, maxint])
                    ps = rng.choice([0, 3, 100, maxint])
                    try:
                        r = pool._eventEnvelope(cls, serial, ps, pl)
                    except Exception as ex:
                        chk.violation({'kind': '_eventEnvelope raises %s on this payload' % type(ex).__name__, 'identifier': sid,
                                       'pool': pn, 'class': cls.__name__, 'serial': serial, 'pool_serial': ps, 'payload': pl})
                        continue
                    if r != 'ver:3.0 server:%s serial:%d pool:%s poolserial:%d eventname:%s len:%d\n%s' % (
                            sid, serial, pn, ps, name_of.get(cls), len(pl), pl):
                        chk.violation({'kind': 'envelope text is not header line + payload verbatim', 'identifier': sid, 'pool': pn,
                                       'class': cls.__name__, 'serial': serial, 'pool_serial': ps, 'payload': pl, 'envelope': r})
                    env_c.append('(%s, %s, %s, %s, %s, %s, %s)' % (tlit(sid), tlit(pn), cls_term(cls), zlit(serial), zlit(ps), tlit(pl), tlit(r)))
                    env_m.append((sid, pn, cls.__name__, serial, ps, pl))
                    chk.dist('envelope:' + ('ascii' if is_ascii(pl) else 'non-ascii'))
        finally:
            events.clear()

    def scenario_events():
        """(class, args term, constructor thunk) of one dispatch scenario."""
        out = []
        k = rng.randrange(2, 7)
        for _ in range(k):
            kind = rng.random()
            n = rng.choice(NAMES_ASCII + ([u'prôc'] if rng.random() < 0.2 else []))
            g = rng.choice([None, 'g', 'grp'])
            pid = rng.choice([1, 42, 31999])
            if kind < 0.3:
                cls = rng.choice(log_classes[1:] + comm_classes[1:])
                d = rng.choice(DATA_BYTES + DATA_STR) if rng.random() < 0.6 else bytes(rng.choice(b'abc \n:') for _ in range(rng.randrange(0, 9)))
                ctor = 'ALog' if cls in log_classes else 'AComm'
                out.append((cls, '(%s %s %s %s %s)' % (ctor, tlit(n), ogroup(g), zlit(pid), pdata_term(d)),
                            lambda cls=cls, n=n, g=g, pid=pid, d=d: cls(FakeProc(n, g, pid, 0), pid, d)))
            elif kind < 0.6:
                cls = rng.choice([c for c in state_classes if c in leafs])
                fs, bo, exp = rng.choice(codes), rng.choice([0, 2]), rng.random() < 0.5
                out.append((cls, '(snd (new_state_event %s %s %s %s %s %s %s))' % (cls.__name__, tlit(n), ogroup(g), zlit(fs), zlit(bo), blit(exp), zlit(pid)),
                            lambda cls=cls, n=n, g=g, pid=pid, fs=fs, bo=bo, exp=exp: cls(FakeProc(n, g, pid, bo), fs, exp)))
            elif kind < 0.7:
                ty, d = rng.choice(['t', 'type1']), rng.choice(DATA_STR + ['a b:c\nd'])
                out.append((events.RemoteCommunicationEvent, '(ARemote %s %s)' % (rc_term(ty), rc_term(d)),
                            lambda ty=ty, d=d: events.RemoteCommunicationEvent(ty, d)))
            elif kind < 0.8:
                cls = rng.choice([events.ProcessGroupAddedEvent, events.ProcessGroupRemovedEvent])
                gn = rng.choice(['g', 'grp', u'grüp'])
                out.append((cls, '(AGroup %s)' % tlit(gn), lambda cls=cls, gn=gn: cls(gn)))
            elif kind < 0.9:
                cls = rng.choice([events.Tick5Event, events.Tick60Event, events.Tick3600Event])
                w = rng.randrange(0, 2 * 10 ** 9)
                out.append((cls, '(ATick %s)' % zlit(w), lambda cls=cls, w=w: cls(w, None)))
            else:
                cls = rng.choice([events.SupervisorRunningEvent, events.SupervisorStoppingEvent])
                out.append((cls, 'ASupervisor', lambda cls=cls: cls()))
        return out

    # fixed scenarios first (every concrete class once, ASCII then non-ASCII), then random ones
    fixed = []
    for data in (b'hello', b'h\xc3\xa9llo', b'\xff\xfe'):
        fixed.append([(events.ProcessLogStdoutEvent, '(ALog %s (Some %s) 42 %s)' % (tlit('p'), tlit('g'), pdata_term(data)),
                       lambda data=data: events.ProcessLogStdoutEvent(FakeProc('p', 'g', 42, 0), 42, data)),
                      (events.ProcessCommunicationStderrEvent, '(AComm %s None 42 %s)' % (tlit('p'), pdata_term(data)),
                       lambda data=data: events.ProcessCommunicationStderrEvent(FakeProc('p', None, 42, 0), 42, data)),
                      (events.Tick5Event, '(ATick 5)', lambda: events.Tick5Event(5, None))])
    for data in (b'100%', b'%s %(ver)s', b'%'):
        fixed.append([(events.ProcessCommunicationStdoutEvent, '(AComm %s (Some %s) 42 %s)' % (tlit('p'), tlit('g'), pdata_term(data)),
                       lambda data=data: events.ProcessCommunicationStdoutEvent(FakeProc('p', 'g', 42, 0), 42, data)),
                      (events.RemoteCommunicationEvent, '(ARemote %s %s)' % (rc_term('t%'), rc_term(data.decode('ascii'))),
                       lambda data=data: events.RemoteCommunicationEvent('t%', data.decode('ascii'))),
                      (events.Tick5Event, '(ATick 5)', lambda: events.Tick5Event(5, None))])
    fixed.append([(events.RemoteCommunicationEvent, '(ARemote %s %s)' % (rc_term('t'), rc_term(u'\ud800')),
                   lambda: events.RemoteCommunicationEvent('t', u'\ud800')),
                  (events.SupervisorRunningEvent, 'ASupervisor', lambda: events.SupervisorRunningEvent())])
    nscen = 60 if quick else 1500
    scenarios = [((rng.choice(idents[:3]) if i % 4 else idents[0]), evs) for i, evs in
                 enumerate(fixed + [scenario_events() for _ in range(nscen)])]
    for (sid, pn), evs in scenarios:
        process.GlobalSerial.serial = rng.choice([-1, 8, 98, maxint - 2])
        pool, opts = I.make_pool(sid, pn)
        pool.serial = rng.choice([-1, 8, maxint - 1])
        stream = b''
        all_ascii_scn = True
        expect = []
        try:
            for cls, aterm, mk in evs:
                ev = mk()
                data, exc, serial, ps = I.pool_send(pool, opts, ev)
                dis_c.append('(%s, %s, %s, %s, %s, %s, %s)' % (tlit(sid), tlit(pn), zlit(serial), zlit(ps), cls_term(cls), aterm, obytes(data)))
                dis_m.append((sid, pn, cls.__name__, aterm[:300], exc))
                chk.dist('dispatch:' + cls.__name__)
                if data is None:
                    chk.dist('dispatch:raised:' + str(exc))
                    distinct.add(('dispatch-raised', exc))
                    if not (exc == 'UnicodeEncodeError' and '55296' in aterm):
                        # only a lone surrogate handed in from Python (never from XML-RPC) may do this
                        chk.violation({'kind': 'dispatching a notification raised %s out of EventListenerPool.dispatch' % exc,
                                       'identifier': sid, 'pool': pn, 'class': cls.__name__, 'event_args': aterm[:500]})
                    continue
                stream += data
                # ---- independent judgement of the bytes, as a byte-level listener sees them
                pl = safe_payload(ev)
                plb = pl.encode('utf-8')
                h = parse_header_bytes(data)
                clean_ids = all(c not in (sid + pn) for c in ' :\n')
                replay = {'identifier': sid, 'pool': pn, 'class': cls.__name__, 'event_args': aterm[:500],
                          'bytes_on_listener_stdin': list(data)}
                if h is None:
                    chk.violation(dict(replay, kind='envelope has no parsable header line'))
                    continue
                kvs, rest = h
                if clean_ids:
                    want = [(b'ver', b'3.0'), (b'server', sid.encode('utf-8')), (b'serial', b'%d' % serial),
                            (b'pool', pn.encode('utf-8')), (b'poolserial', b'%d' % ps),
                            (b'eventname', DOCUMENTED_NAMES.get(cls.__name__, str(name_of.get(cls))).encode('ascii')), (b'len', None)]
                    if [k for k, _ in kvs] != HEADER_KEYS or any(w[1] is not None and w != kv for w, kv in zip(want, kvs)):
                        chk.violation(dict(replay, kind='header is not exactly ver server serial pool poolserial eventname len with the right values',
                                           header=[[k.decode('latin-1'), v.decode('latin-1')] for k, v in kvs]))
                        continue
                    if rest != plb:
                        chk.violation(dict(replay, kind='bytes after the header line are not the payload'))
                        continue
                    n = parse_dec_bytes(dict(kvs)[b'len'])
                    expect.append((kvs, plb))
                    if n != len(rest):
                        if not is_ascii(pl) and n == len(pl):
                            known_len[0] += 1
                            all_ascii_scn = False
                            distinct.add(('len-mismatch', len(rest) - n))
                        else:
                            chk.violation(dict(replay, kind='len is not the number of payload bytes that follow',
                                               len=n, payload_bytes=len(rest)))
                    else:
                        distinct.add(('dispatch-ok', cls.__name__, len(rest) > 0))
                else:
                    all_ascii_scn = False
        finally:
            events.clear()
        parsed = listener_stream_bytes(stream)
        str_c.append(stream_term(stream, parsed))
        str_m.append((sid, pn, len(stream)))
        if all_ascii_scn and all(c not in (sid + pn) for c in ' :\n'):
            if parsed != expect:
                chk.violation({'kind': 'a byte-level listener reading len bytes per event loses synchronisation on an ASCII stream',
                               'identifier': sid, 'pool': pn, 'stream': list(stream)})
            chk.dist('stream:in-sync')
        else:
            chk.dist('stream:' + ('desynchronised' if parsed != expect else 'in-sync-despite-non-ascii'))
    if len(dis_c) > 3:
        samples.append({'dispatch': dis_m[0], 'coq_case': dis_c[0][:400]})

    # ---------------- F. ticks
    tick_c, tick_m = part('ticks', 'Z * list Z * list (list (evclass * Z))', 'check_ticks')
    tick_periods = [(c.__name__, c.period) for c in events.TICK_EVENTS]

    def add_ticks(U, rs, as_int=False, loop=False):
        if as_int and U == 1:
            readings = list(rs)
        else:
            readings = [float(r) / U for r in rs]
        # loop=True: the readings are what time.time() returns in successive passes of the real runforever
        out = I.run_loop_ticks(readings) if loop else I.run_ticks(readings)
        if loop:
            chk.dist('ticks:through-runforever')
        tick_c.append('(%s, %s, %s)' % (zlit(U), zlist(rs), coq_list(coq_list('(%s, %s)' % (cn, zlit(w)) for cn, w, _ in p) for p in out)))
        tick_m.append((U, list(rs)))
        # independent monitor: TICK_p at a pass <=> slice(floor seconds) differs from the previous pass
        prev = None
        for r, got in zip(rs, out):
            sec = r // U
            want = []
            if prev is not None:
                for cn, p in tick_periods:
                    if sec - sec % p != prev - prev % p:
                        want.append((cn, sec - sec % p, 'when:%d' % (sec - sec % p)))
            if [tuple(g) for g in got] != want:
                chk.violation({'kind': 'TICK events do not follow the slice changes of the clock', 'ticks_per_second': U,
                               'readings_in_ticks': list(rs), 'failing_reading': r, 'emitted': [list(g) for g in got], 'expected': [list(w) for w in want]})
                break
            prev = sec
        nem = sum(len(p) for p in out)
        distinct.add(('ticks', tuple(tuple(cn for cn, _, _ in p) for p in out)))
        chk.dist('ticks:len%d' % len(rs))
        chk.dist('ticks:%s' % ('none-emitted' if nem == 0 else 'emitted'))
        if any(b < a for a, b in zip(rs, rs[1:])):
            chk.dist('ticks:with-backward-jump')

    for obj in corpus_objs:
        if 'readings_in_ticks' in obj:
            add_ticks(int(obj.get('ticks_per_second', 1)), [int(r) for r in obj['readings_in_ticks']])
            chk.dist('corpus:ticks')
    bases = [0, 3, 4, 58, 59, 3598, 3599, 7195, -3, 1700000000 - 1700000000 % 3600 - 2]
    deltas = [-3601, -61, -6, -1, 0, 1, 5, 61, 3601] if quick else [-7200, -3601, -3600, -61, -60, -6, -5, -1, 0, 1, 4, 5, 6, 55, 60, 61, 3600, 3601, 7201]
    depth = 3
    n_exh = 0
    for b in bases:
        for ds in itertools.product(deltas, repeat=depth):
            rs = [b]
            for d in ds:
                rs.append(rs[-1] + d)
            add_ticks(1, rs, as_int=(n_exh % 2 == 0))
            n_exh += 1
    for _ in range(300 if quick else 6000):
        U = rng.choice([1, 2, 2, 1024])
        base = rng.choice(bases + [rng.randrange(0, 2 * 10 ** 9)]) * U
        rs = [base + rng.randrange(0, U)]
        for _ in range(rng.randrange(1, 12)):
            k = rng.random()
            if k < 0.5:
                d = rng.randrange(0, 3 * U + 1)
            elif k < 0.7:
                d = rng.choice([4, 5, 6, 59, 60, 61, 3599, 3600, 3601, 86400]) * U + rng.randrange(-U, U + 1)
            elif k < 0.9:
                d = -rng.choice([1, 5, 6, 60, 61, 3600, 3601, 100000]) * U + rng.randrange(-U, U + 1)
            else:
                d = rng.randrange(-10 ** 6, 10 ** 6)
            rs.append(rs[-1] + d)
        add_ticks(U, rs)

    for b in bases[:6]:
        for ds in itertools.product([-61, 0, 1, 5, 61, 3601], repeat=2):
            add_ticks(1, [b, b + ds[0], b + ds[0] + ds[1]], loop=True)
    for _ in range(40 if quick else 600):
        U = rng.choice([1, 2])
        rs = [rng.randrange(0, 8000) * U]
        for _ in range(rng.randrange(1, 8)):
            rs.append(rs[-1] + rng.choice([0, 1, U, 5 * U, 61 * U, -7 * U, 3600 * U, -3601 * U]))
        add_ticks(U, rs, loop=True)

    # ---------------- G. change_state / finish on real Subprocess objects
    proc_c, proc_m = part('proc', 'proc * pstep * (bool * Z * Z * Z) * list (evclass * option text)', 'check_proc')

    def too_quickly(state, laststart, startsecs, now):
        # finish(): after _check_and_adjust_for_system_clock_rollback(now)
        if state == states.ProcessStates.STARTING and now < laststart:
            laststart = now
        elif state == states.ProcessStates.RUNNING and laststart < now < laststart + startsecs:
            laststart = now - startsecs
        return (now - laststart < startsecs) if now > laststart else False

    def proc_term(p, name, group):
        return '(mkProc %s %s %s %s %s 0 %s None)' % (tlit(name), ogroup(group), zlit(p.state), zlit(p.pid), zlit(p.backoff), blit(p.killing))

    def do_step(p, name, group, step, cfg):
        before = proc_term(p, name, group)
        snap = (p.state, p.pid, p.backoff)
        if step[0] == 'finish':
            _, sts, now = step
            es = decode_wait_status(sts)[0]
            tq = too_quickly(p.state, p.laststart, cfg['startsecs'], now)
            ee = es in cfg['exitcodes']
            sterm = '(PFinish %s %s %s %s)' % (zlit(es), blit(tq), blit(ee), zlit(int(now)))
        elif step[0] == 'change':
            sterm = '(PChange %s %s %s)' % (zlit(step[1]), blit(step[2]), zlit(int(step[3])))
        elif step[0] == 'setpid':
            sterm = '(PSetPid %s)' % zlit(step[1])
        else:
            sterm = '(PSetBackoff %s)' % zlit(step[1])
        raised, evs = I.run_proc_step(p, step)
        rendered = I.render_events(evs)     # read after the step: finish() has cleared pid by now
        proc_c.append('(%s, %s, (%s, %s, %s, %s), %s)' % (before, sterm, blit(raised), zlit(p.state), zlit(p.pid), zlit(p.backoff), rendered_term(rendered)))
        proc_m.append({'before': {'state': snap[0], 'pid': snap[1], 'backoff': snap[2], 'killing': None}, 'step': list(step), 'cfg': cfg,
                       'events': rendered})
        chk.dist('proc:' + step[0])
        distinct.add(('proc', step[0], snap[0], p.state, raised, tuple(c for c, _ in rendered)))
        # monitor: one notification per state change, with the values that held at the change
        if all(c not in (name + (group or '')) for c in ' :\n'):
            _judge_proc(chk, snap, step, p, rendered, name, group, raised, cfg)
        return raised

    PS = states.ProcessStates
    for st in codes:
        for new in codes:
            for pid in (0, 77):
                for bo in (0, 3):
                    for exp in (True, False):
                        p = I.make_subprocess('p', 'g', st, pid, bo, False, 100.0, 1, (0,))
                        do_step(p, 'p', 'g', ('change', new, exp, 200.0), {'startsecs': 1, 'exitcodes': [0]})
    for st in codes:
        for killing in (False, True):
            for (laststart, startsecs, now) in [(100.0, 10, 101.0), (100.0, 1, 200.0), (100.0, 0, 100.0), (300.0, 5, 200.0)]:
                for sts in (0, 256, 9, 512):
                    for exitcodes in ((0,), (0, 2)):
                        for grp in ('g', None):
                            p = I.make_subprocess('p', grp, st, 4711, 2, killing, laststart, startsecs, exitcodes)
                            do_step(p, 'p', grp, ('finish', sts, now), {'startsecs': startsecs, 'exitcodes': list(exitcodes)})
    # exit statuses 128..255 and signal deaths (with and without the core flag) x exitcodes lists
    wt_c, wt_m = part('wait', 'Z * list Z * Z * bool', 'check_wait')
    HIGH = [128 << 8, 130 << 8, 143 << 8, 255 << 8, 2 << 8, 127 << 8, 9, 15, 9 | 0x80, 15 | 0x80]
    CODELISTS = [(0, 2), (0, 130), (143,), (255, 2), (127,), (0,), ()]
    for sts in HIGH:
        for exitcodes in CODELISTS:
            r_es = _real_decode_wait_status(sts)[0]
            wt_c.append('(%s, %s, %s, %s)' % (zlit(sts), zlist(list(exitcodes)), zlit(r_es), blit(r_es in exitcodes)))
            wt_m.append((sts, list(exitcodes)))
            if r_es != true_exit_status(sts):
                chk.violation({'kind': 'decode_wait_status does not return the exit status of the child', 'wait_status': sts,
                               'returned': r_es, 'true_exit_status': true_exit_status(sts)})
            for st in (PS.RUNNING, PS.STARTING):
                p = I.make_subprocess('p', 'g', st, 4711, 0, False, 100.0, 1, exitcodes)
                do_step(p, 'p', 'g', ('finish', sts, 200.0), {'startsecs': 1, 'exitcodes': list(exitcodes)})
    for _ in range(150 if quick else 4000):
        name = rng.choice(NAMES_ASCII + [u'prôc'])
        grp = rng.choice(['g', None, u'grüp'])
        cfg = {'startsecs': rng.choice([0, 1, 10]), 'exitcodes': rng.choice([[0], [0, 2], []])}
        p = I.make_subprocess(name, grp, rng.choice(codes), rng.choice([0, 100]), rng.choice([0, 1]), False, 100.0, cfg['startsecs'], cfg['exitcodes'])
        now = 100.0
        for _ in range(rng.randrange(2, 9)):
            now += rng.choice([0, 1, 1, 5, 20])
            k = rng.random()
            if k < 0.45:
                step = ('change', rng.choice(codes), rng.random() < 0.5, now)
            elif k < 0.6:
                step = ('setpid', rng.choice([0, 1, 4242, 31999]))
                if step[1]:
                    p.laststart = now
            elif k < 0.7:
                step = ('setbackoff', rng.choice([0, 1, 9]))
            else:
                if rng.random() < 0.4:
                    p.killing = True
                step = ('finish', rng.choice([0, 256, 512, 9, 15, 130 << 8, 255 << 8, 15 | 0x80]), now)
            do_step(p, name, grp, step, cfg)

    # ---------------- H. group and daemon-state notifications of the real Supervisor
    sup_c, sup_m = part('sup', 'list sop * list (sres * list (evclass * option text))', 'check_sup')

    def sop_term(op):
        if op[0] == 'add':
            return '(OAdd %s)' % tlit(op[1])
        if op[0] == 'remove':
            return '(ORemove %s %s)' % (tlit(op[1]), blit(op[2]))
        if op[0] == 'runforever':
            return 'ORunforever'
        if op[0] == 'add_raises':
            return '(OAddRaises %s)' % tlit(op[1])
        if op[0] == 'remove_raises':
            return '(ORemoveRaises %s)' % tlit(op[1])
        return '(OPass %s)' % zlit(op[1])

    def res_term(r):
        return {True: 'RTrue', False: 'RFalse', None: 'RNone', 'KeyError': 'RKeyError', 'Exception': 'RException'}[r]

    def add_sup(ops):
        out, stray = I.run_sup_ops(ops)
        if stray:
            chk.violation({'kind': 'group / daemon-state notification raised although nothing changed (in a pass after the '
                                   'last scripted operation, or outside any operation)',
                           'script': [list(o) for o in ops], 'stray_notifications': stray})
        ops = ops[:len(out)]
        sup_c.append('(%s, %s)' % (coq_list(sop_term(o) for o in ops),
                                   coq_list('(%s, %s)' % (res_term(r), rendered_term(evs)) for r, evs in out)))
        sup_m.append([list(o) for o in ops])
        chk.dist('sup:len%d' % len(ops))
        distinct.add(('sup', tuple((r, tuple(c for c, _ in evs)) for r, evs in out)))
        _judge_sup(chk, ops, out)

    for obj in corpus_objs:
        if 'script' in obj:
            add_sup([tuple(o) for o in obj['script']])
            chk.dist('corpus:sup')
    direct = [('add', 'a'), ('add', 'b'), ('remove', 'a', False), ('remove', 'a', True), ('remove', 'b', False),
              ('add_raises', 'a'), ('remove_raises', 'a')]
    for n in range(0, 4 if quick else 5):
        for ops in itertools.product(direct, repeat=n):
            add_sup(list(ops))
    inloop = [('pass', 1), ('pass', 0), ('pass', -1), ('pass', 2), ('add', 'a'), ('remove', 'a', False), ('remove', 'a', True),
              ('add_raises', 'a')]
    for pre in ([], [('add', 'a')], [('add', 'a'), ('add', 'b')]):
        for n in range(0, 4 if quick else 5):
            for ops in itertools.product(inloop, repeat=n):
                if ops and ops[0][0] != 'pass':
                    continue
                add_sup(pre + [('runforever',)] + list(ops))
    for _ in range(100 if quick else 3000):
        gnames = ['a', 'b', u'grüp', 'with space']
        ops = [rng.choice([('add', rng.choice(gnames)), ('remove', rng.choice(gnames), rng.random() < 0.5)]) for _ in range(rng.randrange(0, 4))]
        ops.append(('runforever',))
        for _ in range(rng.randrange(0, 7)):
            ops.append(('pass', rng.choice([1, 1, 1, 0, -1, 2])))
            for _ in range(rng.randrange(0, 3)):
                ops.append(rng.choice([('add', rng.choice(gnames)), ('remove', rng.choice(gnames), rng.random() < 0.5),
                                       ('add_raises', rng.choice(gnames)), ('remove_raises', rng.choice(gnames))]))
        add_sup(ops)

    # ---------------- I. sendRemoteCommEvent through the real XML-RPC handler
    rem_c, rem_m = part('remote', 'rc_arg * rc_arg * list (evclass * option text)', 'check_remote')
    from supervisor import rpcinterface
    from rpcstack import RpcStack

    class _Sup(object):
        options = I.FakeOptions()
        process_groups = {}
    iface = rpcinterface.SupervisorNamespaceRPCInterface(_Sup())
    stack = RpcStack(_Sup(), [('supervisor', iface)])
    for (ty, d) in [('t', 'd'), (u'té', u'd€\U0001F600'), ('', ''), ('type with space', 'a\nb'), ('x', '<&>')] + \
            [(rng.choice(NAMES_ASCII + NAMES_WILD), rng.choice(DATA_STR)) for _ in range(20)]:
        for via in ('xml', 'direct'):
            with I.capture_events(events.Event) as got:
                res = stack.call('supervisor.sendRemoteCommEvent', (ty, d)) if via == 'xml' else stack.direct('supervisor.sendRemoteCommEvent', (ty, d))
            rend = I.render_events(got)
            if via == 'xml' and ('\r' in ty + d):
                continue
            rem_c.append('(%s, %s, %s)' % (rc_term(ty), rc_term(d), rendered_term(rend)))
            rem_m.append((via, ty, d, repr(res)))
            chk.dist('remote:' + via)
            if res != ('value', True) or rend != [('RemoteCommunicationEvent', 'type:%s\n%s' % (ty, d))]:
                chk.violation({'kind': 'sendRemoteCommEvent did not raise exactly one REMOTE_COMMUNICATION notification carrying type and data',
                               'via': via, 'type': ty, 'data': d, 'answer': repr(res), 'notifications': rend})
    # a lone surrogate cannot arrive through XML (character references to surrogates are not well-formed)
    raw = ("<?xml version='1.0'?><methodCall><methodName>supervisor.sendRemoteCommEvent</methodName><params>"
           "<param><value><string>t</string></value></param><param><value><string>&#xD800;</string></value></param>"
           "</params></methodCall>")
    with I.capture_events(events.Event) as got:
        res = stack.call('supervisor.sendRemoteCommEvent', raw_xml=raw)
    chk.note('XML-RPC request carrying a surrogate character reference: answer %r, notifications %d' % (res, len(got)))
    if got:
        chk.violation({'kind': 'a lone surrogate reached a notification through XML-RPC; dispatching it raises UnicodeEncodeError in the main loop',
                       'raw_xml': raw, 'answer': repr(res)})

    # ---------------- J. routing: pools subscribed to several types (every ordering of type / supertype / duplicates)
    rt_c, rt_m = part('routing', 'list evclass * evclass * Z', 'check_routing')
    sb_c, sb_m = part('subscription', 'list evclass * list Z', 'check_subscription')
    FAMILIES = [
        ['PROCESS_STATE', 'PROCESS_STATE_RUNNING', 'PROCESS_STATE_EXITED', 'PROCESS_STATE_STARTING'],
        ['TICK', 'TICK_5', 'TICK_60'],
        ['PROCESS_LOG', 'PROCESS_LOG_STDOUT', 'PROCESS_LOG_STDERR'],
        ['PROCESS_COMMUNICATION', 'PROCESS_COMMUNICATION_STDOUT', 'PROCESS_COMMUNICATION_STDERR'],
        ['PROCESS_GROUP', 'PROCESS_GROUP_ADDED', 'PROCESS_GROUP_REMOVED'],
        ['SUPERVISOR_STATE_CHANGE', 'SUPERVISOR_STATE_CHANGE_RUNNING', 'SUPERVISOR_STATE_CHANGE_STOPPING'],
    ]
    all_type_names = [k for k, v in et_items]
    pool_lists = []
    for fam in FAMILIES:
        alpha = fam + ['EVENT']
        for n in (1, 2, 3):
            for tup in itertools.product(alpha, repeat=n):
                pool_lists.append(list(tup))
    for _ in range(60 if quick else 1500):
        pool_lists.append([rng.choice(all_type_names) for _ in range(rng.randrange(1, 6))])
    n_pool_lists_exh = len(pool_lists) - (60 if quick else 1500)
    PSC = states.ProcessStates
    emissions = [('state', PSC.STARTING), ('state', PSC.RUNNING), ('state', PSC.EXITED), ('state', PSC.EXITED),
                 ('tick', 3.0), ('tick', 61.0), ('log', 'stdout', b'out'), ('log', 'stderr', b'err'),
                 ('comm', 'stdout', b'c1'), ('comm', 'stderr', b'c2'), ('group_add', 'ga'), ('group_add', 'ga'),
                 ('group_remove', 'ga'), ('running',), ('stopping',), ('remote', 't', 'd'), ('tick', 3700.0),
                 ('state', PSC.STARTING), ('state', PSC.BACKOFF)]
    seen_rt = set()
    BATCH = 10
    for b0 in range(0, len(pool_lists), BATCH):
        batch = pool_lists[b0:b0 + BATCH]
        specs = [('pool%d' % i, types) for i, types in enumerate(batch)]
        ems = emissions if (b0 // BATCH) % 3 == 0 or quick else [rng.choice(emissions) for _ in range(12)]
        emitted, streams = I.run_routing(specs, ems)
        for (pname, types) in specs:
            stream = streams[pname]
            real_types = [getattr(events.EventTypes, t) for t in types]
            parsed = listener_stream_bytes(stream)
            want = [(DOCUMENTED_NAMES.get(cn, str(name_of.get(real_by_name[cn]))), pl)
                    for cn, pl, _ in emitted if any(issubclass(real_by_name[cn], t) for t in real_types)]
            got = None if parsed is None else [(dict(kvs).get(b'eventname', b'').decode('latin-1'), p.decode('utf-8', 'replace'))
                                               for kvs, p in parsed]
            serials = [] if parsed is None else [dict(kvs).get(b'serial') for kvs, _ in parsed]
            chk.dist('routing:pool_events_len%d' % len(types))
            distinct.add(('routing', len(want), len(set(types)) < len(types)))
            if got != want or len(set(serials)) != len(serials):
                chk.violation({'kind': 'a pool\'s listener did not receive exactly one envelope per emitted event it subscribes to '
                                       '(and none for the others)',
                               'pool_events': types, 'emissions': [_jsonable(list(e)) for e in ems],
                               'emitted': [[cn, pl] for cn, pl, _ in emitted],
                               'envelopes_received': got, 'serials_received': [x.decode('latin-1') if x else x for x in serials],
                               'expected': want})
            # model: number of envelopes per event, counted at byte level by serial
            pe_term = coq_list(cls_term(t) for t in real_types)
            for cn, pl, serial in emitted:
                cnt = 0 if serial is None else len([x for x in serials if x == b'%d' % serial])
                key = (tuple(types), cn, cnt)
                if key in seen_rt:
                    continue
                seen_rt.add(key)
                rt_c.append('(%s, %s, %s)' % (pe_term, cn, zlit(cnt)))
                rt_m.append({'pool_events': types, 'event_class': cn, 'envelopes_on_listener_stdin': cnt})
        # the subscription itself, of real pools
        for types in batch:
            real_types = [getattr(events.EventTypes, t) for t in types]
            pool, _o = I.make_pool('supervisor', 'p', pool_events=real_types)
            try:
                st = pool._subscription_types()
            finally:
                events.clear()
            sb_c.append('(%s, %s)' % (coq_list(cls_term(t) for t in real_types), zlist([gen_names.index(t.__name__) for t in st])))
            sb_m.append(types)
    chk.note('routing: %d exhaustive pool_events lists (every list of length 1-3 over each family + EVENT), %d random' %
             (n_pool_lists_exh, len(pool_lists) - n_pool_lists_exh))

    # ---------------- K. pools removed and added again at run time
    wd_c, wd_m = part('world', 'list wop * evclass * Z * Z', 'check_world')
    MENU = [['PROCESS_STATE'], ['PROCESS_STATE', 'TICK'], ['PROCESS_STATE_RUNNING', 'PROCESS_STATE'], ['EVENT'],
            ['TICK_5', 'TICK'], ['PROCESS_GROUP', 'PROCESS_LOG'], ['PROCESS_STATE_STARTING', 'TICK_60', 'PROCESS_STATE_STARTING'],
            ['PROCESS_COMMUNICATION', 'SUPERVISOR_STATE_CHANGE', 'REMOTE_COMMUNICATION']]
    cycle = [PSC.STARTING, PSC.RUNNING, PSC.EXITED, PSC.STARTING, PSC.BACKOFF, PSC.FATAL, PSC.STOPPED]

    def block(i):
        """Emissions after the i-th pool operation: a real state change, a tick that crosses
        5 s and 60 s slices, one event of another family."""
        extra = [('log', 'stdout', b'o%d' % i), ('comm', 'stderr', b'c%d' % i), ('stopping',), ('remote', 't', 'd%d' % i),
                 ('log', 'stderr', b'e%d' % i), ('running',)][i % 6]
        return [('state', cycle[i % len(cycle)]), ('tick', 1000.0 + 61.0 * (i + 1)), extra]

    def history_from(pool_ops):
        ops = [('tick', 1000.0)]
        for i, po in enumerate(pool_ops):
            ops.append(po)
            ops.extend(block(i))
        return ops

    histories = []
    for ta in MENU:
        for tb in MENU:
            histories.append(history_from([('add_pool', 'A', ta), ('add_pool', 'B', tb), ('remove_pool', 'A'),
                                           ('add_pool', 'A', ta), ('remove_pool_refused', 'B'), ('remove_pool', 'B'),
                                           ('remove_pool_refused', 'A'), ('remove_pool', 'A')]))
    n_hist_exh = len(histories)
    for _ in range(40 if quick else 1200):
        alive = {}
        pool_ops = []
        for _ in range(rng.randrange(3, 9)):
            nm = rng.choice('ABC')
            if nm in alive and rng.random() < 0.25:
                pool_ops.append(('remove_pool_refused', nm))     # listener still running: refused, nothing changes
            elif nm in alive and rng.random() < 0.6:
                pool_ops.append(('remove_pool', nm))
                del alive[nm]
            elif rng.random() < 0.1:
                pool_ops.append(('remove_pool', nm))     # possibly absent: KeyError, nothing changes
                alive.pop(nm, None)
            else:
                ty = rng.choice(MENU + [[rng.choice(all_type_names) for _ in range(rng.randrange(1, 4))]])
                pool_ops.append(('add_pool', nm, ty))    # possibly present already: refused, nothing changes
                alive.setdefault(nm, ty)
        histories.append(history_from(pool_ops))
    name_id = {'A': 1, 'B': 2, 'C': 3}
    seen_w = set()
    for ops in histories:
        emitted, incs, results = I.run_pool_history(ops)
        chk.dist('world:pool_ops%d' % len([o for o in ops if o[0] in ('add_pool', 'remove_pool', 'remove_pool_refused')]))
        parsed_by_inc = []
        bad = None
        for i, inc in enumerate(incs):
            real_types = [real_by_name[t] for t in inc['types']]
            parsed = listener_stream_bytes(inc['stream'])
            want = [(DOCUMENTED_NAMES.get(cn, str(name_of.get(real_by_name[cn]))), pl)
                    for cn, pl, _, alive, _oi in emitted
                    if i in alive and any(issubclass(real_by_name[cn], t) for t in real_types)]
            got = None if parsed is None else [(dict(kvs).get(b'eventname', b'').decode('latin-1'), p.decode('utf-8', 'replace'))
                                               for kvs, p in parsed]
            serials = [] if parsed is None else [dict(kvs).get(b'serial') for kvs, _ in parsed]
            parsed_by_inc.append(serials)
            if (got != want or len(set(serials)) != len(serials)) and bad is None:
                bad = {'pool': inc['name'], 'incarnation': i, 'pool_events': [t for t in inc['types']],
                       'envelopes_received': got, 'expected': want,
                       'serials_received': [x.decode('latin-1') if x else x for x in serials]}
        distinct.add(('world', tuple(results), len(emitted)))
        if 'ValueError' in results:
            bad = bad or {'raised': 'ValueError out of remove_process_group'}
        if bad is not None:
            chk.violation(dict(bad, kind='after pools were removed / added at run time, a subscribed pool did not receive exactly one '
                                         'envelope per matching event, or a removed pool still received one',
                               history=[_jsonable(list(o)) for o in ops], results=[str(r) for r in results],
                               emitted=[[cn, pl] for cn, pl, _, _, _ in emitted]))
        # model: envelopes per (event, pool name) after the pool operations performed so far
        for cn, pl, serial, alive, oi in emitted:
            prefix = [o for o in ops[:oi + 1] if o[0] in ('add_pool', 'remove_pool', 'remove_pool_refused')]
            wterm = coq_list(('(WAdd %d %s)' % (name_id[o[1]], coq_list(cls_term(getattr(events.EventTypes, t)) for t in o[2])))
                             if o[0] == 'add_pool' else ('(WRemove %d)' if o[0] == 'remove_pool' else '(WRemoveRefused %d)') % name_id[o[1]]
                             for o in prefix)
            for nm, pid_ in name_id.items():
                # envelopes on the stdin of every incarnation of that name (removed ones must stay silent)
                cnt = 0
                if serial is not None:
                    for i, inc in enumerate(incs):
                        if inc['name'] == nm:
                            cnt += len([x for x in parsed_by_inc[i] if x == b'%d' % serial])
                key = (wterm, cn, pid_, cnt)
                if key in seen_w:
                    continue
                seen_w.add(key)
                wd_c.append('(%s, %s, %d, %s)' % (wterm, cn, pid_, zlit(cnt)))
                wd_m.append({'pool_ops': [_jsonable(list(o)) for o in prefix], 'event_class': cn, 'pool': nm, 'envelopes': cnt})
    chk.note('world: %d structured histories (every pair of %d subscription menus; add A, add B, remove A, add A, remove B, remove A '
             'with a state change, a tick and one more event after each), %d random three-pool histories' %
             (n_hist_exh, len(MENU), len(histories) - n_hist_exh))

    # ---------------- L. listeners that reject: a rejected event is rebuffered in the pool that owns the listener only
    rj_c, rj_m = part('reject', 'list (Z * list evclass) * list rop * list (Z * list Z)', 'check_reject')
    RMENU = [['PROCESS_STATE'], ['EVENT'], ['PROCESS_STATE_RUNNING', 'TICK'], ['PROCESS_STATE', 'PROCESS_LOG'], ['TICK_5']]
    REMITS = [('state', PSC.STARTING), ('state', PSC.RUNNING), ('tick', 2000.0), ('tick', 2061.0), ('log', 'stdout', b'x'),
              ('state', PSC.EXITED), ('remote', 't', 'd'), ('state', PSC.STARTING), ('tick', 2200.0)]
    em_class = {}

    def run_reject(specs, answers, nrounds):
        # a protocol-conforming script and, from plain bookkeeping, what each listener must be sent
        ops, rops, st, ids = reject_case_impl(specs, answers, nrounds)
        emitted, streams, left = I.run_reject_history(specs, ops)
        # fill the emission slots of the Coq script: one REmit per event raised, with its serial (or -1)
        flat = [x for grp in st['__em__'] for x in grp]
        per_emit_op = st['__per_op__']
        k = 0
        rterms = []
        for t in rops:
            if t is None:
                n = per_emit_op.pop(0)
                for cn, sid_ in flat[k:k + n]:
                    rterms.append('(REmit %s %s)' % (cn, zlit(-1 if sid_ is None else sid_)))
                k += n
            else:
                rterms.append(t)
        got = {}
        bad = None
        for nm, ty, prio in specs:
            parsed = listener_stream_bytes(streams[nm])
            serials = None if parsed is None else [parse_dec_bytes(dict(kvs).get(b'serial', b'')) for kvs, _ in parsed]
            got[nm] = serials
            if serials != st[nm]['sent'] or left[nm] != st[nm]['buf']:
                bad = bad or {'pool': nm, 'serials_received': serials, 'expected': st[nm]['sent'],
                              'left_in_buffer': left[nm], 'expected_in_buffer': st[nm]['buf']}
        chk.dist('reject:pools%d' % len(specs))
        distinct.add(('reject', tuple(tuple(st[nm]['sent']) for nm, _, _ in specs)))
        if bad is not None:
            chk.violation(dict(bad, kind='with several pools, a listener\'s rejection (RESULT 4 FAIL) changed what ANOTHER pool\'s listener '
                                         'is sent, or a pool did not redeliver its own rejected event exactly once',
                               pools=[[nm, ty, prio] for nm, ty, prio in specs], script=[_jsonable(list(o)) for o in ops],
                               emitted=[[cn, pl, sr] for cn, pl, sr in emitted]))
        rj_c.append('(%s, %s, %s)' % (
            coq_list('(%d, %s)' % (ids[nm], coq_list(cls_term(getattr(events.EventTypes, t)) for t in ty)) for nm, ty, _ in specs),
            coq_list(rterms),
            coq_list('(%d, %s)' % (ids[nm], zlist(got[nm] or [])) for nm, _, _ in specs)))
        rj_m.append({'pools': [[nm, ty, prio] for nm, ty, prio in specs], 'script': [_jsonable(list(o)) for o in ops]})

    def reject_case_impl(specs, answers, nrounds):
        ids = dict((nm, i + 1) for i, (nm, _, _) in enumerate(specs))
        real_types = dict((nm, [getattr(events.EventTypes, t) for t in ty]) for nm, ty, _ in specs)
        st = dict((nm, {'buf': [], 'busy': None, 'ready': False, 'sent': []}) for nm, _, _ in specs)
        st['__em__'] = []
        st['__per_op__'] = []
        ops, rops = [], []
        serial = [0]
        pools_ = [nm for nm, _, _ in specs]

        def ready(nm):
            ops.append(('ready', nm))
            st[nm]['ready'] = True
            rops.append('(RReady %d)' % ids[nm])

        def dispatch():
            ops.append(('dispatch',))
            for nm in pools_:
                q = st[nm]
                if q['ready'] and q['buf']:
                    h = q['buf'].pop(0)
                    q['sent'].append(h)
                    q['busy'] = h
                    q['ready'] = False
            rops.append('RDispatch')

        def answer(nm, ok):
            ops.append(('answer', nm, ok))
            q = st[nm]
            h = q['busy']
            q['busy'] = None
            if not ok:
                q['buf'].insert(0, h)
            rops.append('(RAnswer %d %s)' % (ids[nm], blit(ok)))

        def emit(em):
            ops.append(('emit', em))
            rops.append(None)
            key = tuple(op[1] for op in ops if op[0] == 'emit')
            if key not in em_class:
                e_, _s, _l = I.run_reject_history([], [o for o in ops if o[0] == 'emit'])
                em_class[key] = [cn for cn, _, _ in e_]
            raised = em_class[key]
            done = sum(len(g) for g in st['__em__'])
            grp = []
            for cn in raised[done:]:
                cls = real_by_name[cn]
                subs = [nm for nm in pools_ if any(issubclass(cls, t) for t in real_types[nm])]
                sid_ = None
                if subs:
                    sid_ = serial[0]
                    serial[0] += 1
                    for nm in subs:
                        st[nm]['buf'].append(sid_)
                grp.append((cn, sid_))
            st['__em__'].append(grp)
            st['__per_op__'].append(len(grp))

        for nm in pools_:
            ready(nm)
        ei = 0
        for r in range(nrounds):
            for _ in range(1 if r % 2 == 0 else 2):
                emit(REMITS[ei % len(REMITS)])
                ei += 1
            dispatch()
            for nm in pools_:
                if st[nm]['busy'] is not None:
                    answer(nm, answers(r, nm))
                    ready(nm)
        for _ in range(4):
            dispatch()
            for nm in pools_:
                if st[nm]['busy'] is not None:
                    answer(nm, True)
                    ready(nm)
        return ops, rops, st, ids

    n_rej = 0
    for ta in RMENU:
        for tb in RMENU[:3]:
            for prios in ((999, 999), (999, 5)):
                for combo in itertools.product([True, False], repeat=4):
                    if quick and prios == (999, 5) and combo.count(False) != 1:
                        continue
                    amap = {(0, 'A'): combo[0], (0, 'B'): combo[1], (1, 'A'): combo[2], (1, 'B'): combo[3]}
                    run_reject([('A', ta, prios[0]), ('B', tb, prios[1])], lambda r, nm: amap.get((r, nm), True), 3)
                    n_rej += 1
    for _ in range(30 if quick else 800):
        specs3 = [(nm, rng.choice(RMENU), rng.choice([999, 999, 1])) for nm in 'ABC'[:rng.choice([2, 3])]]
        table = {}
        run_reject(specs3, lambda r, nm: table.setdefault((r, nm), rng.random() < 0.55), rng.randrange(2, 6))
        n_rej += 1
    chk.note('reject: %d histories with 2-3 pools whose listeners have equal (and different) priorities, every OK/FAIL combination '
             'over two rounds for 2 pools' % n_rej)

    # ---------------- M. PROCESS_COMMUNICATION data through the real capture buffer (BoundIO) and output dispatcher
    bd_c, bd_m = part('bound', 'Z * list bytes * bytes', 'check_bound')
    cp_c, cp_m = part('capture', 'Z * list bytes * (text * text * Z * Z * evclass * text * option text * Z) * option bytes',
                      'check_capture')
    from supervisor import loggers as _loggers
    BEGIN, END = events.ProcessCommunicationEvent.BEGIN_TOKEN, events.ProcessCommunicationEvent.END_TOKEN

    def body(n, salt):
        return bytes(97 + (i * 7 + salt) % 26 for i in range(n))

    def splits(data, k):
        """k near-equal reads"""
        n = len(data)
        cuts = [n * i // k for i in range(k + 1)]
        return [data[cuts[i]:cuts[i + 1]] for i in range(k)]

    # BoundIO directly: every chunking of short data around small bounds, plus random
    bound_cases = []
    for m in (0, 1, 4, 8):
        for total in range(0, 11):
            d = body(total, m)
            for k in (1, 2, 3):
                bound_cases.append((m, splits(d, k)))
    for _ in range(150 if quick else 4000):
        m = rng.choice([1, 5, 16, 64])
        bound_cases.append((m, [body(rng.choice([0, 1, m - 1, m, m + 1, rng.randrange(0, 2 * m + 2)]), rng.randrange(26))
                                for _ in range(rng.randrange(1, 5))]))
    for m, chunks in bound_cases:
        io = _loggers.BoundIO(m)
        for c in chunks:
            io.write(c)
        r = io.getvalue()
        bd_c.append('(%s, %s, %s)' % (zlit(m), coq_list(blist(c) for c in chunks), blist(r)))
        bd_m.append((m, [list(c) for c in chunks]))
        whole = b''.join(chunks)
        if (len(whole) <= m and r != whole) or len(r) > m or not whole.endswith(r):
            chk.violation({'kind': 'capture buffer: data that fits capture_maxbytes is not kept whole (or the buffer exceeds the bound / '
                                   'is not the newest data)', 'maxbytes': m, 'writes': [list(c) for c in chunks], 'buffer': list(r)})
    # end to end: capmax-1, capmax, capmax+1 bytes in 1..3 reads
    for capmax, ks in ((64, (1, 2)), (96, (1, 2, 3)), (46, (1, 2))):
        for total in (capmax - 1, capmax, capmax + 1):
            for k in ks:
                for channel in ('stdout', 'stderr'):
                    data = body(total, capmax + k)
                    parts_ = splits(data, k)
                    reads = [BEGIN + parts_[0]] + parts_[1:] + [END + b'after\n']
                    res = I.run_capture(capmax, reads, channel=channel)
                    chk.dist('capture:len%+d:reads%d' % (total - capmax, k))
                    replay = {'capture_maxbytes': capmax, 'channel': channel, 'reads': [list(r) for r in reads],
                              'data_written_between_tokens': list(data)}
                    if len(res) != 1:
                        chk.violation(dict(replay, kind='not exactly one PROCESS_COMMUNICATION notification for one BEGIN..END section',
                                           notifications=len(res)))
                        continue
                    cn, evdata, serial, ps, stream = res[0]
                    h = parse_header_bytes(stream)
                    carried = None
                    if h is not None:
                        _kvs, rest = h
                        carried = rest.partition(b'\n')[2]
                    distinct.add(('capture', total - capmax, k, None if carried is None else len(carried)))
                    if carried is None or (total <= capmax and carried != data) or len(carried) > capmax or not data.endswith(carried):
                        chk.violation(dict(replay, kind='PROCESS_COMMUNICATION notification does not carry what the process wrote '
                                                        '(whole when it fits capture_maxbytes, else the newest bytes within the bound)',
                                           carried=None if carried is None else list(carried)))
                    cls = real_by_name[cn]
                    cp_c.append('(%s, %s, (%s, %s, %s, %s, %s, %s, %s, %s), %s)' % (
                        zlit(capmax), coq_list(blist(c) for c in parts_), tlit('supervisor'), tlit('pool'), zlit(serial), zlit(ps),
                        cn, tlit('worker'), ogroup('grp'), zlit(3131), obytes(stream)))
                    cp_m.append(replay)

    # ---------------- N. one pool, several listeners: OK / FAIL / malformed result line / reaped while BUSY or UNKNOWN
    ls_c, ls_m = part('listeners', 'Z * list lop * list (list Z) * list Z', 'check_listeners')

    def listener_script(n, choose, length, pipes=False):
        """A protocol-conforming script built with plain bookkeeping; returns (ops, per-listener serials, buffer).
        pipes=True: listeners' stdin pipes may be full (no room) when the pool dispatches and are drained later."""
        state = ['ack'] * n
        busy = [None] * n
        buf = []
        sent = [[] for _ in range(n)]
        nxt = [0]
        ops = []
        full = [False] * n          # the listener's stdin pipe has no room
        undelivered = [False] * n   # an envelope is waiting in input_buffer

        def dispatch():
            while buf:
                ready = [i for i in range(n) if state[i] == 'ready']
                if not ready:
                    break
                i = ready[0]
                ev = buf.pop(0)
                sent[i].append(ev)
                state[i], busy[i] = 'busy', ev
                if full[i]:
                    undelivered[i] = True

        for step in range(length):
            options = ['emit', 'dispatch']
            for i in range(n):
                if full[i]:
                    options.append(('drain', i))
                    if state[i] == 'busy' and undelivered[i]:
                        continue        # it cannot answer what it has not received
                elif pipes and state[i] in ('ack', 'ready'):
                    options.append(('full', i))
                if state[i] == 'ack':
                    options.append(('ready', i))
                elif state[i] == 'busy':
                    options += [('ok', i), ('fail', i)] + ([] if pipes else [('garbage', i), ('reap', i)])
                elif state[i] in ('unknown', 'ready', 'broken') and not pipes:
                    options.append(('reap', i))
                    if state[i] == 'ready':
                        options.append(('epipe', i))
            o = choose(step, options)
            if o == 'emit':
                ops.append(('emit',))
                buf.append(nxt[0])
                nxt[0] += 1
            elif o == 'dispatch':
                ops.append(('dispatch',))
                dispatch()
            else:
                k, i = o
                ops.append((k, i))
                if k == 'ready':
                    state[i] = 'ready'
                elif k == 'ok':
                    state[i], busy[i] = 'ack', None
                elif k == 'fail':
                    buf.insert(0, busy[i])
                    state[i], busy[i] = 'ack', None
                elif k == 'garbage':
                    buf.insert(0, busy[i])
                    state[i], busy[i] = 'unknown', None
                elif k == 'reap':
                    if state[i] == 'busy':
                        buf.insert(0, busy[i])
                    state[i], busy[i] = 'dead', None
                elif k == 'epipe':
                    state[i] = 'broken'     # READY in supervisord's eyes, but every write fails with EPIPE: skipped
                elif k == 'full':
                    full[i] = True
                elif k == 'drain':
                    full[i] = False
                    undelivered[i] = False
        # at the end every pipe is drained, so that what was dispatched has been received
        for i in range(n):
            if full[i]:
                ops.append(('drain', i))
        return ops, sent, list(buf)

    def lop_term(o):
        return {'emit': 'LEmit', 'dispatch': 'LDispatch'}.get(o[0]) or '(%s %d)' % (
            {'ready': 'LSayReady', 'ok': 'LOk', 'fail': 'LFail', 'garbage': 'LGarbage', 'reap': 'LReap', 'epipe': 'LBreak'}[o[0]], o[1])

    def run_listeners(n, ops, want_sent, want_buf):
        per_op, left = I.run_listener_history(n, ops)
        got = [[] for _ in range(n)]
        timeline = []        # ('sent', listener, serial) / ('ok', listener, serial), in order
        current = [None] * n
        bad = None
        for o, sends in zip(ops, per_op):
            if o[0] == 'ok':
                timeline.append(('ok', o[1], current[o[1]]))
            for i, data in sends:
                parsed = listener_stream_bytes(data)
                if parsed is None:
                    bad = bad or 'unparsable bytes on the stdin of listener %d' % i
                    continue
                for kvs, _p in parsed:
                    sr = parse_dec_bytes(dict(kvs).get(b'serial', b''))
                    got[i].append(sr)
                    current[i] = sr
                    timeline.append(('sent', i, sr))
        # the judge: after an OK acknowledgement of a serial, nobody is sent that serial again
        acked = set()
        for kind, i, sr in timeline:
            if kind == 'ok':
                acked.add(sr)
            elif sr in acked:
                bad = bad or 'serial %s was sent to listener %d after it had been acknowledged OK' % (sr, i)
        if got != want_sent or left != want_buf:
            bad = bad or 'listeners were not sent exactly the events the history entitles them to, in order'
        chk.dist('listeners:n%d' % n)
        distinct.add(('listeners', tuple(tuple(x) for x in got), tuple(left)))
        if bad:
            chk.violation({'kind': 'one notification per change: ' + bad, 'listeners': n, 'history': [list(o) for o in ops],
                           'serials_sent_per_listener': got, 'expected': want_sent, 'left_in_buffer': left,
                           'expected_in_buffer': want_buf, 'timeline': [list(t) for t in timeline]})
        ls_c.append('(%d, %s, %s, %s)' % (n, coq_list(lop_term(o) for o in ops if o[0] not in ('full', 'drain')),
                                          coq_list(zlist(x) for x in got), zlist(left)))
        ls_m.append({'listeners': n, 'history': [list(o) for o in ops]})

    # fixed histories: each way of losing a BUSY listener, followed by its reaping, with a second listener taking over
    for lose in ('garbage', 'fail', 'reap'):
        for ack_first in (True, False):
            ops = [('ready', 0), ('ready', 1), ('emit',), ('emit',), ('dispatch',), (lose, 0)]
            ops += [('ok', 1), ('ready', 1), ('dispatch',)] if ack_first else [('dispatch',), ('ok', 1), ('ready', 1), ('dispatch',)]
            ops += [('ok', 1), ('ready', 1)]
            if lose != 'reap':
                ops += [('reap', 0)]
            ops += [('dispatch',), ('emit',), ('dispatch',)]
            # replay through the bookkeeping to get the expectation
            it = iter(ops)
            o2, ws, wb = listener_script(2, lambda step, options: (lambda o: o[0] if o[0] in ('emit', 'dispatch') else o)(next(it)), len(ops))
            run_listeners(2, o2, ws, wb)
    for ops in ([('ready', 0), ('ready', 1), ('epipe', 0), ('emit',), ('dispatch',), ('ok', 1), ('ready', 1), ('reap', 0), ('dispatch',),
                 ('emit',), ('dispatch',)],
                [('ready', 0), ('epipe', 0), ('emit',), ('dispatch',), ('ready', 1), ('dispatch',), ('ok', 1), ('reap', 0), ('ready', 1),
                 ('dispatch',)]):
        it = iter(ops)
        o2, ws, wb = listener_script(2, lambda step, options: (lambda o: o[0] if o[0] in ('emit', 'dispatch') else o)(next(it)), len(ops))
        run_listeners(2, o2, ws, wb)
        chk.dist('listeners:epipe-take-over')
    for _ in range(150 if quick else 4000):
        n = rng.choice([2, 2, 3])

        def choose(step, options):
            w = [(3 if o in ('emit', 'dispatch') else (2 if o[0] in ('ready', 'ok') else 1)) for o in options]
            return rng.choices(options, weights=w)[0]
        o2, ws, wb = listener_script(n, choose, rng.randrange(6, 22))
        run_listeners(n, o2, ws, wb)

    # ---------------- O. event types registered at run time (events.register), before and after the first envelope
    rg_c, rg_m = part('register', 'list xop * list (option bytes)', 'check_register')
    reg_histories = [
        [('raise_builtin',), ('register', 'FOO', 1), ('raise_ext', 1)],
        [('register', 'FOO', 1), ('raise_ext', 1), ('raise_builtin',)],
        [('raise_builtin',), ('register', 'FOO', 1), ('raise_ext', 1), ('register', 'BAR_2', 2), ('raise_ext', 2), ('raise_ext', 1),
         ('raise_builtin',)],
        [('raise_ext', 1), ('register', 'FOO', 1), ('raise_ext', 1)],
        [('register', 'FOO', 1), ('register', 'BAR_2', 2), ('raise_ext', 2), ('raise_ext', 1)],
    ]
    for _ in range(15 if quick else 300):
        h = []
        for _ in range(rng.randrange(2, 8)):
            k = rng.random()
            if k < 0.3:
                h.append(('raise_builtin',))
            elif k < 0.6:
                kk = rng.choice([1, 2, 3])
                h.append(('register', ['FOO', 'BAR_2', 'PLUGIN_X'][kk - 1], kk))
            else:
                h.append(('raise_ext', rng.choice([1, 2, 3])))
        reg_histories.append(h)
    for h in reg_histories:
        res = I.run_register_history(h)
        registered = {}
        xops, answers = [], []
        ri = 0
        for op in h:
            if op[0] == 'register':
                registered[op[2]] = op[1]
                xops.append('(XRegister %s (Ext %d))' % (blist(op[1].encode('ascii')), op[2]))
                continue
            data, exc = res[ri]
            ri += 1
            hd = parse_header_bytes(data) if data is not None else None
            en = None if hd is None else dict(hd[0]).get(b'eventname')
            if op[0] == 'raise_builtin':
                want, xc = b'TICK_5', '(Builtin Tick5Event)'
            else:
                want, xc = registered.get(op[1], 'None').encode('ascii'), '(Ext %d)' % op[1]
            xops.append('(XLookup %s)' % xc)
            answers.append(en)
            chk.dist('register:' + op[0])
            if en != want:
                chk.violation({'kind': 'eventname is not the name the event type is registered under', 'history': [list(o) for o in h],
                               'raised': list(op), 'eventname_in_header': None if en is None else en.decode('latin-1'),
                               'expected': want.decode('ascii'), 'exception': exc})
        rg_c.append('(%s, %s)' % (coq_list(xops), coq_list('None' if (a is None or a == b'None') else '(Some %s)' % blist(a) for a in answers)))
        rg_m.append([list(o) for o in h])
    if hasattr(events.EventTypes, 'FOO'):
        chk.violation({'kind': 'check-machinery: a run-time registration was not undone'}, nofail=True)

    # ---------------- P. several capture sections in one run (same data twice, an empty section in between)
    bl_c, bl_m = part('blocks', 'Z * list (list bytes) * list bytes', 'check_blocks')
    filler = b'ordinary output between two sections\n'
    block_sets = []
    for capmax in (64, 46):
        d1, d2 = body(capmax - 6, 1), body(capmax, 2)
        block_sets += [(capmax, [[d1], [d2]]), (capmax, [[d1], [d1]]), (capmax, [[d2], [], [d1]]),
                       (capmax, [splits(body(capmax + 1, 3), 2), [d1]]), (capmax, [[d1], [], [], splits(d2, 2), [d1]])]
    for capmax, blocks in block_sets:
        for channel in ('stdout', 'stderr'):
            reads = []
            for chunks in blocks:
                if chunks:
                    reads += [BEGIN + chunks[0]] + list(chunks[1:]) + [END + filler]
                else:
                    reads += [BEGIN + END + filler]
            res = I.run_capture(capmax, reads, channel=channel)
            carried = []
            for cn, evdata, serial, ps, stream in res:
                hd = parse_header_bytes(stream)
                carried.append(None if hd is None else hd[1].partition(b'\n')[2])
            want = [b''.join(chunks) for chunks in blocks]
            chk.dist('blocks:%d-sections' % len(blocks))
            distinct.add(('blocks', len(blocks), tuple(None if c is None else len(c) for c in carried)))
            ok = len(carried) == len(want) and all(c is not None and w.endswith(c) and len(c) <= capmax and (len(w) > capmax or c == w)
                                                   for c, w in zip(carried, want))
            if not ok:
                chk.violation({'kind': 'PROCESS_COMMUNICATION notifications of one run are not one-to-one with its BEGIN..END sections '
                                       '(each carrying that section\'s data only)',
                               'capture_maxbytes': capmax, 'channel': channel, 'reads': [list(r) for r in reads],
                               'sections': [list(w) for w in want],
                               'carried': [None if c is None else list(c) for c in carried]})
            bl_c.append('(%s, %s, %s)' % (zlit(capmax), coq_list(coq_list(blist(c) for c in chunks) for chunks in blocks),
                                          coq_list(blist(c or b'') for c in carried)))
            bl_m.append({'capture_maxbytes': capmax, 'channel': channel, 'sections': [[list(c) for c in chunks] for chunks in blocks]})

    # ---------------- Q. output held back at reap time, flushed by the real Subprocess.finish
    fl_c, fl_m = part('flush', 'proc * list (evclass * bytes) * (Z * bool * bool * Z) * list (evclass * option text)', 'check_flush')
    held_choices = [(b'last words\n', b''), (b'', b'oops'), (b'bye', b'err <!--XSUP'), (b'x<!--', b''), (b'', b'')]
    for st in (PSC.RUNNING, PSC.STARTING, PSC.STOPPING, PSC.BACKOFF):
        for killing in (False, True):
            for (ho, he) in held_choices:
                for (laststart, startsecs, now) in ((100.0, 1, 200.0), (199.0, 10, 200.0)):
                    sts = rng.choice([0, 256, 9])
                    grp = rng.choice(['grp', None])
                    pid = rng.choice([777, 31999])
                    raised, before, evs, st_after, pid_after = I.run_finish_flush(st, pid, ho, he, sts, killing=killing, laststart=laststart,
                                                                                  startsecs=startsecs, now=now, gname=grp)
                    es = decode_wait_status(sts)[0]
                    tq = too_quickly(st, laststart, startsecs, now)
                    ee = es in (0,)
                    held = [(cn, d) for cn, d in (('ProcessLogStdoutEvent', ho), ('ProcessLogStderrEvent', he)) if d]
                    replay = {'state': st, 'pid': pid, 'killing': killing, 'held_back_stdout': list(ho), 'held_back_stderr': list(he),
                              'wait_status': sts, 'laststart': laststart, 'startsecs': startsecs, 'now': now, 'group': grp,
                              'notifications_during_finish': evs}
                    chk.dist('flush:%s' % ('held' if held else 'nothing-held'))
                    distinct.add(('flush', st, killing, raised, tuple(cn for cn, _ in evs)))
                    # judge: the held-back output is announced first, with the child's pid, then the state change(s)
                    logs = [(cn, pl) for cn, pl in evs if cn.startswith('ProcessLog')]
                    first_state = [i for i, (cn, _) in enumerate(evs) if cn.startswith('ProcessState')]
                    last_log = [i for i, (cn, _) in enumerate(evs) if cn.startswith('ProcessLog')]
                    want_logs = [(cn, 'processname:worker groupname:%s pid:%d channel:%s\n%s' % (
                        grp or '', pid, 'stdout' if 'Stdout' in cn else 'stderr', d.decode('ascii'))) for cn, d in held]
                    if before or logs != want_logs or (first_state and last_log and last_log[-1] > first_state[0]):
                        chk.violation(dict(replay, kind='output held back at reap time is not announced once, with the pid of the child, '
                                                        'before the state change of that reap', expected_log_notifications=want_logs))
                    fl_c.append('((mkProc %s %s %s %s 0 0 %s None), %s, (%s, %s, %s, %s), %s)' % (
                        tlit('worker'), ogroup(grp), zlit(st), zlit(pid), blit(killing),
                        coq_list('(%s, %s)' % (cn, blist(d)) for cn, d in held), zlit(es), blit(tq), blit(ee), zlit(int(now)),
                        rendered_term(evs)))
                    fl_m.append(replay)

    # listeners whose stdin pipe is full when the pool dispatches (EAGAIN), drained later: still one copy per dispatch
    full_fixed = [
        [('ready', 0), ('ready', 1), ('full', 0), ('emit',), ('dispatch',), ('dispatch',), ('emit',), ('dispatch',), ('dispatch',),
         ('drain', 0), ('ok', 0), ('ok', 1), ('ready', 0), ('ready', 1), ('dispatch',)],
        [('ready', 0), ('full', 0), ('emit',), ('emit',), ('dispatch',), ('dispatch',), ('dispatch',), ('drain', 0), ('fail', 0),
         ('ready', 0), ('dispatch',), ('ok', 0), ('ready', 0), ('dispatch',)],
    ]
    for ops in full_fixed:
        it = iter(ops)
        o2, ws, wb = listener_script(2, lambda step, options: (lambda o: o[0] if o[0] in ('emit', 'dispatch') else o)(next(it)),
                                     len(ops), pipes=True)
        run_listeners(2, o2, ws, wb)
        chk.dist('listeners:full-pipe')
    for _ in range(60 if quick else 1500):
        n = rng.choice([1, 2, 3])

        def choose_p(step, options):
            w = [(3 if o in ('emit', 'dispatch') else (3 if o[0] in ('full', 'drain') else 2)) for o in options]
            return rng.choices(options, weights=w)[0]
        o2, ws, wb = listener_script(n, choose_p, rng.randrange(6, 22), pipes=True)
        run_listeners(n, o2, ws, wb)
        chk.dist('listeners:full-pipe')

    # ---------------- R. the stdin pipe itself: Subprocess.write / handle_write_event with finite room
    pp_c, pp_m = part('pipe', 'list piop * bytes * bytes', 'check_pipe')
    pipe_histories = [[('write', b'abc', 0), ('write', b'de', 0), ('drain', 4), ('drain', 100)],
                      [('write', b'envelope-1', 0), ('drain', 0), ('write', b'envelope-2', 3), ('drain', 100)]]
    for _ in range(120 if quick else 3000):
        h = []
        for _ in range(rng.randrange(1, 7)):
            room = rng.choice([0, 0, 1, 3, 10, 1000])
            h.append(('write', body(rng.randrange(0, 9), rng.randrange(26)), room) if rng.random() < 0.6 else ('drain', room))
        pipe_histories.append(h)
    for h in pipe_histories:
        got_b, left_b, exc = I.run_pipe(h)
        whole = b''.join(o[1] for o in h if o[0] == 'write')
        chk.dist('pipe:' + ('with-full-pipe' if any(o[-1] == 0 for o in h) else 'roomy'))
        if exc is not None or got_b + left_b != whole:
            chk.violation({'kind': 'a write to a listener\'s stdin with a full or nearly full pipe loses or repeats bytes, or the error '
                                   'escapes from Subprocess.write', 'history': [_jsonable(list(o)) for o in h], 'exception': exc,
                           'received': list(got_b), 'left_in_input_buffer': list(left_b)})
        pp_c.append('(%s, %s, %s)' % (coq_list(('(PiWrite %s %s)' % (blist(o[1]), zlit(o[2]))) if o[0] == 'write'
                                               else '(PiDrain %s)' % zlit(o[1]) for o in h), blist(got_b), blist(left_b)))
        pp_m.append([_jsonable(list(o)) for o in h])

    # ---------------- S. capture tokens split at every byte position; the daemon's loglevel
    pre = b'ordinary output before the section....\n'
    post = b'ordinary output after the section.....\n'
    sdata = body(40, 5)
    for tok_name, tok in (('BEGIN', BEGIN), ('END', END)):
        for ppos in range(1, len(tok)):
            if quick and ppos not in (1, 2, 3, len(tok) // 2, len(tok) - 2, len(tok) - 1) and ppos % 5:
                continue
            whole = pre + BEGIN + sdata + END + post
            cut = (len(pre) if tok_name == 'BEGIN' else len(pre) + len(BEGIN) + len(sdata)) + ppos
            reads = [whole[:cut], whole[cut:]]
            for channel in ('stdout', 'stderr'):
                res = I.run_capture(64, reads, channel=channel)
                chk.dist('capture:token-split:%s' % tok_name)
                carried = [parse_header_bytes(st)[1].partition(b'\n')[2] if parse_header_bytes(st) else None for _, _, _, _, st in res]
                if carried != [sdata]:
                    chk.violation({'kind': 'a capture token split across two reads: not exactly one PROCESS_COMMUNICATION notification '
                                           'carrying the section\'s data', 'token': tok_name, 'split_after_byte': ppos, 'channel': channel,
                                   'reads': [list(r) for r in reads], 'section_data': list(sdata),
                                   'carried': [None if c is None else list(c) for c in carried]})
                for cn, evdata, serial, ps, stream in res[:1]:
                    cp_c.append('(%s, %s, (%s, %s, %s, %s, %s, %s, %s, %s), %s)' % (
                        zlit(64), coq_list([blist(sdata)]), tlit('supervisor'), tlit('pool'), zlit(serial), zlit(ps),
                        cn, tlit('worker'), ogroup('grp'), zlit(3131), obytes(stream)))
                    cp_m.append({'token_split': tok_name, 'position': ppos, 'channel': channel})
    for lname, lvl in sorted(vars(_loggers.LevelsByName).items()):
        if lname.startswith('_'):
            continue
        for capmax, total in ((64, 64), (64, 30)):
            data = body(total, lvl)
            parts_ = splits(data, 2) if total >= 46 else [data]
            reads = [BEGIN + parts_[0]] + parts_[1:] + [END + post]
            res = I.run_capture(capmax, reads, channel='stdout', loglevel=lvl)
            chk.dist('capture:loglevel:%s' % lname)
            carried = [parse_header_bytes(st)[1].partition(b'\n')[2] if parse_header_bytes(st) else None for _, _, _, _, st in res]
            if carried != [data]:
                chk.violation({'kind': 'PROCESS_COMMUNICATION data depends on the daemon\'s loglevel', 'loglevel': lname,
                               'capture_maxbytes': capmax, 'reads': [list(r) for r in reads], 'section_data': list(data),
                               'carried': [None if c is None else list(c) for c in carried]})
            for cn, evdata, serial, ps, stream in res[:1]:
                cp_c.append('(%s, %s, (%s, %s, %s, %s, %s, %s, %s, %s), %s)' % (
                    zlit(capmax), coq_list(blist(c) for c in parts_), tlit('supervisor'), tlit('pool'), zlit(serial), zlit(ps),
                    cn, tlit('worker'), ogroup('grp'), zlit(3131), obytes(stream)))
                cp_m.append({'loglevel': lname, 'capture_maxbytes': capmax})

    # ---------------- compare everything inside Coq
    total = 0
    for name, (ctype, fn, cases, meta) in parts.items():
        if not cases:
            chk.violation({'kind': 'no cases generated', 'part': name}, nofail=True)
            continue
        bad, errs = vlib.coq_compare(IMPORTS, ctype, fn, cases, wd, tag=name, shard=300)
        total += len(cases)
        for e in errs:
            chk.violation({'kind': 'model evaluation failed', 'part': name, 'error': e}, nofail=True)
        for i in bad[:5]:
            chk.violation({'kind': 'model and implementation disagree', 'part': name, 'case': _jsonable(meta[i]),
                           'coq_case': cases[i][:3000],
                           'explanation': 'the Coq model (about which the C11 theorems are proved) gives a different answer than '
                                          'the implementation on this input; no input was found on which the property itself '
                                          'fails (the Python monitors accepted the implementation\'s output)'},
                          nofail=True)
        chk.dist('cases:' + name, len(cases))
    if known_len[0]:
        chk.known_finding('C11-len', 'len in the envelope header counts the characters of the payload text while the payload is '
                                     'written as UTF-8 bytes; on %d dispatched notifications with non-ASCII payload len is smaller than '
                                     'the number of payload bytes that follow (all agree with the model; c11_len_refuted)' % known_len[0])
    if not proved:
        chk.violation({'kind': 'proof obligation no longer checks', 'detail': chk.proof_failure, 'file': 'coq/props/C11.v'},
                      nofail=not [1 for _, nf in chk.violations if not nf])
    cov = chk.coverage
    cov['evaluations'] = total
    cov['distinct_nontrivial'] = len(distinct)
    cov['traces_validated_against_impl'] = total
    cov['exhaustive'] = False
    cov['rule'] = ('distinct = distinct canonical outcomes: (payload class, ascii?, multi-line?, long?), dispatch outcome per class, '
                   'len mismatch size, tick emission pattern per sequence, (step kind, state before, state after, raised, event classes) '
                   'per process step, (result, event classes) sequence per supervisor script.  Exhaustive parts: tick sequences of %d '
                   'deltas from %d bases x %d deltas (%d sequences); change_state over all state pairs; finish over all states x killing '
                   'x 4 timings x 4 statuses; supervisor scripts up to length 3-4 over 5+7 operations; all 1-2 byte strings over a '
                   '21-byte alphabet for the UTF-8 decoder' % (depth, len(bases), len(deltas), n_exh))
    cov['samples'] = samples + [{'ticks': tick_m[5]}, {'proc': _jsonable(proc_m[300])}, {'sup': sup_m[-1]}]


def _judge_proc(chk, snap, step, p, rendered, name, group, raised, cfg=None):
    """Independent monitor for one primitive step on a real Subprocess."""
    from supervisor import states
    st0, pid0, bo0 = snap
    desc = states.getProcessStateDescription
    if step[0] in ('setpid', 'setbackoff'):
        if rendered:
            chk.violation({'kind': 'notification without a state change', 'step': list(step), 'events': rendered})
        return
    if step[0] == 'change':
        changed = step[1] != st0
        if not changed:
            ok = rendered == []
        else:
            ok = len(rendered) == 1 and _state_event_ok(rendered[0], name, group, desc(st0), step[1], pid0, p.backoff, step[2])
        if not ok:
            chk.violation({'kind': 'change_state: not exactly one truthful PROCESS_STATE notification per change',
                           'state_before': st0, 'pid': pid0, 'backoff_before': bo0, 'step': list(step), 'events': rendered})
        return
    # finish: every notification names the state left and the pid the process had (finish clears it afterwards)
    cur = st0
    for cn, pl in rendered:
        toks = dict(t.split(':', 1) for t in pl.split(' ')) if pl else {}
        if toks.get('from_state') != desc(cur) or ('pid' in toks and toks['pid'] != str(pid0)) or toks.get('processname') != name:
            chk.violation({'kind': 'finish: PROCESS_STATE notification does not carry the values at the moment of the change',
                           'state_before': st0, 'pid_before': pid0, 'step': list(step), 'events': rendered})
            return
        if 'expected' in toks and cfg is not None:
            sts = step[1]
            true_es = (sts >> 8) & 0xff if (sts & 0x7f) == 0 else -1
            if toks['expected'] != str(int(true_es in cfg['exitcodes'])):
                chk.violation({'kind': 'finish: `expected` in PROCESS_STATE_EXITED is not 1 exactly when the exit status of the child is '
                                       'one of the configured exitcodes', 'wait_status': sts, 'true_exit_status': true_es,
                               'exitcodes': cfg['exitcodes'], 'state_before': st0, 'events': rendered})
                return
        nxt = [k for k, v in vars(states.ProcessStates).items() if not k.startswith('__') and
               ('ProcessState%sEvent' % k.capitalize()) == cn]
        if len(nxt) != 1:
            chk.violation({'kind': 'finish: unexpected notification class', 'events': rendered})
            return
        cur = getattr(states.ProcessStates, nxt[0])
    if cur != p.state or (not raised and p.pid != 0):
        chk.violation({'kind': 'finish: notifications do not lead to the final state, or pid not cleared',
                       'state_before': st0, 'state_after': p.state, 'pid_after': p.pid, 'events': rendered})


def _state_event_ok(ev, name, group, from_desc, new_state, pid, backoff_after, expected):
    from supervisor import states
    cn, pl = ev
    want_cls = 'ProcessState%sEvent' % states.getProcessStateDescription(new_state).capitalize()
    if cn != want_cls or pl is None:
        return False
    toks = [t.split(':', 1) for t in pl.split(' ')]
    want = [['processname', name], ['groupname', group or ''], ['from_state', from_desc]]
    extra = {'STARTING': [['tries', backoff_after]], 'BACKOFF': [['tries', backoff_after]], 'RUNNING': [['pid', pid]],
             'STOPPING': [['pid', pid]], 'STOPPED': [['pid', pid]], 'EXITED': [['expected', int(expected)], ['pid', pid]],
             'FATAL': [], 'UNKNOWN': []}[states.getProcessStateDescription(new_state)]
    return toks == want + [[k, str(v)] for k, v in extra]


def _judge_sup(chk, ops, out):
    """Independent monitor: one PROCESS_GROUP_* notification per actual change
    of the group set, one RUNNING at loop entry, one STOPPING at the first
    pass that sees mood < RUNNING."""
    groups = []
    stopping = False
    for op, (res, evs) in zip(ops, out):
        want = []
        if op[0] == 'add':
            if op[1] not in groups:
                groups.append(op[1])
                want = [('ProcessGroupAddedEvent', 'groupname:%s\n' % op[1])]
        elif op[0] == 'remove':
            if op[1] in groups and not op[2]:
                groups.remove(op[1])
                want = [('ProcessGroupRemovedEvent', 'groupname:%s\n' % op[1])]
        elif op[0] in ('add_raises', 'remove_raises'):
            want = []       # the addition / removal did not happen: nothing may be announced
        elif op[0] == 'runforever':
            want = [('SupervisorRunningEvent', '')]
        elif op[0] == 'pass':
            if op[1] < 1 and not stopping:
                stopping = True
                want = [('SupervisorStoppingEvent', '')]
        if evs != want:
            chk.violation({'kind': 'group / daemon-state notifications are not one-to-one with the changes',
                           'script': [list(o) for o in ops], 'failing_op': list(op), 'notified': evs, 'expected': want})
            return


def _jsonable(x):
    if isinstance(x, bytes):
        return {'bytes': list(x)}
    if isinstance(x, (list, tuple)):
        return [_jsonable(y) for y in x]
    if isinstance(x, dict):
        return dict((str(k), _jsonable(v)) for k, v in x.items())
    return x


def replay(chk, path):
    """Tick sequences and supervisor scripts are re-run as such (first, like the
    corpus); every other replay names an input that the full run regenerates
    deterministically from the same seed."""
    with open(path) as f:
        obj = json.load(f)
    print(json.dumps(obj, indent=1)[:4000])
    _REPLAY.append(obj)
    run(chk)
