"""C10 - Event-listener protocol safety.

Theorems: coq/props/C10.v over coq/C10/*.v (Listener: stdout parser; Proc: stdin
dispatcher, Subprocess.write, _dispatchEvent loop, life cycle as the protocol
code reads it; Automaton: the documented protocol, byte at a time).

Correspondence: the real PEventListenerDispatcher + PInputDispatcher on real
Subprocess objects of a real EventListenerPool (harness/c10_env.py replaces
only the options object and the clock).  Families of cases:
  A  protocol streams: every stream of <= k tokens over the token alphabet,
     from each of the four listener states; all fragmentations of short
     streams, every single cut and the byte-wise delivery of longer ones.  The
     implementation is compared with itself across fragmentations in Python
     (a difference is a failing input of the property) and with the model in
     Coq (byte-wise, whole and one random fragmentation per stream).
  E  the same streams with a dispatch attempt after every fragment.
  S  system histories over two listeners: dispatches with write oracles
     (partial writes, EAGAIN, EPIPE, other errors), write events, spawn,
     RUNNING, stop, death, listener bytes - exhaustive to a small depth, then
     random.  After every operation every attribute of both listeners is
     compared, so the frame property is checked too.
  I  int() of ASCII digit strings against CPython (incl. the digit limit).
"""
import itertools
import json
import os
import sys

import vlib
from vlib import zlit, bytes_lit, coq_opt

LEVEL = 'proof'
IMPORTS = ['SV.C10.Listener', 'SV.C10.Proc']
CASE_TYPE = 'Z * Z * sys * list sop * list obs'

TOKENS = [
    b'READY\n', b'RESULT 2\n', b'OK', b'FAIL', b'RESULT 4\n', b'RESULT 0\n', b'RESULT -1\n',
    b'RESULT x\n', b'RESULT +2\n', b'RESULT 1_0\n', b'XXXXXXX2\n', b'READY', b'RESULT 2', b'RES', b'\n',
    b'junk', b'RESULT 99999999999999999999\n', b'RESULT 007\n', b'RESULT \n', b'RESULT 2 \n',
    b' RESULT 2\n', b'result 2\n', b'!X', b'\xff\xfe', b'RESULT 2\r\n', b'READY\nREADY\n', b'RESULT 12\n',
    # ANSI escape sequences (options.strip_ansi must not touch the protocol stream)
    b'\x1b[31m', b'RESULT 7\n', b'O\x1b[31mK', b'RE\x1b[1mADY\n', b'RESULT 5\n', b'\x1b[',
]
CORE = [b'READY\n', b'RESULT 2\n', b'OK', b'FAIL', b'RESULT 0\n', b'RESULT -1\n', b'X', b'RESULT 2', b'\n']
STARTS = ['ACK', 'READY', 'BUSY', 'UNKNOWN']


def gen():
    import c10_tokens
    return [c10_tokens.generate]


def _fragmentations(n, rng, exhaustive_upto, nrandom):
    """lists of cut positions (sorted, within 1..n-1) for a stream of n bytes"""
    out = []
    if n <= 1:
        return [()]
    if n <= exhaustive_upto:
        for mask in range(1 << (n - 1)):
            out.append(tuple(i + 1 for i in range(n - 1) if mask >> i & 1))
        return out
    out.append(())
    out.append(tuple(range(1, n)))
    for i in range(1, n):
        out.append((i,))
    for _ in range(nrandom):
        k = rng.randrange(2, 5)
        out.append(tuple(sorted(set(rng.randrange(1, n) for _ in range(k)))))
    return out


def _cut(stream, cuts):
    pts = [0] + list(cuts) + [len(stream)]
    return [stream[a:b] for a, b in zip(pts, pts[1:]) if b > a]


def run(chk):
    proved = chk.prove('props/C10.v', gens=gen())
    with vlib.WorkDir('c10') as wd:
        _run(chk, wd, proved)
    # "never disturb another listener": rejection/re-buffering across pools and listeners is C09's correspondence
    vlib.sub_check(chk, 'c09')
    chk.coverage['rule'] += '; plus the C09 correspondence (event pools: a listener\'s rejection or exit concerns its own pool only)'


def _run(chk, wd, proved):
    import c10_drive as drv
    import c10_env as env
    maxdig = sys.get_int_max_str_digits() if hasattr(sys, 'get_int_max_str_digits') else 0
    rng = chk.rng
    quick = chk.tier == 'quick'
    cases, meta = [], []
    distinct = set()
    evaluations = 0
    frag_runs = 0

    spec_cases, spec_meta = [], []
    counts = {}
    envelopes = _Envelopes(drv)

    cur = {'strip': False}       # options.strip_ansi of the next runs
    log_cases = {}

    def add_case(nl, hk, setup, ops, tag):
        strip = cur['strip']
        case, trace = drv.run_case(nl, hk, setup, ops, maxdig, strip)
        cases.append(case)
        m = {'family': tag, 'listeners': nl, 'handler': hk, 'strip_ansi': strip, 'setup': _js(setup), 'ops': _js(ops)}
        chk.dist('strip_ansi=%s' % strip)
        for data, logged in drv.run_case.last_logged:
            if logged is None or not isinstance(logged, bytes):
                if counts.get('childlog', 0) < 3:
                    counts['childlog'] = counts.get('childlog', 0) + 1
                    chk.violation({'kind': 'listener output was not written to the child log exactly once', 'case': m,
                                   'data': list(data)})
            elif len(data) <= 40:
                log_cases[(strip, data, logged)] = m
        meta.append(m)
        for key, outs in trace:
            distinct.add((hash(key), outs))
        # the property statement itself, judged on the implementation's trace
        why = drv.monitor(drv.run_case.last_start, ops, trace, envelopes)
        if why is not None:
            counts['monitor'] = counts.get('monitor', 0) + 1
            if counts['monitor'] <= 5:
                chk.violation({'kind': 'the implementation breaks the listener protocol property on this history',
                               'case': m, 'monitor': why})
        if tag == 'A-whole' and all(o.startswith('SOut ') for o in trace[0][1]):
            outs = [o.split(' ', 2)[2] for o in trace[0][1]]     # 'SOut 0 (X)' -> '(X)'
            spec_cases.append('(%s, %s, %s, %s, %s, %s)' % (
                zlit(hk), zlit(maxdig), drv.run_case.last_start_listeners[0], bytes_lit(ops[0][2]),
                drv.run_case.last_final_listeners[0], vlib.coq_list(outs)))
            spec_meta.append(m)
            # known finding: a complete zero-length result that is still pending
            k = trace[0][0][0]
            if k[3] == env.EventListenerStates.BUSY and k[5] is not None and k[5][1] == 0 and k[5][0] == b'' and k[5][2] == b'':
                counts['lag'] = counts.get('lag', 0) + 1
        return trace

    def impl_only(nl, hk, setup, ops):
        w = drv.World(nl, hk, cur['strip'])
        for op in setup:
            w.apply(op)
        tr = []
        for op in ops:
            outs = w.apply(op)
            tr.append((w.raw_key(), tuple(outs)))
        return tr

    # ---------------- corpus of earlier minimized cases, first
    cdir = os.path.join(vlib.VERIF, 'corpus', 'C10')
    if os.path.isdir(cdir):
        for fn in sorted(os.listdir(cdir)):
            if fn.endswith('.json'):
                with open(os.path.join(cdir, fn)) as f:
                    c = json.load(f)
                cur['strip'] = bool(c.get('strip_ansi', False))
                add_case(c['listeners'], c['handler'], _unjs(c['setup']), _unjs(c['ops']), 'corpus')
                chk.dist('corpus')

    # ---------------- family A: streams x start states x fragmentations
    streams = []
    for t in TOKENS:
        streams.append((t,))
    pairs = [(a, b) for a in TOKENS for b in TOKENS]
    if quick:   # all pairs over the first 12 tokens, every 7th of the rest
        pairs = [pr for i, pr in enumerate(pairs)
                 if (pr[0] in TOKENS[:12] and pr[1] in TOKENS[:12]) or i % 7 == 0]
    streams += pairs
    core3 = list(itertools.product(CORE, repeat=3))
    if quick:
        core3 = [s for i, s in enumerate(core3) if i % 5 == 0]
    streams += core3
    if not quick:
        streams += list(itertools.product(CORE[:5], repeat=4))
    nrand_streams = 150 if quick else 1500
    for _ in range(nrand_streams):
        k = rng.choice([4, 5, 6])
        streams.append(tuple(rng.choice(TOKENS if rng.random() < 0.3 else CORE) for _ in range(k)))
    # hostile: huge lengths around CPython's digit limit, long junk
    hostile = [(b'RESULT ' + b'9' * 30 + b'\n', b'OK'),                (b'RESULT ' + b'1' * 4301 + b'\n', b'READY\n'), (b'RESULT ' + b'0' * 40 + b'2\n', b'OK', b'READY\n'),
               (b'\x00' * 50,), (b'READY\n' * 5,), (b'RESULT 2\nOK' * 3,),
               (b'RESULT 00\n',), (b'RESULT 000000\n',),
               # second result handler raising SystemExit / KeyboardInterrupt / GeneratorExit (bodies !S !K !G): as any other error
               (b'RESULT 2\n', b'!S', b'READY\n'), (b'RESULT 2\n', b'!K', b'READY\n'), (b'RESULT 2\n!G', b'READY\n'), (b'RESULT 3\n!SxRESULT 2\nOK',),
               # headers that differ from a valid one ONLY in the first 7 bytes, then valid digits and a valid body
               (b'result 2\n', b'OK', b'READY\n'), (b'RESULT:2\n', b'OK'), (b'XXXXXXX2\n', b'OK', b'READY\n'), (b'RESULT\t2\n', b'OK'),
               (b'RESULt 2\n', b'OK'), (b'\x00\x01\x02\x03\x04\x05\x062\n', b'OK'), (b'READY\n 2\n', b'OK'), (b'RESULT_2\nOK',),
               # result bodies the default handler must reject: trailing LF, other case, garbage, NUL/high bytes
               (b'RESULT 3\n', b'OK\n', b'READY\n'), (b'RESULT 2\n', b'ok'), (b'RESULT 2\n', b'Ok', b'READY\n'),
               (b'RESULT 4\n', b'\x00\xff\x80\n'), (b'RESULT 2\n', b'\xff\xfe', b'READY\n'), (b'RESULT 3\n', b' OK'), (b'RESULT 4\n', b'OKOK'), (b'RESULT 1\n', b'O', b'K'),
               # escape sequences inside payloads, across tokens and across chunk boundaries
               (b'RESULT 7\n', b'O\x1b[31mK', b'READY\n'), (b'RE\x1b[1mADY\n',), (b'READY\n', b'\x1b[0m'),
               (b'RESULT 2\n', b'\x1b[0mOK'), (b'RESULT 5\n', b'\x1b[31m', b'READY\n'), (b'RES\x1b[mULT 2\nOK',),
               (b'RESULT 2\x1b[K\n', b'OK'), (b'\x1b[1mREADY\n',), (b'RESULT 6\nO\x1b', b'[1mK', b'READY\n'),
               (b'RESULT 2\nOK\x1b[0m', b'READY\n'), (b'RESULT 3\n\x1b[', b'H')]   # inside the signature of C10-zero-length-result
    exh_upto = 7 if quick else 12
    for si, toks in enumerate(list(streams) + hostile):
        stream = b''.join(toks)
        is_hostile = si >= len(streams)
        chk.dist('A:tokens=%d' % len(toks))
        for start in STARTS:
            if len(toks) >= 3 and not is_hostile and quick and (si + STARTS.index(start)) % 2:
                continue
            variants = [(hk, False) for hk in ((0, 1) if any(t.startswith(b'!') or b'\n!' in t for t in toks) else (0,))]
            if b'\x1b' in stream or is_hostile or (si + STARTS.index(start)) % 9 == 0:
                variants.append((0, True))       # the same bytes with options.strip_ansi = True
            for hk, strip in variants:
                cur['strip'] = strip
                setup = drv.SETUPS[start]
                # reference: byte-wise delivery (state after every prefix)
                if len(stream) <= 60:
                    bytewise = [['feed', 0, stream[i:i + 1]] for i in range(len(stream))]
                    if quick and (si + STARTS.index(start)) % 4:
                        tr = impl_only(1, hk, setup, bytewise)
                    else:
                        tr = add_case(1, hk, setup, bytewise, 'A-bytewise')
                    ref = {0: None}
                    acc = ()
                    for i, (key, outs) in enumerate(tr):
                        acc = acc + outs
                        ref[i + 1] = (key, acc)
                else:
                    ref = None
                whole = [['feed', 0, stream]]
                trw = add_case(1, hk, setup, whole, 'A-whole')
                evaluations += 2
                frs = _fragmentations(len(stream), rng, exh_upto, 3 if quick else 10) if len(stream) <= 60 else \
                    [tuple(sorted(set(rng.randrange(1, len(stream)) for _ in range(3)))) for _ in range(3)]
                if strip and b'\x1b' not in stream:
                    frs = frs[:4]       # without escape bytes strip_ansi has nothing to act on: a few cuts suffice
                coq_pick = rng.randrange(len(frs))
                for fi, cuts in enumerate(frs):
                    ops = [['feed', 0, c] for c in _cut(stream, cuts)]
                    if fi == coq_pick and cuts not in ((), tuple(range(1, len(stream)))):
                        tr = add_case(1, hk, setup, ops, 'A-frag')
                    else:
                        tr = impl_only(1, hk, setup, ops)
                    frag_runs += 1
                    # the implementation against itself: state after each prefix and
                    # accumulated effects must not depend on the fragmentation
                    pos, acc = 0, ()
                    for op, (key, outs) in zip(ops, tr):
                        pos += len(op[2])
                        acc = acc + outs
                        want = ref[pos] if ref is not None else ((trw[0][0], trw[0][1]) if pos == len(stream) else None)
                        if want is not None and (key, acc) != want:
                            counts['frag'] = counts.get('frag', 0) + 1
                            if counts['frag'] > 5:
                                break
                            chk.violation({
                                'kind': 'fragmentation changes the interpretation of a listener byte stream',
                                'start_state': start, 'handler': hk, 'strip_ansi': strip, 'stream': list(stream), 'cuts': list(cuts),
                                'after_bytes': pos, 'this_fragmentation': [list(key), list(acc)],
                                'bytewise_delivery': [list(want[0]), list(want[1])]})
                            break
                chk.dist('A:start=' + start)

    # ---------------- family E: dispatch attempt after every fragment
    e_streams = [s for s in streams if 2 <= len(s) <= 4]
    rng.shuffle(e_streams)
    e_streams = e_streams[:(80 if quick else 4000)]
    for toks in e_streams:
        stream = b''.join(toks)
        for start in STARTS:
            for mode in ('tokens', 'random'):
                if mode == 'tokens':
                    chunks = list(toks)
                else:
                    n = len(stream)
                    chunks = _cut(stream, tuple(sorted(set(rng.randrange(1, n) for _ in range(rng.randrange(1, 4)))))) if n > 1 else [stream]
                ops, vid = [], 20
                for c in chunks:
                    ops.append(['feed', 0, c])
                    if rng.random() < 0.85:
                        ops.append(['dispatch', vid, [rng.choice([['room', env.BIG], ['room', env.BIG], ['room', 7], ['again']])]])
                        vid += 1
                    if rng.random() < 0.3:
                        ops.append(['writable', 0, ['room', rng.choice([1, 30, env.BIG])]])
                cur['strip'] = rng.random() < 0.5
                add_case(1, 0, drv.SETUPS[start], ops, 'E')
                evaluations += 1
                chk.dist('E:' + mode)

    # ---------------- family S: system histories over two listeners
    W = [['room', env.BIG], ['room', 10], ['room', 0], ['again'], ['epipe'], ['err']]
    base_ops = []
    for i in (0, 1):
        for t in (b'READY\n', b'RESULT 2\nOK', b'RESULT 4\nFAIL', b'X', b''):
            base_ops.append(['feed', i, t])
        base_ops.append(['writable', i, ['room', env.BIG]])
        base_ops.append(['writable', i, ['epipe']])
        base_ops.append(['stop', i])
        base_ops.append(['stopfail', i])
        base_ops.append(['finish', i, b'', ['room', env.BIG], False])
        base_ops.append(['spawn', i, 200 + i])
        base_ops.append(['spawnfail', i])
        base_ops.append(['running', i])
    for w0 in W:
        base_ops.append(['dispatch', None, [w0, ['room', env.BIG]]])
    base_ops.append(['dispatch', None, [['epipe'], ['room', 10]]])
    s_setups = {
        'both-ready': [['spawn', 0, 101], ['running', 0], ['feed', 0, b'READY\n'],
                       ['spawn', 1, 102], ['running', 1], ['feed', 1, b'READY\n']],
        'one-busy': [['spawn', 0, 101], ['running', 0], ['feed', 0, b'READY\n'],
                     ['dispatch', 5, [['room', 20], ['room', env.BIG]]],
                     ['spawn', 1, 102], ['running', 1]],
        'cold': [],
        # fork failed for one listener: its pipes were closed again, the other listener reuses the numbers
        'fork-failed-0': [['spawnfail', 0]],
        'fork-failed-1': [['spawnfail', 1]],
        # listener 0 RUNNING+READY, listener 1 respawned: it has announced READY but is still STARTING
        'starting-ready': [['spawn', 0, 101], ['running', 0], ['feed', 0, b'READY\n'],
                           ['spawn', 1, 102], ['feed', 1, b'READY\n']],
    }
    depth = 2 if quick else 3
    vidc = [30]

    def inst(op):
        if op[0] == 'dispatch':
            vidc[0] += 1
            return ['dispatch', vidc[0], op[2]]
        return op
    for sname, setup in sorted(s_setups.items()):
        d = depth if (quick or sname == 'both-ready') else 2
        for seq in itertools.product(base_ops, repeat=d):
            must = sname.startswith('fork-failed') and seq[0][0] == 'spawn' and seq[-1][0] == 'feed'
            if quick and not must and rng.random() < (0.85 if sname in ('cold', 'fork-failed-0', 'fork-failed-1') else 0.6):
                continue
            ops = [inst(o) for o in seq]
            cur['strip'] = bool(len(cases) % 2)
            add_case(2, 0, setup, ops, 'S-exh')
            evaluations += 1
            chk.dist('S-exh:' + sname)
    nrand = 500 if quick else 8000
    for _ in range(nrand):
        n = rng.randrange(4, 14)
        ops = []
        alive = [False, False]
        for _ in range(n):
            r = rng.random()
            i = rng.randrange(2)
            if r < 0.30:
                t = rng.choice([b'READY\n', b'READY\n', b'RESULT 2\nOK', b'RESULT 2\n', b'OK', b'FAIL', b'RESULT 4\nFAIL',
                                b'RESULT 0\n', b'X', b'RESULT x\n', b'!X', b'RESULT 2\n!X', b''] + TOKENS[:6])
                ops.append(['feed', i, t])
            elif r < 0.55:
                vidc[0] += 1
                ops.append(['dispatch', vidc[0], [rng.choice(W + [['room', env.BIG]] * 4), rng.choice(W + [['room', env.BIG]] * 4)]])
            elif r < 0.65:
                ops.append(['writable', i, rng.choice(W + [['room', 25]])])
            elif r < 0.78:
                if rng.random() < 0.2:
                    ops.append(['spawnfail', rng.randrange(2)])
                ops.append(['spawn', i, rng.randrange(300, 400)])
                if rng.random() < 0.75:      # else READY is announced while still STARTING
                    ops.append(['running', i])
                if rng.random() < 0.7:
                    ops.append(['feed', i, b'READY\n'])
            elif r < 0.84:
                ops.append(['running', i])
            elif r < 0.885:
                ops.append(['stop', i])
            elif r < 0.90:
                ops.append(['stopfail', i])
            else:
                ops.append(['finish', i, rng.choice([b'', b'', b'RESULT 2\nOK', b'junk', b'RESULT 2\n']),
                            rng.choice(W), rng.random() < 0.3])
        setup = rng.choice(sorted(s_setups.values(), key=repr))
        cur['strip'] = rng.random() < 0.5
        add_case(2, rng.choice([0, 0, 1]), setup, ops, 'S-rand')
        evaluations += 1
        for o in ops:
            chk.dist('S-rand:op=' + o[0])

    # ---------------- family T: envelope larger than the pipe's room, stop request, further write events
    for room in (0, 1, 17, 40, 64):
        for mid in ([], [['stop', 0]], [['feed', 0, b'RESULT 2\n']], [['stop', 0], ['feed', 0, b'RESULT 2\nOK']],
                    [['stop', 1]], [['dispatch', 902, [['room', 3], ['room', 5]]], ['stop', 1]]):
            for tail in ([['writable', 0, ['room', env.BIG]]],
                         [['writable', 0, ['room', 9]], ['writable', 0, ['again']], ['writable', 0, ['room', env.BIG]]],
                         [['writable', 0, ['room', env.BIG]], ['writable', 1, ['room', env.BIG]],
                          ['finish', 0, b'RESULT 2\nOK', ['room', env.BIG], False]]):
                cur['strip'] = False
                add_case(2, 0, s_setups['both-ready'],
                         [['dispatch', 901, [['room', room], ['room', env.BIG]]]] + mid + tail, 'T')
                evaluations += 1
                chk.dist('T')

    # ---------------- family D: what is still in a dead listener's stdout pipe is read at reap (drain) exactly as a
    #                  read event would have read it: finish(last) = feed(last); finish(b'') - in every process
    #                  state, also after a stop request (an answered event must not come back)
    for sname in ('one-busy', 'both-ready'):
        for mid in ([], [['stop', 0]], [['stopfail', 0]], [['feed', 0, b'RESULT 2\n']], [['stop', 0], ['feed', 0, b'RESULT 2\n']]):
            for last in (b'RESULT 2\nOK', b'RESULT 4\nFAIL', b'OK', b'RESULT 2\nOKREADY\n', b'garbage', b'RESULT 2\n', b'READY\n'):
                cur['strip'] = False
                ta = add_case(2, 0, s_setups[sname], mid + [['finish', 0, last, ['room', env.BIG], False]], 'D')
                tb = impl_only(2, 0, s_setups[sname], mid + [['feed', 0, last], ['finish', 0, b'', ['room', env.BIG], False]])
                evaluations += 2
                chk.dist('D')
                a_key, a_outs = ta[-1][0], ta[-1][1]
                b_key, b_outs = tb[-1][0], tb[-2][1] + tb[-1][1]
                if (a_key, a_outs) != (b_key, b_outs) and 'SInapplicable' not in a_outs + b_outs:
                    counts['drain'] = counts.get('drain', 0) + 1
                    if counts['drain'] <= 5:
                        chk.violation({'kind': 'bytes a listener wrote before it died are not interpreted at reap as a read event '
                                               'would have interpreted them',
                                       'case': meta[-1], 'last_bytes_in_the_pipe': list(last),
                                       'effects_of_finish_with_these_bytes': list(a_outs),
                                       'effects_of_read_event_then_finish': list(b_outs),
                                       'explanation': 'e.g. a listener being stopped that answered its event and exited: the '
                                                      'answer must count; the event must not be returned to the pool and '
                                                      'delivered again'})

    # ---------------- family P: the real ServerOptions.make_pipes over os/fcntl proxies: every
    #                  parent-side end (stdin write end, stdout/stderr read ends) must be non-blocking
    for use_stderr in (True, False):
        o = env.FakeOptions()
        fds = o.make_pipes(use_stderr)
        chk.dist('P')
        for end in ('stdin', 'stdout', 'stderr'):
            if fds.get(end) is None:
                if end != 'stderr' or use_stderr:
                    chk.violation({'kind': 'make_pipes did not create the %s pipe' % end, 'stderr': use_stderr})
                continue
            if not o.fd_flags.get(fds[end], 0) & os.O_NONBLOCK:
                chk.violation({'kind': "make_pipes leaves supervisord's end of a child's %s pipe blocking" % end,
                               'stderr': use_stderr, 'pipes': fds, 'flags_set': {str(k): v for k, v in o.fd_flags.items()},
                               'consequence': 'a write(2)/read(2) on it from the main loop sleeps until the child acts: '
                                              'an envelope larger than the free pipe space, or a listener that does not '
                                              'read its stdin, stops supervisord (see the history replays of family S/T)'})

    # ---------------- family M: the dispatchers the REAL EventListenerConfig.make_dispatchers builds (every spawn of every
    #                  family goes through it): each is registered under the descriptor it reads/writes, which is the
    #                  pipe end of its channel; servicing stderr first must not take bytes pending on stdout
    wm = drv.World(1, 0)
    for op in drv.SETUPS['ACK']:
        wm.apply(op)
    pm = wm.pool.procs[0]
    chk.dist('M')
    want = {pm.pipes['stdout']: ('stdout', 'PEventListenerDispatcher'), pm.pipes['stderr']: ('stderr', 'POutputDispatcher'),
            pm.pipes['stdin']: ('stdin', 'PInputDispatcher')}
    for key, d in pm.dispatchers.items():
        ok = d.fd == key and key in want and (d.channel, type(d).__name__) == want[key]
        if not ok:
            chk.violation({'kind': 'make_dispatchers registered a dispatcher under a descriptor that is not the one it uses',
                           'registered_under': key, 'dispatcher_fd': d.fd, 'channel': getattr(d, 'channel', None),
                           'class': type(d).__name__, 'pipes': {k: v for k, v in pm.pipes.items()}})
    if sorted(pm.dispatchers) != sorted(want):
        chk.violation({'kind': 'make_dispatchers did not create one dispatcher per parent-side pipe end',
                       'dispatchers': sorted(pm.dispatchers), 'pipes': {k: v for k, v in pm.pipes.items()}})
    wm.options.reads[pm.pipes['stdout']] = b'READY\n'          # pending on stdout
    wm.options.reads[pm.pipes['stderr']] = b'some diagnostics\n'  # and something on stderr
    pm.dispatchers[pm.pipes['stderr']].handle_read_event()       # the main loop happens to service stderr first
    pm.dispatchers[pm.pipes['stdout']].handle_read_event()
    if pm.listener_state != env.EventListenerStates.READY:
        chk.violation({'kind': "servicing a listener's stderr consumed protocol bytes pending on its stdout",
                       'history': ['spawn', 'running', "stdout has 'READY\\n' pending, stderr has output",
                                   'read event on stderr', 'read event on stdout'],
                       'listener_state': pm.listener_state, 'expected': env.EventListenerStates.READY,
                       'stderr_dispatcher_fd': pm.dispatchers[pm.pipes['stderr']].fd, 'stderr_fd': pm.pipes['stderr'],
                       'stdout_fd': pm.pipes['stdout']})

    # ---------------- compare with the model inside Coq
    import time
    t_gen = time.time() - chk.t0
    bad, errs = _compare(cases, wd)
    t_coq = time.time() - chk.t0 - t_gen
    for e in errs:
        chk.violation({'kind': 'model evaluation failed', 'error': e}, nofail=True)
    for i in bad[:5]:
        first = _first_divergence(meta[i], maxdig, wd)
        chk.violation({'kind': 'model and implementation disagree', 'case': meta[i], 'first_divergence': first,
                       'explanation': 'the Coq model of the listener protocol code (about which the C10 theorems are '
                                      'proved) and the implementation differ on this operation list; no input was found '
                                      'on which the implementation itself breaks the property statement'},
                      nofail=True)

    # ---------------- the documented automaton as judge of the implementation (whole deliveries)
    sbad, serrs = vlib.coq_compare(['SV.C10.Listener', 'SV.C10.Automaton'], 'Z * Z * listener * bytes * listener * list out',
                                   'check_spec', spec_cases, wd, tag='spec')
    for e in serrs:
        chk.violation({'kind': 'specification evaluation failed', 'error': e}, nofail=True)
    for i in sbad[:5]:
        chk.violation({'kind': 'the implementation does not follow the documented listener automaton on this byte stream',
                       'case': spec_meta[i],
                       'explanation': 'start state, stream and the observed final state/effects were judged by '
                                      'Automaton.proto_ref (the specification of c10_refines_automaton), not by the model'})

    # ---------------- what reached the child log: raw bytes, or stripEscapes of them when strip_ansi is set
    lkeys = sorted(log_cases, key=repr)
    lterms = ['(%s, %s, %s)' % (vlib.blit(k[0]), bytes_lit(k[1]), bytes_lit(k[2])) for k in lkeys]
    lbad, lerrs = vlib.coq_compare(['SV.C10.Listener', 'SV.C10.ReadLog'], 'bool * bytes * bytes', 'check_childlog',
                                   lterms, wd, shard=2000, tag='childlog')
    for e in lerrs:
        chk.violation({'kind': 'model evaluation failed (child log)', 'error': e}, nofail=True)
    for i in lbad[:3]:
        chk.violation({'kind': 'child log content differs from the model of stripEscapes / handle_read_event',
                       'strip_ansi': lkeys[i][0], 'data': list(lkeys[i][1]), 'logged': list(lkeys[i][2]),
                       'case': log_cases[lkeys[i]]}, nofail=True)

    if counts.get('lag'):
        chk.known_finding('C10-zero-length-result',
                          "a BUSY listener whose output ends with 'RESULT 0\\n' stays BUSY until its next byte arrives "
                          "(the empty result is handled late); %d such streams explored, all agree with the model and, once "
                          "the pending step is performed, with the documented automaton" % counts['lag'])

    # ---------------- family I: int() on digit strings
    icases = []
    for _ in range(3000 if quick else 30000):
        n = rng.choice([0, 1, 1, 2, 3, 5, 9, 20])
        b = bytes(rng.choice(b'0123456789' if rng.random() < 0.85 else b'0123456789 +-_x\n\xb2') for _ in range(n))
        icases.append((b, maxdig))
    for n in (4299, 4300, 4301):
        icases.append((b'7' * n, maxdig))
        icases.append((b'0' * n, maxdig))
    iterms = []
    for b, md in icases:
        try:
            v = int(b) if b.isdigit() else None
        except ValueError:
            v = None
        # values are compared modulo a prime: a 4300-digit literal takes Coq half a minute to parse
        iterms.append('(%s, %s, %s)' % (bytes_lit(b), zlit(md), coq_opt(zlit(v % 1000000007)) if v is not None else 'None'))
    ibad, ierrs = vlib.coq_compare(IMPORTS, 'bytes * Z * option Z', 'check_int', iterms, wd, tag='int')
    for e in ierrs:
        chk.violation({'kind': 'model evaluation failed (int)', 'error': e}, nofail=True)
    for i in ibad[:3]:
        chk.violation({'kind': 'model of int() on digit strings disagrees with CPython', 'bytes': list(icases[i][0])},
                      nofail=True)

    if not proved:
        chk.violation({'kind': 'proof obligation no longer checks', 'detail': chk.proof_failure,
                       'file': 'coq/props/C10.v'}, nofail=not chk.violations)

    cov = chk.coverage
    cov['evaluations'] = len(cases) + frag_runs + len(iterms) + len(spec_cases) + len(lterms)
    cov['traces_validated_against_impl'] = len(cases)
    cov['distinct_nontrivial'] = len(distinct)
    cov['exhaustive'] = False
    cov['rule'] = ('A: %d token streams (all 1- and 2-token streams over %d tokens, 3-token streams over %d core tokens, '
                   'random 4-6 token streams, hostile lengths) x 4 start states; all 2^(n-1) fragmentations for streams of '
                   '<= %d bytes, else every single cut + byte-wise + random cuts (%d fragmentation runs compared '
                   'implementation-against-itself, byte-wise/whole/one random per stream compared with the model in Coq); '
                   'E: dispatch attempt after every fragment; S: every sequence of %d operations over %d operation kinds '
                   'from 6 start configurations of two listeners (incl. stop requests whose signal fails: process state UNKNOWN) + %d random histories of 4-13 operations; '
                   'distinct = distinct (observed state of all listeners, effects) pairs after an operation'
                   % (len(streams), len(TOKENS), len(CORE), exh_upto, frag_runs, depth, len(base_ops), nrand))
    cov['samples'] = [meta[0], meta[len(meta) // 2], meta[-1]]
    chk.note('%d Coq-compared cases, %d implementation-vs-itself fragmentation runs, %d int() cases; '
             'build+audit+implementation runs %.0fs, model evaluation in Coq %.0fs'
             % (len(cases), frag_runs, len(iterms), t_gen, t_coq))


class _Envelopes(object):
    """envelope bytes of event vid, as the real pool renders them"""

    def __init__(self, drv):
        self.w = drv.World(1, 0)

    def __getitem__(self, vid):
        return self.w.envelope(vid)


def _compare(cases, wd):
    """shard by size so that no file gets large"""
    shards, cur, size = [], [], 0
    for c in cases:
        if cur and (size + len(c) > 150000 or len(cur) >= 400):
            shards.append(cur)
            cur, size = [], 0
        cur.append(c)
        size += len(c)
    if cur:
        shards.append(cur)
    bad, errs, base = [], [], 0
    # one coq_compare call per group of shards keeps the thread pool busy
    flat_tagged = []
    for k, sh in enumerate(shards):
        flat_tagged.append((base, sh))
        base += len(sh)
    from concurrent.futures import ThreadPoolExecutor

    def one(args):
        k, (b0, sh) = args
        b, e = vlib.coq_compare(IMPORTS, CASE_TYPE, 'check_sys', sh, wd, shard=len(sh) + 1, tag='sys%d' % k)
        return [b0 + x for x in b], e
    with ThreadPoolExecutor(max_workers=vlib.NCPU) as ex:
        for b, e in ex.map(one, enumerate(flat_tagged)):
            bad += b
            errs += e
    return sorted(bad), errs


def _first_divergence(m, maxdig, wd):
    """shortest prefix of the operation list on which model and implementation differ"""
    import c10_drive as drv
    setup, ops = _unjs(m['setup']), _unjs(m['ops'])
    for k in range(1, len(ops) + 1):
        case, _ = drv.run_case(m['listeners'], m['handler'], setup, ops[:k], maxdig, m.get('strip_ansi', False))
        b, e = vlib.coq_compare(IMPORTS, CASE_TYPE, 'check_sys', [case], wd, tag='div')
        if b or e:
            return {'prefix_length': k, 'operation': _js([ops[k - 1]])[0], 'coq_case': case[-1500:]}
    return None


def _js(ops):
    out = []
    for op in ops:
        out.append([{'bytes': list(x)} if isinstance(x, (bytes, bytearray)) else x for x in op])
    return out


def _unjs(ops):
    out = []
    for op in ops:
        out.append([bytes(x['bytes']) if isinstance(x, dict) and 'bytes' in x else x for x in op])
    return out


def replay(chk, path):
    import c10_drive as drv
    with open(path) as f:
        obj = json.load(f)
    print(json.dumps(obj, indent=1)[:3000])
    maxdig = sys.get_int_max_str_digits() if hasattr(sys, 'get_int_max_str_digits') else 0
    m = obj.get('case')
    if m and 'ops' in m:
        with vlib.WorkDir('c10r') as wd:
            case, tr = drv.run_case(m['listeners'], m['handler'], _unjs(m['setup']), _unjs(m['ops']), maxdig, m.get('strip_ansi', False))
            for (key, outs), op in zip(tr, m['ops']):
                print(op, '->', outs)
            b, e = vlib.coq_compare(IMPORTS, CASE_TYPE, 'check_sys', [case], wd, tag='replay')
            print('model agrees' if not b and not e else 'model DISAGREES %r %r' % (b, e))
            if b or e:
                chk.violation(obj, nofail=True, name='replayed')
    elif 'stream' in obj:
        stream = bytes(obj['stream'])
        setup = drv.SETUPS[obj['start_state']]
        for cuts in (tuple(obj['cuts']), tuple(range(1, len(stream)))):
            ops = [['feed', 0, c] for c in _cut(stream, cuts)]
            w = drv.World(1, obj['handler'], obj.get('strip_ansi', False))
            for op in setup:
                w.apply(op)
            acc = []
            for op in ops:
                acc += w.apply(op)
            print('cuts', cuts, '->', w.obs_key(), acc)
        run(chk)
    else:
        run(chk)
