"""C01 - process state changes follow the documented lifecycle graph.

Decided by coq/props/C01.v (trace well-formedness of every run of the lifecycle model) and tied to /repo by the
shared lifecycle correspondence (props/life_check.py).  The clause "each change is announced by exactly one
PROCESS_STATE notification ... so an observer replaying notifications always knows the reported state" is also a
statement about how notifications reach observers (listener pools): that part is the C11 correspondence (routing:
one envelope per matching event per subscribed pool, subscription and unsubscription), which is run here as well.
"""
import importlib

import vlib
import life_check

LEVEL = 'proof'


def _sub(chk, modname):
    mod = importlib.import_module(modname)
    sub = vlib.Check('C01', chk.tier, chk.seed, level='proof')
    mod.run(sub)
    for path, nofail in sub.violations:
        chk.violations.append((path, nofail))
    cov, sc = chk.coverage, sub.coverage
    cov['evaluations'] += sc.get('evaluations', 0)
    cov['traces_validated_against_impl'] += sc.get('traces_validated_against_impl', 0)
    cov['distinct_nontrivial'] += sc.get('distinct_nontrivial', 0)
    cov.setdefault('sub_checks', {})[modname] = {'evaluations': sc.get('evaluations', 0), 'violations': len(sub.violations)}
    cov['obligations'] += sc.get('obligations', 0)
    cov['discharged'] += sc.get('discharged', 0)


def run(chk):
    life_check.run_property(chk, 'C01', 'props/C01.v')
    _sub(chk, 'c11')
    _sub(chk, 'c09')
    chk.coverage['rule'] += ('; plus the C11 and C09 correspondences (notifications as received by listener pools: content, '
                             'routing, order, exactly-once delivery)')


def replay(chk, path):
    life_check.replay_property(chk, 'C01', 'props/C01.v', path)
