"""C08 - capture mode extracts exactly what is between the tags.

Theorems: coq/props/C08.v over coq/C08/{Gen_tokens,Stream,StreamProofs}.v.
Correspondence: the real POutputDispatcher (real loggers, real files, real
BoundIO, real events.notify) against the Coq model, after every read and after
the final flush:
  level A  exact serialised traces (small exhaustive box, byte-level cuts,
           capture_maxbytes sweep, random long streams, events-enabled family)
  level B  all fragmentations at symbol boundaries of all streams of n symbols
           over an 8-symbol alphabet; Coq enumerates the fragmentations itself
           and compares a weighted checksum of all traces of a stream.
Every completed run is also judged in Python by an independent reference
splitter (c08_disp.judge), which is what decides `nofail`."""
import itertools
import json
import multiprocessing
import os

import vlib
from vlib import zlit, zlist, blit, coq_list

LEVEL = 'proof'
IMPORTS = ['SV.C08.Gen_tokens', 'SV.C08.Stream', 'SV.C08.StreamCheck']
CAPS = [0, 1, 2, 3, 8, 24, 1000]


def _gens():
    import c08_tokens
    return [c08_tokens.generate]


def run(chk):
    proved = chk.prove('props/C08.v', gens=_gens(), extra_targets=['C08/StreamCheck.vo'])
    with vlib.WorkDir('c08') as wd:
        _run(chk, wd, proved)


# ------------------------------------------------------------------ cases

def byte_frags(stream, cuts):
    out, last = [], 0
    for c in sorted(set(cuts)):
        if 0 < c < len(stream):
            out.append(stream[last:c])
            last = c
    out.append(stream[last:])
    return out


def gen_exact(chk, H, B, E, table):
    """-> list of (family, frags, capmax, channel, events_enabled)"""
    jobs = []
    quick = chk.tier == 'quick'
    # A1: every stream of <= 3 symbols, every fragmentation, with / without an EOF read
    k = 0
    for n in (1, 2, 3):
        for syms in itertools.product(range(8), repeat=n):
            for mask in range(2 ** (n - 1)):
                for cm in (0, 3, 1000):
                    k += 1
                    fr = H.frag_syms(table, syms, mask) + ([b''] if k % 2 else [])
                    jobs.append(('box3', fr, cm, 'stdout' if k % 3 else 'stderr', False))
    # A2: byte-level cuts of canonical streams
    canon = [b'ab' + B + b'cde' + E + b'f', B + E, B + B + b'x' + E + E,
             b'x' + B[:10] + B + b'y' + E[:5] + E + b'z', E + b'q' + B + b'r', B + b'never closed']
    for si, s in enumerate(canon):
        for c in range(1, len(s)):
            for cm in (2, 1000):
                jobs.append(('cut1', byte_frags(s, [c]), cm, 'stdout', False))
        if si == 0 or not quick:
            step = 1 if not quick else 2
            for c1 in range(1, len(s), step):
                for c2 in range(c1 + 1, len(s), step):
                    jobs.append(('cut2', byte_frags(s, [c1, c2]) + [b''], 1000 if (c1 + c2) % 2 else 3, 'stderr', False))
    # A3: capture_maxbytes sweep, including single reads larger than the bound
    for klen in range(0, 13):
        # letters with a '%' every fifth byte ('%D', '%I' ...: nothing may be formatted on the way to a log or to syslog)
        data = bytes((37 if i % 5 == 2 else 65 + (i % 26)) for i in range(klen))
        for size in sorted(set([1, 2, 3, 5, max(1, klen)])):
            pieces = [data[i:i + size] for i in range(0, klen, size)]
            for cm in CAPS + [-1]:
                jobs.append(('capsweep', [b'p' + B] + pieces + [E + b'q'], cm, 'stdout', False))
                jobs.append(('capsweep', [b'p' + B + data + E + b'q' + B + data[:5]], cm, 'stderr', False))
    # A4: random long streams, byte-level fragmentation, < 100 tags per read
    rng = chk.rng
    for _ in range(250 if quick else 3000):
        nsym = rng.choice([5, 10, 20, 40, 80])
        parts = []
        for _ in range(nsym):
            r = rng.random()
            if r < 0.45:
                parts.append(table[rng.randrange(15)])
            elif r < 0.75:
                parts.append(bytes(rng.randrange(256) for _ in range(rng.choice([1, 2, 7, 30]))))
            else:
                t = rng.choice([B, E])
                a = rng.randrange(len(t))
                parts.append(t[a:rng.randrange(a, len(t) + 1)])
        s = b''.join(parts)
        ncut = rng.choice([0, 1, 2, 5, 20])
        cuts = [rng.randrange(1, max(2, len(s))) for _ in range(ncut)]
        fr = byte_frags(s, cuts) if s else [b'']
        if rng.random() < 0.5:
            fr.append(b'')
        jobs.append(('random', fr, rng.choice(CAPS + [5, 50]), rng.choice(['stdout', 'stderr']), False))
    # A': events enabled (PROCESS_LOG) -- small box
    k = 0
    for n in (1, 2, 3):
        for syms in itertools.product([0, 1, 2, 3, 6, 7], repeat=n):
            for mask in range(2 ** (n - 1)):
                k += 1
                jobs.append(('plog', H.frag_syms(table, syms, mask), 5 if k % 4 else 0,
                             'stdout' if k % 2 else 'stderr', True))
    jobs.append(('plog', [b'hello' + B + b'abc' + E + b'x'], 10, 'stdout', True))
    # configuration dimension: how the ordinary log is configured (file / NONE / rotating handler that
    # never rolls / syslog only / file and syslog); syslog only for the all-ASCII families
    cycles = {'box3': [H.LOG_FILE, H.LOG_NONE, H.LOG_FILE, H.LOG_ROTATING], 'cut1': [H.LOG_FILE, H.LOG_NONE],
              'cut2': [H.LOG_FILE, H.LOG_NONE, H.LOG_ROTATING],
              'capsweep': [H.LOG_FILE, H.LOG_NONE, H.LOG_SYSLOG_ONLY, H.LOG_FILE_AND_SYSLOG, H.LOG_ROTATING],
              'random': [H.LOG_FILE, H.LOG_NONE, H.LOG_ROTATING], 'plog': [H.LOG_FILE, H.LOG_NONE]}
    count = {}
    out = []
    for j in jobs:
        i = count[j[0]] = count.get(j[0], 0) + 1
        cyc = cycles[j[0]]
        # walk the cycle with a stride coprime to the family's own periodic choices
        out.append(j + (cyc[(i + i // 7) % len(cyc)],))
    jobs = out
    # reopenlogs() / removelogs() in every dispatcher phase: before anything, outside a section with
    # and without a held-back tag prefix, inside a section, after the section, before the final flush
    s0 = b'ab' + B + b'cde' + E + b'f' + B[:9]
    k = 0
    for c in range(0, len(s0) + 1):
        for what in ('reopen', 'clear'):
            for cm in (2, 1000, 0):
                k += 1
                script = ([s0[:c]] if c else []) + [what] + ([s0[c:]] if c < len(s0) else [])
                jobs.append(('phase', script, cm, 'stdout' if k % 2 else 'stderr', k % 5 == 0,
                             [H.LOG_FILE, H.LOG_NONE, H.LOG_ROTATING][k % 3]))
    for c1 in range(1, len(s0), 3):
        for c2 in range(c1 + 1, len(s0), 4):
            jobs.append(('phase', [s0[:c1], 'clear', s0[c1:c2], 'reopen', s0[c2:], 'clear'], 1000, 'stdout', False, H.LOG_FILE))
    return jobs


def gen_sum(chk):
    """-> list of (syms, capmax, eof)"""
    jobs = []
    k = 0
    quick = chk.tier == 'quick'
    for syms in itertools.product(range(8), repeat=4):
        for cm in ((2, 1000) if quick else (1, 2, 3, 8, 24, 1000)):
            k += 1
            jobs.append((list(syms), cm, 1 if k % 5 == 0 else 0, bool(k % 2)))
    # quick: 5 symbols without 0xFF (just another ordinary byte); thorough: all 8
    for syms in itertools.product(range(7 if quick else 8), repeat=5):
        k += 1
        if quick and k % 2:
            continue      # quick tier: every second 5-symbol stream (4-symbol streams are complete)
        jobs.append((list(syms), 1000 if k % 3 else 2, 1 if k % 5 == 0 else 0, bool(k % 2)))
    if not quick:
        for syms in itertools.product(range(8), repeat=6):
            k += 1
            jobs.append((list(syms), 1000 if k % 3 else 2, 1 if k % 5 == 0 else 0, bool(k % 2)))
        rng = chk.rng
        for _ in range(20000):
            k += 1
            jobs.append(([rng.randrange(15) for _ in range(7)], rng.choice(CAPS), 1 if k % 5 == 0 else 0, bool(k % 2)))
    return jobs


def gen_boundio(chk):
    """-> list of (maxbytes, [chunks]): every sequence of <= 4 (thorough 5) writes with sizes in
    {0, 1, mb-1, mb, mb+1, 2mb} for mb in 1..6, <= 3 writes for a few larger bounds, random."""
    jobs = []

    def chunks_of(sizes):
        out, k = [], 0
        for n in sizes:
            out.append(bytes(((k + i) % 250) + 1 for i in range(n)))
            k += n
        return out
    maxlen = 4 if chk.tier == 'quick' else 5
    for mb in range(1, 7):
        sizes = sorted(set([0, 1, mb - 1, mb, mb + 1, 2 * mb]))
        for n in range(1, maxlen + 1):
            for t in itertools.product(sizes, repeat=n):
                jobs.append((mb, chunks_of(t)))
    for mb in (10, 24, 30, 100):
        sizes = sorted(set([0, 1, mb // 2, mb - 1, mb, mb + 1, 2 * mb]))
        for n in range(1, 4):
            for t in itertools.product(sizes, repeat=n):
                if sum(t) <= 3 * mb:
                    jobs.append((mb, chunks_of(t)))
    for mb in (0, -1):
        for t in itertools.product([0, 1, 2], repeat=2):
            jobs.append((mb, chunks_of(t)))
    rng = chk.rng
    for _ in range(500 if chk.tier == 'quick' else 10000):
        mb = rng.choice([1, 2, 3, 5, 8, 13, 40])
        jobs.append((mb, chunks_of([rng.choice([0, 1, 2, mb - 1, mb, mb + 1, rng.randrange(0, 2 * mb + 2)])
                                    for _ in range(rng.randrange(1, 7))])))
    return jobs


def gen_cuts(chk, B, E):
    """-> list of (stream, capmax, stride): a section whose length is just below / equal to /
    just above / twice capture_maxbytes, behind an ordinary prefix long enough for the scanner
    to flush parts of it to the capture log before the END tag arrives; every 2-read split
    and the 3-read splits at multiples of `stride`."""
    jobs = []
    caps = (8, 30, 40, 100) if chk.tier == 'quick' else (1, 8, 23, 24, 25, 30, 40, 100)
    for cap in caps:
        for ln in sorted(set([cap - 1, cap, cap + 1, 2 * cap])):
            payload = bytes(33 + (i % 90) for i in range(ln))
            s = b'ordinary output before the section ' + B + payload + E + b'q'
            jobs.append((s, cap, 0, 7 if chk.tier == 'quick' else 3))
            if ln == cap:
                jobs.append((s, cap, 1, 7 if chk.tier == 'quick' else 3))    # no ordinary log configured
    return jobs


def gen_strip(chk, H, B, E):
    """strip_ansi = true with capture on: escape sequences (complete, unterminated, with final bytes
    inside and outside ANSI_TERMINATORS, bare ESC [ and lone ESC) before / inside / after the tags.
    -> (script, capmax, channel, logmode)"""
    escs = [b'\x1b[5G', b'\x1b[0m', b'\x1b[', b'\x1b', b'\x1b[31;1m', b'\x1b[K', b'\x1b[?25', b'\x1b[2J\x1b[H']
    jobs = []
    k = 0

    def build(parts):
        return b'x' + parts[0] + B + parts[1] + b'abc' + parts[2] + E + parts[3] + b'y' + parts[4]
    streams = []
    for e in escs:
        for pos in range(5):
            parts = [b''] * 5
            parts[pos] = e
            streams.append(build(parts))
        for p1, p2 in ((0, 3), (1, 2), (0, 4), (3, 4)):
            parts = [b''] * 5
            parts[p1] = e
            parts[p2] = escs[(escs.index(e) + 3) % len(escs)]
            streams.append(build(parts))
        # escape directly in front of a tag with nothing else around, two sections, tag prefix at the end
        streams.append(e + B + b'p' + E + e + B + b'q' + e + E + B[:6])
    for s in streams:
        for cm in (1000, 4, 0):
            k += 1
            jobs.append(([s] + ([b''] if k % 2 else []), cm, 'stdout' if k % 3 else 'stderr',
                         [H.LOG_FILE, H.LOG_NONE, H.LOG_ROTATING][k % 3] if cm else H.LOG_FILE))
    # fragmented: every single cut of a few of them (model comparison; the judge counts the events)
    for s in streams[::7]:
        for c in range(1, len(s)):
            jobs.append(([s[:c], s[c:]], 1000, 'stdout', H.LOG_FILE))
    return jobs


def gen_finish(chk, B, E):
    """Through the real Subprocess.finish(): every cut point of streams with 0-2 sections, the part
    after the cut still unread in the pipe when the child is reaped.  -> (stream, cut, capmax)"""
    streams = [b'hello\n', b'ab' + B + b'xyz' + E + b'cd', b'a' + B + b'x' + E + b'm' + B + b'yy' + E + b'z\n',
               b'tail' + B[:7], b'0123456789' * 4 + B + b'Q' * 12 + E, B + b'never closed', B + E, E + b'x' + B]
    jobs = []
    for s in streams:
        for cap in ((10, 3, 1000) if chk.tier == 'quick' else (1, 3, 10, 12, 1000)):
            for c in range(0, len(s) + 1):
                jobs.append((s, c, cap, False))
                if cap == 10:
                    jobs.append((s, c, cap, True))    # stdout_logfile = NONE
    return jobs


# ------------------------------------------------------------------ running

def frags_lit(frags):
    return coq_list([vlib.bytes_lit(f) for f in frags])


def script_lit(script):
    return coq_list(['RReopen' if f == 'reopen' else ('RClear' if f == 'clear' else '(RRead %s)' % vlib.bytes_lit(f))
                     for f in script])


def exact_term(job, trace, incap=None):
    import c08_disp as H
    fam, script, cm, ch, ev, logmode = job
    if ev:
        return '(%s, %s, %s, %s, %s)' % (zlit(cm), blit(H.has_file(logmode)), blit(incap), script_lit(script), zlist(trace))
    return '(%s, %s, %s, %s)' % (zlit(cm), blit(H.has_file(logmode)), script_lit(script), zlist(trace))


LOGMODES = ['file', 'none', 'rotating-never-rolls', 'syslog-only', 'file-and-syslog']


def _jsonable_job(job):
    fam, script, cm, ch, ev, logmode = job
    return {'family': fam, 'script': [(list(f) if isinstance(f, bytes) else f) for f in script], 'capture_maxbytes': cm,
            'channel': ch, 'events_enabled': ev, 'ordinary_log': LOGMODES[logmode]}


def _job_from_json(c, fam='replay'):
    script = c.get('script', c.get('frags'))
    return (c.get('family', fam), [(f if isinstance(f, str) else bytes(f)) for f in script], c['capture_maxbytes'],
            c.get('channel', 'stdout'), bool(c.get('events_enabled', False)),
            LOGMODES.index(c.get('ordinary_log', 'file')))


def _run(chk, wd, proved):
    import c08_disp as H
    B, E = H.tokens()
    table = H.sym_table(B, E)
    ejobs = gen_exact(chk, H, B, E, table)
    sjobs = gen_sum(chk)
    bjobs = gen_boundio(chk)
    cjobs = gen_cuts(chk, B, E)
    fjobs = gen_finish(chk, B, E)
    tjobs = gen_strip(chk, H, B, E)
    corpus = _load_corpus()
    ejobs = corpus + ejobs
    ctx = multiprocessing.get_context('fork')
    with ctx.Pool(vlib.NCPU, initializer=H._worker_init, initargs=(wd,)) as pool:
        eres = pool.map(H.exact_job, [j[1:] for j in ejobs], chunksize=64)
        sres = pool.map(H.sum_job, sjobs, chunksize=64)
        bres = pool.map(H.boundio_job, bjobs, chunksize=256)
        cres = pool.map(H.cuts_job, cjobs, chunksize=1)
        tres = pool.map(H.strip_job, tjobs, chunksize=32)
        pres = pool.map(H.pools_job, [('stdout', 100), ('stderr', 100), ('stdout', 3), ('stderr', 0)], chunksize=1)
    import c07_seam as S
    with ctx.Pool(vlib.NCPU, initializer=S.worker_init, initargs=(wd,)) as pool:
        fres = pool.map(S.finish_job, fjobs, chunksize=16)
        # configuration text -> dispatcher, with different capture_maxbytes / events / logfile on the two channels
        # ([program:x] parsed by the real ServerOptions; family shared with C07's check)
        import c07
        gjobs = [j for _f, j in c07.gen_config(chk, B, E) if j[4]['sections'][0]['stdout']['capture'] != '0'
                 or j[4]['sections'][0]['stderr']['capture'] != '0']
        if chk.tier == 'quick':
            gjobs = gjobs[::3]
        gres = pool.map(S.history_job, gjobs, chunksize=16)

    distinct = set()
    nruns = 0
    # ---- BoundIO alone
    bcases = []
    for (mb, chunks), (bufs, why) in zip(bjobs, bres):
        nruns += 1
        chk.dist('boundio:mb=%s' % (mb if mb <= 6 else 'large'))
        if why and len([1 for _p, nf in chk.violations if not nf]) < 5:
            chk.violation({'kind': 'the real BoundIO violates the capture-buffer law C08 relies on', 'why': why,
                           'maxbytes': mb, 'writes': [list(c) for c in chunks], 'buffer_after_each_write': [list(b) for b in bufs]},
                          name='boundio-%d-%s' % (mb, '-'.join(str(len(c)) for c in chunks)))
        distinct.add(('b', mb, tuple(len(b) for b in bufs)))
        bcases.append('(%s, %s, %s)' % (zlit(mb), frags_lit(chunks), frags_lit(bufs)))
    bad, errs = vlib.coq_compare(IMPORTS, 'Z * list bytes * list bytes', 'check_boundio', bcases, wd, tag='boundio', shard=800)
    for e in errs:
        chk.violation({'kind': 'model evaluation failed', 'part': 'boundio', 'error': e}, nofail=True)
    for i in bad[:5]:
        chk.violation({'kind': 'model of BoundIO.write and implementation disagree', 'maxbytes': bjobs[i][0],
                       'writes': [list(c) for c in bjobs[i][1]], 'buffer_after_each_write': [list(b) for b in bres[i][0]]},
                      nofail=not bres[i][1])
    # ---- strip_ansi with capture: the scanner sees the raw bytes
    tcases, tmeta = [], []
    nbad = 0
    for (script, cm, ch, lm), (tr, why) in zip(tjobs, tres):
        nruns += 1
        chk.dist('strip:cap=%d' % cm)
        job = ('strip', script, cm, ch, False, lm)
        if tr is None or why:
            nbad += 1
            if nbad <= 10:
                chk.violation({'kind': 'the implementation violates C08 with strip_ansi on (judged by the reference splitter '
                                       'on the raw stream)', 'why': why, 'strip_ansi': True, 'case': _jsonable_job(job)})
            continue
        tcases.append(exact_term(job, tr))
        tmeta.append((job, tr))
    bad, errs = vlib.coq_compare(IMPORTS, 'Z * bool * list rop * list Z', 'check_exact_strip', tcases, wd, tag='strip', shard=150)
    _report(chk, bad, errs, tmeta, tcases, 'strip')
    # ---- one delivery per section to every kind of subscriber
    for bad_list in pres:
        nruns += 1
        chk.dist('pools')
        for text in bad_list[:3]:
            chk.violation({'kind': 'a section does not reach event listener pools exactly once', 'why': text,
                           'how': 'real EventListenerPool objects subscribed through _subscribe() to every ordered selection of '
                                  '<= 3 event types; real dispatcher run with two sections (harness/c08_disp.py:pools_job)'})
    # ---- data arriving only at reap time, through the real Subprocess.finish()
    fcases, fmeta = [], []
    for (s, c, cap, nolog), (log, comm, fail) in zip(fjobs, fres):
        nruns += 1
        chk.dist('finish:cap=%d' % cap)
        frags = ([s[:c]] if c > 0 else []) + [s[c:]]
        desc = {'stream': list(s), 'read_before_exit': c, 'still_in_pipe_at_reap': len(s) - c, 'capture_maxbytes': cap,
                'stdout_logfile': 'NONE' if nolog else 'a file',
                'how': 'real Subprocess.spawn/finish on the fake kernel seam: write stream[:cut], read, write stream[cut:], '
                       'exit, reap'}
        if fail:
            chk.violation(dict(desc, kind='the implementation failed in Subprocess.finish()', why=fail))
            continue
        why = H.judge(s, {'log': log, 'comm': comm}, B, E, cap, haslog=not nolog)
        if why:
            if len([1 for _p, nf in chk.violations if not nf]) < 8:
                chk.violation(dict(desc, kind='the implementation violates C08 when the data is drained at reap time '
                                              '(judged by the reference splitter)', why=why, log=list(log),
                                   events=[list(x) for x in comm]))
            continue
        distinct.add(('f', len(log), tuple(len(x) for x in comm)))
        fcases.append('(%s, %s, %s, %s, %s)' % (zlit(cap), blit(not nolog), frags_lit(frags), vlib.bytes_lit(log), frags_lit(comm)))
        fmeta.append(desc)
    bad, errs = vlib.coq_compare(IMPORTS, 'Z * bool * list bytes * bytes * list bytes', 'check_final', fcases, wd, tag='finish', shard=300)
    for e in errs:
        chk.violation({'kind': 'model evaluation failed', 'part': 'finish', 'error': e}, nofail=True)
    for i in bad[:5]:
        chk.violation(dict(fmeta[i], kind='model and implementation disagree on a run through Subprocess.finish()'), nofail=True)
    # ---- capture configured from [program:x] text with different values on the two channels
    nconf = 0
    for job, (tr, fail, verdicts) in zip(gjobs, gres):
        nruns += 1
        chk.dist('config')
        wrong = [v for v in verdicts if v[2] != 'ansi-split']
        if (tr is None or wrong) and nconf < 10:
            nconf += 1
            chk.violation({'kind': 'capture configured in [program:x] text does not behave as configured on each channel',
                           'why': fail, 'channels': wrong, 'history': c07._json_job(job)})
    # ---- byte-level cuts around capture_maxbytes
    ccases = []
    for (s, cap, lm, stride), (total, n, badj) in zip(cjobs, cres):
        nruns += n
        chk.dist('cuts:cap=%d' % cap, n)
        for c1, c2, why in (badj[:2] if len(chk.violations) < 12 else []):
            chk.violation({'kind': 'the implementation violates C08 on this input (judged by the reference splitter)',
                           'why': why, 'case': _jsonable_job(('cuts', H.cut_frags(s, c1, c2), cap, 'stdout', False, lm))})
        distinct.add(('c', total))
        ccases.append('(%s, %s, %s, %d%%nat, %s)' % (vlib.bytes_lit(s), zlit(cap), blit(H.has_file(lm)), stride, zlit(total)))
    bad, errs = vlib.coq_compare(IMPORTS, 'bytes * Z * bool * nat * Z', 'check_cuts', ccases, wd, tag='cuts', shard=1)
    for e in errs:
        chk.violation({'kind': 'model evaluation failed', 'part': 'cuts', 'error': e}, nofail=True)
    if bad:
        H._worker_init(wd)
        loc, loc_meta = [], []
        s, cap, lm, stride = cjobs[bad[0]]
        for (c1, c2) in H.cut_pairs(len(s), stride)[:400]:
            job = ('cuts', H.cut_frags(s, c1, c2), cap, 'stdout', False, lm)
            tr, why, summ = H.exact_job(job[1:])
            if tr is not None:
                loc.append(exact_term(job, tr))
                loc_meta.append((job, tr))
        b2, errs = vlib.coq_compare(IMPORTS, 'Z * bool * list rop * list Z', 'check_exact', loc, wd, tag='cloc', shard=50)
        _report(chk, b2, errs, loc_meta, loc, 'cuts->exact')
        if not b2:
            chk.violation({'kind': 'checksum over the byte-level cuts differs but none of the first 400 runs does',
                           'stream': list(s), 'capture_maxbytes': cap}, nofail=True)
    # ---- level A
    plain, plain_meta, pl, pl_meta = [], [], [], []
    njudged = 0
    known_plog = 0
    for job, (tr, why, summ) in zip(ejobs, eres):
        chk.dist('exact:' + job[0])
        chk.dist('capmax:%s' % ('0' if job[2] == 0 else ('neg' if job[2] < 0 else ('small' if job[2] < 25 else 'large'))))
        nruns += 1
        if tr is None or (why and job[2] >= 0):
            njudged += 1
            if njudged <= 10:
                chk.violation({'kind': 'the implementation violates C08 on this input (judged by the reference splitter)',
                               'why': why, 'case': _jsonable_job(job)})
            continue
        chk.dist('log:' + LOGMODES[job[5]])
        if summ[1] or summ[3] or summ[0] < sum(len(f) for f in job[1] if isinstance(f, bytes)):
            distinct.add(summ[:4])
        if job[4]:
            if summ[4]:
                known_plog += 1
            pl.append(exact_term(job, tr, incap=True))
            pl_meta.append((job, tr))
        else:
            plain.append(exact_term(job, tr))
            plain_meta.append((job, tr))
    if njudged > 10:
        chk.note('%d exact runs violate C08 in all; the first 10 are kept as replays' % njudged)
    bad, errs = vlib.coq_compare(IMPORTS, 'Z * bool * list rop * list Z', 'check_exact', plain, wd, tag='exact', shard=150)
    _report(chk, bad, errs, plain_meta, plain, 'exact')
    bad, errs = vlib.coq_compare(IMPORTS, 'Z * bool * bool * list rop * list Z', 'check_exact_plog', pl, wd, tag='plog', shard=150)
    if bad and not errs:
        # acceptance rule for the known finding: the repaired behaviour (no
        # PROCESS_LOG event for captured data) is accepted as well
        retry = [exact_term(pl_meta[i][0], pl_meta[i][1], incap=False) for i in bad]
        bad2, errs = vlib.coq_compare(IMPORTS, 'Z * bool * bool * list rop * list Z', 'check_exact_plog', retry, wd,
                                      tag='plog2', shard=150)
        if len(bad2) < len(bad):
            chk.note('PROCESS_LOG events are no longer emitted for captured data on %d inputs (C08-proclog does not reproduce)'
                     % (len(bad) - len(bad2)))
        bad = [bad[i] for i in bad2]
    _report(chk, bad, errs, pl_meta, pl, 'plog')
    if known_plog:
        chk.known_finding('C08-proclog', 'with <channel>_events_enabled, PROCESS_LOG events are emitted for the bytes '
                                         'between the capture tags as well (documented: only outside capture mode); '
                                         '%d such runs explored, all agree with the model' % known_plog)
    # ---- level B
    scases, smeta = [], []
    njudged_b = 0
    for job, (total, n, badj) in zip(sjobs, sres):
        nruns += n
        chk.dist('sum:n=%d' % len(job[0]), n)
        for mask, why in (badj[:3] if njudged_b < 10 else []):
            njudged_b += 1
            fr = H.frag_syms(table, job[0], mask) + ([b''] if job[3] else [])
            chk.violation({'kind': 'the implementation violates C08 on this input (judged by the reference splitter)',
                           'why': why, 'case': _jsonable_job(('sum', fr, job[1], 'stdout', False, job[2]))})
        scases.append('(%s, %s, %s, %s, %s)' % (zlist(job[0]), zlit(job[1]), blit(H.has_file(job[2])), blit(job[3]), zlit(total)))
        smeta.append(job)
        distinct.add(('s', total))
    bad, errs = vlib.coq_compare(IMPORTS, 'list Z * Z * bool * bool * Z', 'check_sum', scases, wd, tag='sum', shard=600)
    for e in errs:
        chk.violation({'kind': 'model evaluation failed', 'part': 'sum', 'error': e}, nofail=True)
    if bad:
        # locate the fragmentation(s): rerun the stream exactly
        H._worker_init(wd)
        loc, loc_meta = [], []
        for i in bad[:5]:
            syms, cm, lm, eof = smeta[i]
            for mask in range(2 ** (len(syms) - 1)):
                fr = H.frag_syms(table, syms, mask) + ([b''] if eof else [])
                ch = 'stdout' if (mask + len(syms)) % 2 == 0 else 'stderr'
                job = ('sum', fr, cm, ch, False, lm)
                tr, why, summ = H.exact_job(job[1:])
                if tr is not None:
                    loc.append(exact_term(job, tr))
                    loc_meta.append((job, tr))
        b2, errs = vlib.coq_compare(IMPORTS, 'Z * bool * list rop * list Z', 'check_exact', loc, wd, tag='loc', shard=150)
        _report(chk, b2, errs, loc_meta, loc, 'sum->exact')
        if not b2:
            chk.violation({'kind': 'checksum over all fragmentations differs but no single run does',
                           'streams': [smeta[i] for i in bad[:5]]}, nofail=True)
    if not proved:
        chk.violation({'kind': 'proof obligation no longer checks', 'detail': chk.proof_failure,
                       'file': 'coq/props/C08.v'}, nofail=not chk.violations)
    cov = chk.coverage
    cov['evaluations'] = nruns
    cov['traces_validated_against_impl'] = nruns
    cov['distinct_nontrivial'] = len(distinct)
    cov['exhaustive'] = True
    cov['rule'] = ('one evaluation = one run of the real POutputDispatcher (reads then final flush) compared with the model '
                   'after every read; exhaustive: every fragmentation at symbol boundaries of every stream of n symbols over '
                   '{BEGIN, END, BEGIN-prefix, BEGIN-suffix, common prefix, END-suffix, "a", 0xFF} for n <= %d '
                   '(n<=3 exact traces, n>=4 by checksum over all fragmentations; quick tier: every second 5-symbol stream, without 0xFF), every byte-level single cut and double cut of '
                   'canonical streams, capture_maxbytes in %r and -1; the real BoundIO alone on every sequence of <= 4 writes with '
                   'sizes {0,1,mb-1,mb,mb+1,2mb} for mb in 1..6 (+ larger bounds, random); sections of length cap-1, cap, cap+1, 2cap '
                   'for cap in {8,30,40,100} behind a flushing prefix with every 2-read split and 3-read splits at multiples of 7; '
                   'reopenlogs()/removelogs() before, between and after the reads at every cut of a stream with a section and a '
                   'trailing tag prefix; the ordinary log configured as a file / NONE / a rotating handler that never rolls / syslog '
                   'only / file and syslog across all families (NONE also in the checksum, cut and finish families); '
                   'strip_ansi on with escape sequences (complete, unterminated, final byte in/outside the terminator table, bare ESC [, '
                   'lone ESC) before/inside/after the tags; real EventListenerPool objects subscribed to every ordered selection of '
                   '<= 3 event types receive each section event exactly once; '
                   '[program:x] text with different capture_maxbytes/events/logfile on stdout and stderr parsed by the real '
                   'ServerOptions and run (judged per channel); '
                   'every cut point of 8 streams with 0-2 sections where the part after the cut is still in the pipe at reap, through '
                   'the real Subprocess.finish() on the fake kernel seam; '
                   'distinct_nontrivial = distinct (log length, events, event '
                   'lengths, mode) outcomes of exact runs in which a tag was recognised, plus distinct stream checksums'
                   % (5 if chk.tier == 'quick' else 6, CAPS))
    cov['samples'] = [_jsonable_job(j) for j in (ejobs[5], ejobs[len(ejobs) // 2], ejobs[-1])]


def _report(chk, bad, errs, meta, cases, part):
    import c08_disp as H
    for e in errs:
        chk.violation({'kind': 'model evaluation failed', 'part': part, 'error': e}, nofail=True)
    for i in bad[:5]:
        job, tr = meta[i]
        chk.violation({'kind': 'model and implementation disagree', 'part': part, 'case': _jsonable_job(job),
                       'implementation_trace': tr, 'coq_case': cases[i][:3000],
                       'explanation': 'the Coq model of the dispatcher (about which the C08 theorems are proved) behaves '
                                      'differently from the implementation on this input; the run itself satisfies the '
                                      'reference splitter, so no failing input for the property is known'},
                      nofail=True)


def _load_corpus():
    out = []
    d = os.path.join(vlib.VERIF, 'corpus', 'C08')
    if os.path.isdir(d):
        for f in sorted(os.listdir(d)):
            if f.endswith('.json'):
                with open(os.path.join(d, f)) as fh:
                    o = json.load(fh)
                for c in o.get('cases', []):
                    out.append(_job_from_json(c, 'corpus'))
    return out


def replay(chk, path):
    """Re-run the single case stored in a replay file against the real code and the model."""
    import c08_disp as H
    with open(path) as f:
        obj = json.load(f)
    print(json.dumps(obj, indent=1)[:3000])
    proved = chk.prove('props/C08.v', gens=_gens(), extra_targets=['C08/StreamCheck.vo'])
    c = obj.get('case')
    if not c or ('frags' not in c and 'script' not in c):
        return run(chk)
    job = _job_from_json(c)
    with vlib.WorkDir('c08r') as wd:
        H._worker_init(wd)
        B, E = H._TOK
        tr, why, summ = H.exact_job(job[1:])
        print('implementation trace:', tr)
        print('reference splitter verdict:', why or 'ok')
        if tr is None or (why and job[2] >= 0):
            chk.violation({'kind': 'the implementation violates C08 on this input', 'why': why, 'case': _jsonable_job(job)})
            return
        if job[4]:
            terms = [exact_term(job, tr, incap=True), exact_term(job, tr, incap=False)]
            bad, errs = vlib.coq_compare(IMPORTS, 'Z * bool * bool * list rop * list Z', 'check_exact_plog', terms, wd, tag='rp')
            bad = [0] if len(bad) == 2 else []
        else:
            terms = [exact_term(job, tr)]
            bad, errs = vlib.coq_compare(IMPORTS, 'Z * bool * list rop * list Z', 'check_exact', terms, wd, tag='rp')
        _report(chk, bad, errs, [(job, tr)], terms, 'replay')
        if not proved:
            chk.violation({'kind': 'proof obligation no longer checks', 'detail': chk.proof_failure}, nofail=True)
