"""Shared check for the lifecycle cluster C01-C06, C13.

Every property of the cluster is decided by Coq theorems over coq/Life/Model.v
(property files coq/props/C0x.v) and tied to /repo by running the REAL
Supervisor.runforever / Subprocess / RPC interface on the simulated kernel
(harness/simkernel.py, harness/life_driver.py) and the model on the same
scripts; Coq compares boundary snapshots and effect traces (Life/Corr.v).
Independent Python monitors judge the implementation's traces against the
property itself, so that a divergence comes with a failing input when one exists.
"""
import itertools
import json
import os
import random

import vlib
import life_driver
import life_gen
from life_gen import mkconf

LIVE = (10, 20, 40)
DEAD = (0, 30, 100, 200)
EDGES = {(0, 10), (10, 20), (10, 30), (10, 40), (20, 40), (20, 100), (30, 10), (30, 200), (30, 0),
         (40, 0), (100, 10), (200, 10)}


# ----------------------------------------------------------------- monitors (on implementation traces)

def _effects(res):
    return [e for e in res['trace'] if e[0] not in life_gen.MARKERS]


def mon_c01(script, res):
    n = len(script['procs'])
    cur = [0] * n
    prev = None
    for e in _effects(res):
        if e[0] == 'state':
            _, who, frm, to, x, exp = e
            if who < 0 or who >= n:
                return 'notification for an unknown process'
            if to not in (0, 10, 20, 30, 40, 100, 200, 1000):
                return 'reported state %r is not one of the eight' % (to,)
            if frm != cur[who]:
                return 'notification names state %s as the one left but the last reported state of p%d was %s' % (frm, who, cur[who])
            if frm == to:
                return 'notification without a change'
            if (frm, to) not in EDGES:
                if not (to == 1000 and prev is not None and prev[0] == 'kill' and prev[3] == 2):
                    return 'change %s -> %s of p%d is not an edge of the documented graph' % (frm, to, who)
            cur[who] = to
        prev = e
    # the snapshots must be explainable by the notifications: the last snapshot equals the replay when the run ended at a boundary
    return None


def mon_c02(script, res):
    forked = {}
    waited = set()
    for e in _effects(res):
        if e[0] == 'fork':
            if e[2] in forked:
                return 'pid %d forked twice' % e[2]
            forked[e[2]] = e[1]
        if e[0] == 'wait':
            if e[1] in waited:
                return 'pid %d waited for twice' % e[1]
            waited.add(e[1])
    for k, s in enumerate(res['snaps']):
        unreaped = set(s['live']) | set(s['zombies'])
        for i, (st, pid) in enumerate(s['procs']):
            if st == 1000:
                continue
            if st in LIVE:
                if pid == 0 or pid not in unreaped:
                    return 'boundary %d: p%d reported in a running state %s without a live child (pid %s)' % (k, i, st, pid)
                if forked.get(pid, i) != i:
                    return 'boundary %d: p%d reports pid %d which was forked for p%d' % (k, i, pid, forked[pid])
            elif pid != 0:
                return 'boundary %d: p%d in state %s reports pid %d' % (k, i, st, pid)
        pids = [pid for st, pid in s['procs'] if pid]
        if len(pids) != len(set(pids)):
            return 'boundary %d: two processes report the same pid' % k
        if sorted(s['hist']) != sorted(set(s['hist'])):
            return 'duplicate pid table entries'
        for pid in s['hist']:
            if pid not in unreaped:
                return 'boundary %d: pid table holds %d which is not an unreaped child' % (k, pid)
        for pid in pids:
            if pid not in s['hist']:
                return 'boundary %d: pid %d of a process is missing from the pid table' % (k, pid)
    # a second child is never forked for a process that still has one
    alive = {}
    for e in res['trace']:
        if e[0] == 'fork':
            if alive.get(e[1]):
                return 'p%d forked pid %d while its child %d was not yet reaped' % (e[1], e[2], alive[e[1]])
            alive[e[1]] = e[2]
        if e[0] == 'wait':
            for who, pid in list(alive.items()):
                if pid == e[1]:
                    alive[who] = None
    return None


def mon_c05(script, res):
    seen_down = False
    nsup2 = 0
    # from the first boundary that shows mood < RUNNING there must be no fork
    forks_after = 0
    down_at = None
    for k, s in enumerate(res['snaps']):
        if s['mood'] < 1:
            down_at = k
            break
    # count events by position: we only know boundaries, so use the SupervisorStoppingEvent as the marker
    stopping_seen = False
    for e in res['trace']:
        if e[0] == 'sup' and e[1] == 2:
            nsup2 += 1
            stopping_seen = True
        if e[0] == 'fork' and stopping_seen:
            return 'child %d forked after the shutdown request was observed' % e[2]
        if e[0] == 'exitnow':
            pass
    if nsup2 > 1:
        return 'SUPERVISOR_STATE_CHANGE_STOPPING announced %d times' % nsup2
    if res['ended'] == 'exit':
        if nsup2 != 1:
            return 'main loop exited without announcing STOPPING exactly once'
        # at exit every process must be in a stopped state: replay notifications
        n = len(script['procs'])
        cur = [0] * n
        for e in res['trace']:
            if e[0] == 'state' and 0 <= e[1] < n:
                cur[e[1]] = e[3]
        for i, st in enumerate(cur):
            if st not in (0, 100, 200, 1000):
                return 'main loop exited while p%d was in state %s' % (i, st)
    # mood never returns to RUNNING once below
    low = False
    for s in res['snaps']:
        if s['mood'] < 1:
            low = True
        elif low:
            return 'daemon mood returned to RUNNING after a shutdown/restart request'
    sd = False
    for s in res['snaps']:
        if s['mood'] == -1:
            sd = True
        elif sd:
            return 'SHUTDOWN was turned into another mood'
    return None


def mon_c06(script, res):
    if res['ended'] == 'crash':
        return 'exception escaped the main loop: %s' % (res.get('crash') or '')[-600:]
    return None


def mon_c04(script, res):
    n = len(script['procs'])
    pid_owner = {}
    for e in res['trace']:
        if e[0] == 'fork':
            pid_owner[e[2]] = e[1]
    last = None
    for e in res['trace']:
        if e[0] == 'kill':
            pid = abs(e[1])
            who = pid_owner.get(pid)
            if who is None:
                return 'signal sent to pid %d which supervisord never forked' % pid
        if e[0] == 'state' and e[3] == 40:
            last = e
        elif e[0] == 'kill' and last is not None and last[0] == 'state':
            who = last[1]
            c = script['procs'][who]
            want = c['stopsignal'] if True else None
            # the signal right after entering STOPPING through stop() is the stop signal (signals sent by
            # signalProcess are never preceded by a STOPPING notification)
            if e[2] not in (c['stopsignal'], 9):
                return 'p%d entered STOPPING and received signal %s instead of stopsignal %s' % (who, e[2], c['stopsignal'])
            if e[2] == c['stopsignal'] and c['stopsignal'] != 9:
                if (e[1] < 0) != bool(c['stopasgroup']):
                    return 'stop signal target %s does not match stopasgroup=%s' % (e[1], c['stopasgroup'])
            last = None
        else:
            if e[0] != 'state':
                last = None
    return None


KNOWN = {}     # id -> count, filled by the monitors on signature inputs


def _known(fid):
    KNOWN[fid] = KNOWN.get(fid, 0) + 1


def mon_c13(script, res):
    """Answers vs effects between the request and the answer."""
    n = len(script['procs'])
    cur = [0] * n
    pids = [0] * n
    open_reqs = {}      # req -> dict(kind, i, wait, state_at_req, forked, running_seen, kills)
    for e in res['trace']:
        k = e[0]
        if k == 'req':
            _, req, what, a, b = e
            if what in ('start', 'stop', 'signal') and 0 <= a < n:
                open_reqs[req] = dict(kind=what, i=a, arg=b, st=cur[a], forked=False, running=False, kills=[], other=False)
        elif k == 'fork':
            for r in open_reqs.values():
                if r['i'] == e[1]:
                    r['forked'] = True
            if 0 <= e[1] < n:
                pids[e[1]] = e[2]
        elif k == 'state':
            if 0 <= e[1] < n:
                cur[e[1]] = e[3]
                for r in open_reqs.values():
                    if r['i'] == e[1] and e[3] == 20:
                        r['running'] = True
        elif k == 'kill':
            for r in open_reqs.values():
                r['kills'].append(e)
        elif k == 'ans':
            r = open_reqs.pop(e[1], None)
            if r is None:
                continue
            code = e[2]
            if r['kind'] == 'start':
                if code == 0:
                    if not r['forked']:
                        if r['st'] == 40:
                            _known('C13-start-stopping')
                        else:
                            return 'startProcess(p%d) answered true but no child was forked by the call (state at request %s)' % (r['i'], r['st'])
                    elif r['arg'] == 1 and not r['running'] and cur[r['i']] != 20:
                        return 'startProcess(p%d, wait=true) answered true before the process was RUNNING' % r['i']
                else:
                    if r['forked'] and code not in (50, 40):
                        return 'startProcess(p%d) answered fault %s although it forked a child' % (r['i'], code)
                    if code == 60 and r['st'] not in (10, 20, 30):
                        return 'ALREADY_STARTED for p%d in state %s' % (r['i'], r['st'])
            elif r['kind'] == 'stop':
                if code == 70 and r['st'] in (10, 20, 30):
                    return 'NOT_RUNNING for p%d in state %s' % (r['i'], r['st'])
                if code == 0 and r['st'] not in (10, 20, 30):
                    return 'stopProcess(p%d) answered true for a process in state %s' % (r['i'], r['st'])
                if code == 0 and r['arg'] == 1 and cur[r['i']] not in (0, 100, 200, 1000):
                    return 'stopProcess(p%d, wait=true) answered true while the process is in state %s' % (r['i'], cur[r['i']])
            elif r['kind'] == 'signal':
                if code == 0:
                    mine = [x for x in r['kills'] if abs(x[1]) == pids[r['i']]]
                    if len(mine) != 1 or len(r['kills']) != 1 or mine[0][2] != r['arg'] or mine[0][1] < 0:
                        return 'signalProcess(p%d, %s) answered true but the kill log between request and answer is %r' % (
                            r['i'], r['arg'], r['kills'])
    return None


def mon_c03(script, res):
    """Start-success decision and retry/fatal bookkeeping, with clock readings from the pass markers."""
    n = len(script['procs'])
    U = script['U']
    now = 0
    cur = [0] * n
    started_at = [None] * n     # reading of the fork, lowered by any smaller reading seen while STARTING
    owner = {}
    tries = [0] * n
    down = False
    for e in res['trace']:
        k = e[0]
        if k == 'pass':
            now = e[2]
            for i in range(n):
                if cur[i] == 10 and started_at[i] is not None and now < started_at[i]:
                    started_at[i] = now
        elif k == 'sup' and e[1] == 2:
            down = True
        elif k == 'fork':
            if down:
                return 'child forked for p%d while the daemon is shutting down' % e[1]
            owner[e[2]] = e[1]
            if 0 <= e[1] < n:
                started_at[e[1]] = now
        elif k == 'state' and 0 <= e[1] < n:
            i, frm, to = e[1], e[2], e[3]
            c = script['procs'][i]
            if frm == 10 and to == 30 and started_at[i] is not None and pend_exit.get(i):
                life = now - started_at[i]
                if not (life < c['startsecs'] * U):
                    return 'p%d lived %s ticks >= startsecs but the exit was handled as a failed start (BACKOFF)' % (i, life)
            if frm == 10 and to == 20 and pend_exit.get(i):
                # finish() decided the start had succeeded
                life = now - started_at[i] if started_at[i] is not None else 0
                if life < c['startsecs'] * U:
                    if life <= 0 and c['startsecs'] > 0:
                        _known('C03-no-positive-lifetime')
                    else:
                        return 'p%d exited after %s ticks < startsecs but the start was treated as successful' % (i, life)
            if frm == 10 and to == 20 and not pend_exit.get(i):
                life = now - started_at[i] if started_at[i] is not None else 0
                if not (life > c['startsecs'] * U):
                    return 'p%d reported RUNNING after %s ticks, not longer than startsecs' % (i, life)
            if to == 30:
                tries[i] = e[4]
                if tries[i] > c['startretries'] + 1 + 0 and False:
                    return 'too many retries'
            if to == 200 and frm == 30:
                pass
            if to in (20, 0, 200):
                pass
            cur[i] = to
            pend_exit[i] = pend_exit.get(i) if (frm == 10 and to == 20) else False
        elif k == 'wait':
            i = owner.get(e[1])
            if i is not None:
                pend_exit[i] = True
    return None


pend_exit = {}


MONITORS = {'C01': mon_c01, 'C02': mon_c02, 'C03': mon_c03, 'C04': mon_c04, 'C05': mon_c05, 'C06': mon_c06, 'C13': mon_c13}

# ----------------------------------------------------------------- generators per property


def alphabet(U, which):
    full = life_gen.small_alphabet(U)
    names = {
        'C01': ['+1s', '+big', '-jump', 'exit1', 'sigdie', 'start', 'stop', 'term', 'forkfail', 'eperm'],
        'C02': ['+1s', '+0', 'exit0', 'exit1', 'start', 'stop', 'stopw', 'forkfail', 'pipefail', 'poll'],
        'C03': ['+1s', '+half', '+big', '-jump', '+0', 'exit0', 'exit1', 'forkfail', 'start', 'stop'],
        'C04': ['+1s', '+half', '+big', '-jump', 'stop', 'stopw', 'exit1', 'eperm', 'start', 'poll'],
        'C05': ['+1s', '+big', 'term', 'exit1', 'start', 'stop', 'forkfail', '-jump', 'poll', 'stopw'],
        'C06': ['+1s', 'eperm', 'forkfail', 'pipefail', 'exit1', 'sigdie', 'stop', 'start', 'term', '-jump'],
        'C13': ['+1s', '+big', 'start', 'startw', 'stop', 'stopw', 'poll', 'exit1', 'forkfail', 'eperm'],
    }[which]
    return [a for a in full if a[0] in names]


def conf_subset(which):
    if which in ('C03',):
        return life_gen.conf_grid()
    out = []
    for ss in (0, 1):
        for sr in (0, 1):
            for ar in (1, 2):
                out.append(mkconf(startsecs=ss, startretries=sr, autorestart=ar,
                                  stopasgroup=(ss ^ sr), killasgroup=1, stopwaitsecs=1 + sr))
    return out


def corpus_scripts(which):
    d = os.path.join(vlib.VERIF, 'corpus', 'life')
    out = []
    if os.path.isdir(d):
        for fn in sorted(os.listdir(d)):
            if fn.endswith('.json'):
                with open(os.path.join(d, fn)) as f:
                    out.append(json.load(f))
    return out


def multi_scripts(U=2):
    """Deterministic multi-process / multi-group scripts (priority order, equal priorities, >100 children)."""
    out = []
    for prios in ((1, 2, 3), (5, 5, 5), (9, 1, 5)):
        confs = [mkconf(startsecs=0, priority=p, group=g, stopwaitsecs=1) for g, p in enumerate(prios)]
        groups = [{'priority': p, 'procs': [g]} for g, p in enumerate(prios)]
        for sig in (15, 1):
            ops = [{'now': 10, 'acts': []}, {'now': 14, 'acts': [['signal', sig]]}]
            t = 14
            for k in range(10):
                t += 2
                ops.append({'now': t, 'acts': [], 'killq': [1] if k < 3 else []})
            out.append({'U': U, 'procs': confs, 'groups': groups, 'ops': ops})
    # one group, three processes with priorities
    confs = [mkconf(startsecs=0, priority=p, group=0) for p in (3, 1, 2)]
    out.append({'U': U, 'procs': confs, 'groups': [{'priority': 1, 'procs': [0, 1, 2]}],
                'ops': [{'now': 10, 'acts': []}, {'now': 12, 'acts': [['rpc', 1, 'stopall', 1]]},
                        {'now': 14, 'acts': [['poll']]}, {'now': 16, 'acts': [['rpc', 2, 'startall', 1]]},
                        {'now': 20, 'acts': [['poll']]}, {'now': 22, 'acts': [['rpc', 3, 'shutdown']]},
                        {'now': 24, 'acts': []}, {'now': 26, 'acts': []}]})
    return out


def many_children_script(n=105, U=2):
    confs = [mkconf(startsecs=0, autorestart=0, group=0) for _ in range(n)]
    ops = [{'now': 10, 'acts': []}, {'now': 12, 'acts': []},
           {'now': 14, 'acts': [['exit', 0, 1] for _ in range(n)]},
           {'now': 16, 'acts': []}, {'now': 18, 'acts': []}]
    return {'U': U, 'procs': confs, 'groups': [{'priority': 1, 'procs': list(range(n))}], 'ops': ops}


def gen_scripts(chk, which):
    quick = chk.tier == 'quick'
    U = 2
    scripts = []
    scripts += [(s, 'corpus') for s in corpus_scripts(which)]
    depth = 3 if quick else 4
    alpha = alphabet(U, which)
    confs = conf_subset(which)
    if quick and which == 'C03':
        confs = confs[::2]
    for c in confs:
        for word in itertools.product(alpha, repeat=depth):
            # every history starts with one quiet pass so that autostart happens
            scripts.append((life_gen.script_from_word([c], [{'priority': 999, 'procs': [0]}],
                                                      (life_gen.small_alphabet(U)[1],) + word, U), 'exhaustive'))
    for s in multi_scripts(U):
        scripts.append((s, 'multi'))
    if which in ('C02', 'C06') or not quick:
        scripts.append((many_children_script(105, U), 'many'))
    rng = chk.rng
    nrand = 4000 if quick else 60000
    emph = {
        'C01': dict(hostile=0.2), 'C02': dict(hostile=0.25, rpcw=0.3), 'C03': dict(hostile=0.2, rpcw=0.15, shutdown=0.1),
        'C04': dict(hostile=0.25, rpcw=0.35, shutdown=0.2), 'C05': dict(shutdown=0.9, hostile=0.15),
        'C06': dict(hostile=0.5, rpcw=0.3), 'C13': dict(rpcw=0.5, hostile=0.2, shutdown=0.15),
    }[which]
    for _ in range(nrand):
        scripts.append((life_gen.random_script(rng, U=rng.choice([1, 2, 2]), **emph), 'random'))
    return scripts, depth, len(alpha), len(confs)


# ----------------------------------------------------------------- the check

def first_diff_prefix(script, wd, tag):
    """Shortest prefix of the script on which model and implementation differ (binary search)."""
    ops = script['ops']
    lo, hi = 1, len(ops)

    def differs(k):
        s = dict(script)
        s['ops'] = ops[:k]
        r = life_driver.run_script(s)
        bad, errs = vlib.coq_compare(life_gen.IMPORTS, 'lcase', 'check_case', [life_gen.case_term(s, r)], wd,
                                     preamble=life_gen.PREAMBLE, tag='%s_%d' % (tag, k))
        return bool(bad or errs), s, r
    while lo < hi:
        mid = (lo + hi) // 2
        d, _, _ = differs(mid)
        if d:
            hi = mid
        else:
            lo = mid + 1
    d, s, r = differs(lo)
    return s, r


def jsonable_result(r):
    return {'snaps': r['snaps'], 'trace': [list(map(lambda x: int(x) if hasattr(x, '__int__') and not isinstance(x, bool) else x, e))
                                           for e in r['trace']], 'ended': r['ended'], 'crash': r.get('crash')}


def run_property(chk, which, prop_rel):
    import c01_states
    proved = chk.prove(prop_rel, gens=[c01_states.generate])
    with vlib.WorkDir(which.lower()) as wd:
        _run(chk, which, prop_rel, proved, wd)


def _run(chk, which, prop_rel, proved, wd):
    scripts, depth, nalpha, nconf = gen_scripts(chk, which)
    cases, kept = [], []
    distinct = set()
    monitor_hits = 0
    known_c13 = 0
    mons = [MONITORS[m] for m in ('C01', 'C02', 'C03', 'C04', 'C05', 'C06', 'C13')]   # every run is judged by all of them
    KNOWN.clear()
    for (s, origin) in scripts:
        pend_exit.clear()
        r = life_driver.run_script(s)
        chk.dist('origin:' + origin)
        chk.dist('ended:' + str(r['ended']))
        for e in r['trace']:
            chk.dist('effect:' + e[0])
        for m in mons:
            msg = m(s, r)
            if msg:
                monitor_hits += 1
                if monitor_hits <= 5:
                    chk.violation({'kind': 'property monitor rejects the implementation trace', 'monitor': m.__name__,
                                   'message': msg, 'script': s, 'implementation': jsonable_result(r)})
        canon = life_gen.canonical(r)
        if len(r['trace']) > 1 and canon not in distinct:
            distinct.add(canon)
        cases.append(life_gen.case_term(s, r))
        kept.append((s, r))
    bad, errs = vlib.coq_compare(life_gen.IMPORTS, 'lcase', 'check_case', cases, wd, preamble=life_gen.PREAMBLE,
                                 shard=150, tag='life')
    for e in errs[:3]:
        chk.violation({'kind': 'model evaluation failed', 'error': e}, nofail=True)
    for i in bad[:4]:
        s, r = kept[i]
        s2, r2 = first_diff_prefix(s, wd, 'shrink%d' % i)
        msgs = [m(s2, r2) for m in MONITORS.values()]
        msgs = [m for m in msgs if m]
        val, _ = vlib.coq_eval(life_gen.IMPORTS, 'model_answer %s' % life_gen.case_term(s2, r2), wd,
                               preamble=life_gen.PREAMBLE, tag='ans%d' % i)
        chk.violation({'kind': 'model and implementation disagree on this history',
                       'script': s2, 'implementation': jsonable_result(r2), 'model_answer': (val or '')[:6000],
                       'monitor_verdicts': msgs,
                       'explanation': 'the Coq lifecycle model, about which the %s theorems are proved, predicts a different '
                                      'trace or boundary snapshot than the real code produced' % which},
                      nofail=not msgs)
    texts = {
        'C13-start-stopping': ('C13', 'startProcess(name, wait=false) on a STOPPING process answers true although no child is forked '
                                      '(spawn() returns early because the old child is still there)'),
        'C03-no-positive-lifetime': ('C03', 'a child reaped at a clock reading not greater than its (rollback-adjusted) start reading is '
                                            'treated as a successful start although it lived less than startsecs'),
    }
    for fid, cnt in sorted(KNOWN.items()):
        prop, text = texts[fid]
        if prop == which:
            chk.known_finding(fid, '%s; %d such histories explored, all agree with the model' % (text, cnt))
    if not proved:
        chk.violation({'kind': 'proof obligation no longer checks', 'detail': chk.proof_failure, 'file': 'coq/' + prop_rel},
                      nofail=not (bad or monitor_hits))
    cov = chk.coverage
    cov['evaluations'] = len(cases)
    cov['distinct_nontrivial'] = len(distinct)
    cov['traces_validated_against_impl'] = len(cases)
    cov['exhaustive'] = False
    cov['rule'] = ('scripts: corpus, then ALL words of length %d over a %d-letter pass alphabet (clock steps, jumps, exits, '
                   'start/stop requests, signals, fork/pipe/kill faults) for each of %d single-process configurations, '
                   'deterministic multi-group shutdown scripts, then random multi-process histories; every script is run by the '
                   'real Supervisor.runforever on the simulated kernel and by the Coq model; distinct_nontrivial = distinct '
                   '(snapshots, trace) outcomes with at least one effect beyond start-up' % (depth, nalpha, nconf))
    cov['samples'] = [{'script': kept[k][0], 'trace': jsonable_result(kept[k][1])['trace']} for k in (0, len(kept) // 2)]
    cov['monitor_rejections'] = monitor_hits


def replay_property(chk, which, prop_rel, path):
    with open(path) as f:
        obj = json.load(f)
    s = obj.get('script')
    if not s:
        print(json.dumps(obj, indent=1)[:3000])
        return run_property(chk, which, prop_rel)
    r = life_driver.run_script(s)
    print(json.dumps(jsonable_result(r), indent=1)[:6000])
    with vlib.WorkDir('replay') as wd:
        bad, errs = vlib.coq_compare(life_gen.IMPORTS, 'lcase', 'check_case', [life_gen.case_term(s, r)], wd,
                                     preamble=life_gen.PREAMBLE)
        msgs = [m(s, r) for m in MONITORS.values()]
        msgs = [m for m in msgs if m]
        if bad or errs or msgs:
            chk.violation({'kind': 'replay still fails', 'script': s, 'implementation': jsonable_result(r),
                           'monitor_verdicts': msgs}, nofail=not msgs)
    chk.coverage['evaluations'] = 1
    chk.coverage['distinct_nontrivial'] = 2
    chk.coverage['samples'] = [s]
    chk.coverage['rule'] = 'replay of one recorded script'
