"""Shared check for the lifecycle cluster C01-C06, C13.

Every property of the cluster is decided by Coq theorems over coq/Life/Model.v
(property files coq/props/C0x.v) and tied to /repo by running the REAL
Supervisor.runforever / Subprocess / RPC interface on the simulated kernel
(harness/simkernel.py, harness/life_driver.py) and the model on the same
scripts; Coq compares boundary snapshots and effect traces (Life/Corr.v).
Independent Python monitors judge the implementation's traces against the
property itself, so that a divergence comes with a failing input when one exists.
"""
import itertools
import json
import os
import random

import vlib
import life_driver
import life_gen
from life_gen import mkconf

LIVE = (10, 20, 40)
DEAD = (0, 30, 100, 200)
EDGES = {(0, 10), (10, 20), (10, 30), (10, 40), (20, 40), (20, 100), (30, 10), (30, 200), (30, 0),
         (40, 0), (100, 10), (200, 10)}


# ----------------------------------------------------------------- monitors (on implementation traces)

def _effects(res):
    return [e for e in res['trace'] if e[0] not in life_gen.MARKERS]


LISTENER_CONF = dict(startsecs=0, startretries=3, stopwaitsecs=1, stopsignal=15, priority=999, autostart=1, autorestart=2,
                     exitcodes=[0], stopasgroup=0, killasgroup=0, cmd=0)


def with_listeners(script):
    """The script seen by the per-process monitors with the listener processes of its pools appended as ordinary
    processes (harness/life_driver.py gives them the indices len(procs)..; their configuration is fixed there)."""
    if not script.get('pools'):
        return script
    ext = dict(script)
    procs = list(script['procs'])
    for k, pl in enumerate(script['pools']):
        for _ in range(pl.get('procs', 1)):
            c = dict(LISTENER_CONF)
            c['group'] = len(script['groups']) + k
            procs.append(c)
    ext['procs'] = procs
    ext['groups'] = list(script['groups']) + [{'priority': pl.get('priority', 1), 'procs': []} for pl in script['pools']]
    ext['pools'] = []
    return ext


def mon_c01(script, res):
    n = len(script['procs']) + sum(p.get('procs', 1) for p in script.get('pools', []))
    cur = [0] * n
    prev = None
    for e in _effects(res):
        if e[0] == 'life':         # the daemon was restarted in process: every process object is new (STOPPED)
            cur = [0] * n
        if e[0] == 'state':
            _, who, frm, to, x, exp = e
            if who < 0 or who >= n:
                return 'notification for an unknown process'
            if to not in (0, 10, 20, 30, 40, 100, 200, 1000):
                return 'reported state %r is not one of the eight' % (to,)
            if frm != cur[who]:
                return 'notification names state %s as the one left but the last reported state of p%d was %s' % (frm, who, cur[who])
            if frm == to:
                return 'notification without a change'
            if (frm, to) not in EDGES:
                if not (to == 1000 and prev is not None and prev[0] == 'kill' and prev[3] == 2):
                    return 'change %s -> %s of p%d is not an edge of the documented graph' % (frm, to, who)
            cur[who] = to
        prev = e
    # what the API reports at every boundary: one of the eight states, under its documented name, the state the
    # process object is in (and, for C02, its pid)
    msg = _api_view(script, res)
    if msg:
        return msg
    return None


STATE_NAMES = {0: 'STOPPED', 10: 'STARTING', 20: 'RUNNING', 30: 'BACKOFF', 40: 'STOPPING', 100: 'EXITED', 200: 'FATAL',
               1000: 'UNKNOWN'}


def _api_view(script, res, pids=False):
    np_ = len(script['procs'])
    for k, s in enumerate(res['snaps']):
        api = s.get('api')
        if api is None:
            continue
        if api and api[0] == 'error':
            return 'boundary %d: supervisor.getAllProcessInfo raised %s' % (k, api[1])
        if api and api[0] == 'fault':
            if s['mood'] >= 1:
                return 'boundary %d: supervisor.getAllProcessInfo answered fault %s while the daemon is RUNNING' % (k, api[1])
            continue
        seen = set()
        for (group, name, state, statename, pid) in api:
            if state not in STATE_NAMES:
                return 'boundary %d: the API reports %s:%s in state %r, which is not one of the eight' % (k, group, name, state)
            if statename != STATE_NAMES[state]:
                return 'boundary %d: the API reports %s:%s state %s under the name %r' % (k, group, name, state, statename)
            if name[:1] == 'p' and name[1:].isdigit():
                i = int(name[1:])
            else:
                continue
            seen.add(i)
            if i >= len(s['procs']):
                continue
            st, pd = s['procs'][i]
            if state != st:
                return 'boundary %d: the API reports p%d as %s while the process is in state %s' % (k, i, statename, st)
            if pids and pid != pd:
                return 'boundary %d: the API reports pid %s for p%d whose pid is %s' % (k, pid, i, pd)
    return None


def mon_c02(script, res):
    msg = _api_view(script, res, pids=True)
    if msg:
        return msg
    forked = {}
    waited = set()
    for e in _effects(res):
        if e[0] == 'fork':
            if e[2] in forked:
                return 'pid %d forked twice' % e[2]
            forked[e[2]] = e[1]
        if e[0] == 'recycled':       # the kernel gave this pid number to a child supervisord did not fork
            waited.discard(e[1])
            forked.pop(e[1], None)
        if e[0] == 'wait':
            if e[1] in waited:
                return 'pid %d waited for twice' % e[1]
            waited.add(e[1])
    for k, s in enumerate(res['snaps']):
        unreaped = set(s['live']) | set(s['zombies'])
        for i, (st, pid) in enumerate(s['procs']):
            if st == 1000:
                continue
            if st in LIVE:
                if pid == 0 or pid not in unreaped:
                    return 'boundary %d: p%d reported in a running state %s without a live child (pid %s)' % (k, i, st, pid)
                if forked.get(pid, i) != i:
                    return 'boundary %d: p%d reports pid %d which was forked for p%d' % (k, i, pid, forked[pid])
            elif pid != 0:
                return 'boundary %d: p%d in state %s reports pid %d' % (k, i, st, pid)
        pids = [pid for st, pid in s['procs'] if pid]
        if len(pids) != len(set(pids)):
            return 'boundary %d: two processes report the same pid' % k
        if sorted(s['hist']) != sorted(set(s['hist'])):
            return 'duplicate pid table entries'
        for pid in s['hist']:
            if pid not in unreaped:
                return 'boundary %d: pid table holds %d which is not an unreaped child' % (k, pid)
        for pid in pids:
            if pid not in s['hist']:
                return 'boundary %d: pid %d of a process is missing from the pid table' % (k, pid)
    # a second child is never forked for a process that still has one
    alive = {}
    for e in res['trace']:
        if e[0] == 'life':       # restarted in process: new process objects; a child whose signalling failed may survive
            alive = {}
        if e[0] == 'fork':
            if alive.get(e[1]):
                return 'p%d forked pid %d while its child %d was not yet reaped' % (e[1], e[2], alive[e[1]])
            alive[e[1]] = e[2]
        if e[0] == 'wait':
            for who, pid in list(alive.items()):
                if pid == e[1]:
                    alive[who] = None
    return None


def mon_c05(script, res):
    seen_down = False
    nsup2 = 0
    # from the first boundary that shows mood < RUNNING there must be no fork
    forks_after = 0
    down_at = None
    for k, s in enumerate(res['snaps']):
        if s['mood'] < 1:
            down_at = k
            break
    # count events by position: we only know boundaries, so use the SupervisorStoppingEvent as the marker
    stopping_seen = False
    gprio = [g['priority'] for g in script['groups']]
    # every managed process, listener pools included: (group key, group priority)
    pinfo = [(('g', c['group']), gprio[c['group']]) for c in script['procs']]
    for k, pl in enumerate(script.get('pools', [])):
        pinfo += [(('pool', k), pl.get('priority', 1))] * pl.get('procs', 1)
    n = len(pinfo)
    cur = [0] * n
    active = dict((('g', g), bool(gc.get('initial', 1))) for g, gc in enumerate(script['groups']))
    for k in range(len(script.get('pools', []))):
        active[('pool', k)] = True
    in_rpc = False
    pending_add = None
    for e in res['trace']:
        if e[0] == 'req':
            in_rpc = True
            if e[2] == 'addgroup' and ('g', e[3]) in active:
                pending_add = ('g', e[3])
        if e[0] == 'ans' and in_rpc:
            if pending_add is not None and e[2] == 0:
                active[pending_add] = True
            pending_add = None
        if e[0] == 'endacts':
            in_rpc = False
        if e[0] == 'sup' and e[1] == 2:
            nsup2 += 1
            stopping_seen = True
        if e[0] == 'fork' and stopping_seen:
            return 'child %d forked after the shutdown request was observed' % e[2]
        if e[0] == 'state' and 0 <= e[1] < n:
            i = e[1]
            if stopping_seen and e[3] == 40:
                # a process is told to stop during shutdown: every group that comes before its group in the
                # stopping order (strictly higher priority number) must be entirely in stopped states
                gi, pi = pinfo[i]
                for j in range(n):
                    gj, pj = pinfo[j]
                    if pj > pi and active[gj] and cur[j] not in (0, 100, 200, 1000):
                        return ('process %d (group %s, priority %s) was sent into STOPPING while process %d of group %s with '
                                'priority %s, which must be stopped first, was still in state %s' % (i, gi, pi, j, gj, pj, cur[j]))
            cur[i] = e[3]
    if nsup2 > 1:
        return 'SUPERVISOR_STATE_CHANGE_STOPPING announced %d times' % nsup2
    if res['ended'] == 'exit':
        if nsup2 != 1:
            return 'main loop exited without announcing STOPPING exactly once'
        # at exit every process must be in a stopped state: replay notifications
        cur = [0] * n
        for e in res['trace']:
            if e[0] == 'state' and 0 <= e[1] < n:
                cur[e[1]] = e[3]
        for i, st in enumerate(cur):
            if st not in (0, 100, 200, 1000):
                return 'main loop exited while p%d was in state %s' % (i, st)
    # "it does exit provided every child dies": two consecutive boundaries after the request at which no child is alive
    # or unreaped and every process is in a stopped state (a process whose signalling failed, UNKNOWN, included) mean
    # that the loop passed its exit test without exiting
    if res['ended'] == 'script':
        quiet = 0
        for s_ in res['snaps']:
            if s_['mood'] < 1 and not s_['live'] and not s_['zombies'] and \
                    all(st in (0, 100, 200, 1000) for st, _pid in s_['procs']):
                quiet += 1
                if quiet >= 3:
                    return ('the daemon was asked to shut down, no child is alive and every process is in a stopped state, '
                            'yet the main loop went through three more passes without exiting')
            else:
                quiet = 0
    # mood never returns to RUNNING once below
    low = False
    for s in res['snaps']:
        if s['mood'] < 1:
            low = True
        elif low:
            return 'daemon mood returned to RUNNING after a shutdown/restart request'
    sd = False
    for s in res['snaps']:
        if s['mood'] == -1:
            sd = True
        elif sd:
            return 'SHUTDOWN was turned into another mood'
    return None


def mon_c06(script, res):
    if res['ended'] == 'crash':
        return 'exception escaped the main loop: %s' % (res.get('crash') or '')[-600:]
    if res.get('misattributed'):
        fn, w = res['misattributed'][0]
        return ('output written by the child of p%d was logged in %s: the descriptors of that child are serviced by '
                'another process\'s dispatchers' % (w, fn))
    if res.get('stale_pools'):
        return ('after the restart %d subscription(s) of event-listener pools of the previous daemon life are still in place: '
                'those pools keep accepting every event' % res['stale_pools'])
    if res.get('hangs'):
        return ('the main loop called %s on descriptor %d, which is in blocking mode, when the call could not complete: '
                'the real daemon would stop servicing every process' % res['hangs'][0])
    return None


def mon_c04(script, res):
    """Stop requests: signal, target, deadline, repetition (clock readings from the pass markers)."""
    n = len(script['procs'])
    U = script['U']
    owner = {}
    pid_of = [0] * n
    cur = [0] * n
    first_pending = [False] * n     # a STOPPING notification was seen, the stop signal is due next
    m = [None] * n                  # minimum reading since the last signal to the process (while STOPPING)
    killed_this_pass = [False] * n
    now = None
    in_signal_rpc = False
    unreaped = set()

    def end_of_pass():
        # on every pass in which the deadline has passed and the child is unreaped, SIGKILL must have been sent
        for i in range(n):
            c = script['procs'][i]
            if cur[i] == 40 and m[i] is not None and pid_of[i] in unreaped and not killed_this_pass[i] \
                    and pass_transitioned and now >= m[i] + c['stopwaitsecs'] * U and not stopping_entered_this_pass[i]:
                return 'p%d still STOPPING at reading %s, deadline %s passed, but no SIGKILL was sent on this pass' % (
                    i, now, m[i] + c['stopwaitsecs'] * U)
        return None
    pass_transitioned = False
    stopping_entered_this_pass = [False] * n
    for e in res['trace']:
        k = e[0]
        if k == 'pass':
            if now is not None:
                msg = end_of_pass()
                if msg:
                    return msg
            now = e[2]
            pass_transitioned = True
            killed_this_pass = [False] * n
            stopping_entered_this_pass = [False] * n
            for i in range(n):
                if cur[i] == 40 and m[i] is not None and now < m[i]:
                    m[i] = now
        elif k == 'req':
            in_signal_rpc = e[2] in ('signal', 'signalall', 'signalgroup')
        elif k in ('ans', 'ansall', 'endacts'):
            in_signal_rpc = False
        elif k == 'fork':
            owner[e[2]] = e[1]
            unreaped.add(e[2])
            if 0 <= e[1] < n:
                pid_of[e[1]] = e[2]
        elif k == 'recycled':
            owner.pop(e[1], None)
        elif k == 'wait':
            unreaped.discard(e[1])
        elif k == 'state' and 0 <= e[1] < n:
            i = e[1]
            if e[3] == 40:
                first_pending[i] = True
                stopping_entered_this_pass[i] = True
            if e[2] == 40 and e[3] not in (0, 1000):
                return 'p%d left STOPPING for state %s' % (i, e[3])
            cur[i] = e[3]
        elif k == 'kill':
            pid = abs(e[1])
            i = owner.get(pid)
            if i is None or not (0 <= i < n):
                return 'signal sent to pid %d which supervisord never forked' % pid
            c = script['procs'][i]
            if in_signal_rpc:
                continue
            if first_pending[i]:
                first_pending[i] = False
                if e[2] != c['stopsignal']:
                    return 'p%d: stop request delivered signal %s, configured stopsignal is %s' % (i, e[2], c['stopsignal'])
                if (e[1] < 0) != bool(c['stopasgroup']):
                    return 'p%d: stop signal sent to %s but stopasgroup=%s' % (i, e[1], c['stopasgroup'])
                m[i] = now
                killed_this_pass[i] = True
            elif cur[i] == 40:
                if e[2] != 9:
                    return 'p%d: escalation used signal %s instead of SIGKILL' % (i, e[2])
                if (e[1] < 0) != bool(c['killasgroup']):
                    return 'p%d: SIGKILL sent to %s but killasgroup=%s' % (i, e[1], c['killasgroup'])
                if m[i] is not None and now < m[i] + c['stopwaitsecs'] * U:
                    return 'p%d: SIGKILL at reading %s, before the deadline %s' % (i, now, m[i] + c['stopwaitsecs'] * U)
                m[i] = now
                killed_this_pass[i] = True
    return None


KNOWN = {}     # id -> count, filled by the monitors on signature inputs


PATHS_FOUND = (None, '', '/sim/bin', '/nowhere:/bin', '/bin')


def _eff_cmd(script, c):
    """Command kind as the monitors see it: the slash-less command (6) is searched in the daemon's $PATH - an unset or
    empty $PATH means the default /bin:/usr/bin:/usr/local/bin - and is 'ok' (0) when a directory of it has it,
    'missing' (1) otherwise."""
    k = c.get('cmd', 0)
    if k != 6:
        return k
    return 0 if script.get('path') in PATHS_FOUND else 1


def _known(fid):
    KNOWN[fid] = KNOWN.get(fid, 0) + 1


def mon_c13(script, res):
    """Answers vs effects between the request and the answer."""
    n = len(script['procs'])
    cur = [0] * n
    pids = [0] * n
    open_reqs = {}      # req -> dict(kind, i, wait, state_at_req, forked, running_seen, kills)
    open_all = {}       # req -> dict(kind, wait, processes seen RUNNING since the request)
    open_sig = {}       # req -> dict(sig, {eligible process: pid at the request}, kill log)
    waited = set()
    mood_low = False    # the daemon has been asked to shut down or restart (from the boundary snapshots and the requests)
    refused = None      # a process-control request issued while mood_low: [req, description]
    for e in res['trace']:
        k = e[0]
        if k == 'pass':
            if e[1] < len(res['snaps']) and res['snaps'][e[1]]['mood'] < 1:
                mood_low = True
        if k == 'life':
            mood_low = False
        if k == 'endacts':
            for r_ in open_reqs.values():
                r_['late'] = True         # still unanswered when the pass's requests were done
            for r_ in open_all.values():
                r_['late'] = True
        if k in ('ans', 'ansall', 'endacts'):
            refused = None
        if refused is not None and k in ('kill', 'fork', 'state'):
            return ('%s was issued after the shutdown/restart request and must be refused without any effect, but the trace '
                    'shows %r before its answer' % (refused[1], e))
        if k == 'req' and mood_low and e[2] in ('start', 'stop', 'signal', 'startall', 'stopall', 'startgroup', 'stopgroup',
                                                'signalall', 'signalgroup'):
            refused = [e[1], '%s request %s' % (e[2], e[1])]
        if k == 'wait':
            waited.add(e[1])
        if k == 'polled' and e[1] in open_reqs:
            r_ = open_reqs[e[1]]
            if r_['kind'] == 'start' and r_['arg'] == 1 and r_['forked'] and cur[r_['i']] not in (10, 20):
                return ('startProcess(p%d, wait=true): the pending answer was polled while the process was in state %s (neither '
                        'STARTING nor RUNNING) and still said "not done" - it must answer SPAWN_ERROR or ABNORMAL_TERMINATION '
                        'then' % (r_['i'], cur[r_['i']]))
            if r_['kind'] == 'stop' and r_['arg'] == 1 and cur[r_['i']] in (0, 100, 200, 1000):
                return ('stopProcess(p%d, wait=true): the pending answer was polled while the process was in the stopped state %s '
                        'and still said "not done"' % (r_['i'], cur[r_['i']]))
        if k == 'req':
            _, req, what, a, b = e
            if what in ('start', 'stop', 'signal') and 0 <= a < n:
                open_reqs[req] = dict(kind=what, i=a, arg=b, st=cur[a], forked=False, running=False, kills=[], other=False,
                                      low=mood_low)
            if what in ('signalall', 'signalgroup'):
                # eligible: every process of the scope that is STARTING, RUNNING or STOPPING at the request
                scope = [i for i in range(n) if what == 'signalall' or script['procs'][i]['group'] == a]
                open_sig[req] = dict(sig=(a if what == 'signalall' else b), pids=dict((i, pids[i]) for i in scope if cur[i] in (10, 20, 40)),
                                     kills=[])
            if what in ('startall', 'stopall', 'startgroup', 'stopgroup'):
                kind_ = what[:-3] if what.endswith('all') else what[:-5]
                scope = [i for i in range(n) if what.endswith('all') or script['procs'][i]['group'] == a]
                # eligible: stop requests act on STARTING/RUNNING/BACKOFF processes, start requests on all the others
                elig = [i for i in scope if (cur[i] in (10, 20, 30)) == (kind_ == 'stop')]
                open_all[req] = dict(kind=kind_, wait=(a if what.endswith('all') else b), ran=set(), stopped=set(),
                                     eligible=sorted(elig), low=mood_low, scope=scope, touched=set())
        elif k == 'ansall' and e[1] in open_sig:
            r = open_sig.pop(e[1])
            idx = sorted(x[0] for x in e[2])
            if idx != sorted(r['pids']):
                return ('a signal request for a group/all answered for processes %r; the processes of its scope that were '
                        'STARTING, RUNNING or STOPPING are %r' % (idx, sorted(r['pids'])))
            want = sorted((r['pids'][i], r['sig']) for i in r['pids'])
            got = sorted((abs(x[1]), x[2]) for x in r['kills'])
            if got != want or any(x[1] < 0 for x in r['kills']):
                return ('a signal request for a group/all must deliver exactly the named signal once to each eligible child: '
                        'wanted (pid, signal) %r, the kill log has %r' % (want, r['kills']))
        elif k == 'ansall':
            r = open_all.pop(e[1], None)
            idx = [x[0] for x in e[2]]
            if len(set(idx)) != len(idx):
                return 'a group/all request answered with more than one entry for the same process: %r' % (e[2],)
            if r is not None and not r['low']:
                # eligibility is decided when each process's turn comes (an earlier call of the same request may reap
                # another child), so only processes whose state did not change since the request are judged
                for i in r['scope']:
                    if i in r['touched']:
                        continue
                    if (i in r['eligible']) != (i in idx):
                        return ('a %s request for a group/all answered for processes %r; p%d, whose state did not change '
                                'since the request, was %seligible' % (r['kind'], sorted(idx), i,
                                                                       '' if i in r['eligible'] else 'not '))
            if r is not None and r['wait'] == 0 and r.get('late') and not r['low']:
                return ('a %s request for a group/all with wait=false was not answered at once: the answer came after the main '
                        'loop had run again, as if wait were true (the single-process call with wait=false answers at once)'
                        % r['kind'])
            if r is not None and r['wait'] == 1:
                for (i, status) in e[2]:
                    if not (0 <= i < n) or status != 80:
                        continue
                    if r['kind'] == 'stop' and cur[i] not in (0, 100, 200, 1000) and i not in r['stopped']:
                        return ('a stop request with wait=true answered SUCCESS for p%d, which has not been in a stopped state '
                                'since the request (state %s): %r' % (i, cur[i], e[2]))
                    if r['kind'] == 'start' and cur[i] != 20 and i not in r['ran']:
                        return ('a start request with wait=true answered SUCCESS for p%d, which has not been RUNNING (state %s): %r'
                                % (i, cur[i], e[2]))
        elif k == 'fork':
            for r in open_reqs.values():
                if r['i'] == e[1]:
                    r['forked'] = True
            if 0 <= e[1] < n:
                pids[e[1]] = e[2]
        elif k == 'state':
            if 0 <= e[1] < n:
                cur[e[1]] = e[3]
                for r in open_reqs.values():
                    if r['i'] == e[1] and e[3] == 20:
                        r['running'] = True
                for r in open_all.values():
                    r['touched'].add(e[1])
                    if e[3] == 20:
                        r['ran'].add(e[1])
                    if e[3] in (0, 100, 200, 1000):
                        r['stopped'].add(e[1])
        elif k == 'kill':
            for r in open_reqs.values():
                r['kills'].append(e)
            for r in open_sig.values():
                r['kills'].append(e)
        elif k == 'ans':
            if e[1] in open_sig or e[1] in open_all:
                open_sig.pop(e[1], None); open_all.pop(e[1], None)      # the group/all request was answered with a fault
            if e[2] == 0 and any(x[0] == 'req' and x[1] == e[1] and x[2] in ('shutdown', 'restart') for x in res['trace']):
                mood_low = True
            r = open_reqs.pop(e[1], None)
            if r is None:
                continue
            code = e[2]
            if r.get('low') and code != 6:
                return ('%sProcess(p%d) was issued after the shutdown/restart request and answered %s instead of SHUTDOWN_STATE'
                        % (r['kind'], r['i'], code))
            c_ = script['procs'][r['i']]
            if code == 500:
                return '%sProcess(p%d) was answered with an HTTP error instead of a value or a fault' % (r['kind'], r['i'])
            if r['kind'] == 'start' and not r.get('low') and _eff_cmd(script, c_) in (0, 5) and code in (20, 21):
                return ('startProcess(p%d) answered fault %d (no such file / not executable) for a command that exists and can '
                        'be executed%s' % (r['i'], code, ' (a relative path with a slash is used as given)' if c_.get('cmd') == 5 else ''))
            if r['kind'] in ('start', 'stop') and r['arg'] == 0 and r.get('late'):
                return ('%sProcess(p%d, wait=false) was not answered at once: the answer came after the main loop had run '
                        'again, as if wait were true' % (r['kind'], r['i']))
            if r['kind'] == 'start' and not r.get('low') and _eff_cmd(script, c_) in (1, 2, 3, 4):
                want = 20 if _eff_cmd(script, c_) == 1 else 21
                if code != want or r['forked']:
                    return ('startProcess(p%d): the command cannot be run (%s) - expected fault %d and no fork, got %s%s'
                            % (r['i'], {1: 'missing', 2: 'not executable', 3: 'no permission', 4: 'a directory'}[_eff_cmd(script, c_)],
                               want, code, ' after forking a child' if r['forked'] else ''))
            if r['kind'] == 'start':
                if code == 0:
                    if not r['forked']:
                        if r['st'] == 40 and r['arg'] == 0:
                            _known('C13-start-stopping')
                        else:
                            return 'startProcess(p%d) answered true but no child was forked by the call (state at request %s)' % (r['i'], r['st'])
                    elif r['arg'] == 1 and not r['running'] and cur[r['i']] != 20:
                        return 'startProcess(p%d, wait=true) answered true before the process was RUNNING' % r['i']
                else:
                    if r['forked'] and code not in (50, 40):
                        return 'startProcess(p%d) answered fault %s although it forked a child' % (r['i'], code)
                    if code == 50 and r['forked'] and cur[r['i']] == 20:
                        # (a process that was RUNNING and failed again before the deferred answer was polled may
                        # answer SPAWN_ERROR; one that IS RUNNING has no spawn error)
                        return ('startProcess(p%d) answered SPAWN_ERROR while the process is RUNNING with the child this '
                                'call forked' % r['i'])
                    if code == 60 and r['st'] not in (10, 20, 30):
                        return 'ALREADY_STARTED for p%d in state %s' % (r['i'], r['st'])
            elif r['kind'] == 'stop':
                if code == 70 and r['st'] in (10, 20, 30):
                    return 'NOT_RUNNING for p%d in state %s' % (r['i'], r['st'])
                if code == 0 and r['st'] not in (10, 20, 30):
                    return 'stopProcess(p%d) answered true for a process in state %s' % (r['i'], r['st'])
                if code == 0 and r['arg'] == 1 and cur[r['i']] not in (0, 100, 200, 1000):
                    return 'stopProcess(p%d, wait=true) answered true while the process is in state %s' % (r['i'], cur[r['i']])
                if code == 0 and r['arg'] == 1 and cur[r['i']] == 1000 and pids[r['i']] and pids[r['i']] not in waited:
                    _known('C13-stop-unknown')
            elif r['kind'] == 'signal':
                if code == 0:
                    mine = [x for x in r['kills'] if abs(x[1]) == pids[r['i']]]
                    if len(mine) != 1 or len(r['kills']) != 1 or mine[0][2] != r['arg'] or mine[0][1] < 0:
                        return 'signalProcess(p%d, %s) answered true but the kill log between request and answer is %r' % (
                            r['i'], r['arg'], r['kills'])
    return None


def mon_c03(script, res):
    """Reference policy monitor (independent of the Coq model): start-success decision, explained forks,
    retry count/spacing, FATAL, autorestart table, autostart once.  Clock readings from the pass markers."""
    prev_state.clear(); ever_started_before.clear(); pend_es.clear()
    n = len(script['procs'])
    U = script['U']
    now = None
    cur = [0] * n
    started_at = [None] * n       # reading of the fork, lowered by any smaller reading seen while STARTING
    ever_started = [False] * n
    owner = {}
    pend = [False] * n            # the child of process i has been waited for; its finish() notifications follow
    last_es = [None] * n
    backoff_since = [None] * n    # (reading of the BACKOFF notification lowered by smaller readings, tries)
    due_restart = [None] * n      # pass index by which an automatic restart must have happened
    due_leave = [None] * n        # (pass, epoch): in BACKOFF with the retry delay over when that pass began
    epoch = [0] * n               # number of state changes seen
    fails = [0] * n               # failed start attempts in a row, counted here (never more than the code's own counter)
    down = False
    rpc_window = None             # kind of the request being executed
    passno = -1
    mood_low = False
    for e in res['trace']:
        k = e[0]
        if k == 'pass':
            passno = e[1]
            now = e[2]
            rpc_window = None
            for i in range(n):
                if cur[i] == 10 and started_at[i] is not None and now < started_at[i]:
                    started_at[i] = now
                if cur[i] == 30 and backoff_since[i] is not None and now < backoff_since[i][0]:
                    backoff_since[i] = (now, backoff_since[i][1])
                # a process whose retry delay was over when a pass began is retried or given up in that pass:
                # it does not sit in BACKOFF (the daemon not shutting down)
                dl, due_leave[i] = due_leave[i], None
                if dl is not None and dl[0] == passno - 1 and dl[1] == epoch[i] and cur[i] == 30 and not mood_low and not down:
                    return ('p%d stayed in BACKOFF through a whole pass although its retry delay (%d s after the failure at '
                            'reading %s) was over when the pass began: neither retried nor given up (startretries=%d, failed '
                            'attempts %d)' % (i, backoff_since[i][1], backoff_since[i][0], script['procs'][i]['startretries'],
                                              backoff_since[i][1]))
                if cur[i] == 30 and backoff_since[i] is not None and now > backoff_since[i][0] + backoff_since[i][1] * U \
                        and not mood_low and not down:
                    due_leave[i] = (passno, epoch[i])
                if due_restart[i] is not None and passno > due_restart[i] and cur[i] == 100 and not mood_low:
                    return 'p%d exited with status %s, policy demands an automatic restart, but it was still EXITED after a full pass' % (i, last_es[i])
        elif k == 'req':
            rpc_window = e[2]
        elif k == 'life':
            due_leave = [None] * n
            fails = [0] * n
        elif k == 'endacts':
            rpc_window = None
        elif k == 'sup' and e[1] == 2:
            down = True
            mood_low = True
        elif k == 'ans' and rpc_window in ('shutdown', 'restart') and e[2] == 0:
            mood_low = True
        elif k == 'fork':
            i = e[1]
            if down:
                return 'child forked for p%d while the daemon is shutting down' % i
            owner[e[2]] = i
            if not (0 <= i < n):
                continue
            c = script['procs'][i]
            explained = rpc_window in ('start', 'startall', 'startgroup')
            prev = prev_state[i] if i in prev_state else 0
            if not explained:
                if prev == 0:
                    explained = (not ever_started_before[i]) and bool(c['autostart'])
                    why = 'a STOPPED process that %s' % ('was started before' if ever_started_before[i] else 'has autostart=false')
                elif prev == 100:
                    es = last_es[i]
                    explained = c['autorestart'] == 2 or (c['autorestart'] == 1 and es not in c['exitcodes'])
                    why = 'an EXITED process (status %s) whose policy forbids a restart' % (es,)
                elif prev == 30:
                    explained = True
                    bs = backoff_since[i]
                    if fails[i] > c['startretries']:
                        return ('p%d retried although %d start attempts in a row had failed (startretries=%d; the attempts '
                                'are counted from the notifications, whatever tries: says)' % (i, fails[i], c['startretries']))
                    if bs is not None and not (now > bs[0] + fails[i] * U):
                        return ('p%d retry after %d failed attempts in a row at reading %s, not later than %d seconds after '
                                'the failure at %s' % (i, fails[i], now, fails[i], bs[0]))
                    if bs is not None:
                        if bs[1] > c['startretries']:
                            return 'p%d retried although %d start attempts already failed (startretries=%d)' % (i, bs[1], c['startretries'])
                        if not (now > bs[0] + bs[1] * U):
                            return 'p%d retry number %d at reading %s, not later than %s seconds after the failure at %s' % (i, bs[1], now, bs[1], bs[0])
                    why = ''
                else:
                    why = 'a process in state %s' % prev
                if not explained:
                    return 'p%d: child forked without cause for %s' % (i, why)
            started_at[i] = now
        elif k == 'spawnfail':
            pass
        elif k == 'state' and 0 <= e[1] < n:
            i, frm, to = e[1], e[2], e[3]
            c = script['procs'][i]
            if to == 10:
                prev_state[i] = frm
                ever_started_before[i] = ever_started[i]
                ever_started[i] = True
                if started_at[i] is None:
                    started_at[i] = now
                started_at[i] = now
                due_restart[i] = None
            if frm == 10 and to == 30 and pend[i]:
                life = now - started_at[i]
                if not (life < c['startsecs'] * U):
                    return 'p%d lived %s ticks >= startsecs but the exit was handled as a failed start (BACKOFF)' % (i, life)
            if frm == 10 and to == 20 and pend[i]:
                life = now - started_at[i]
                if life < c['startsecs'] * U:
                    if life <= 0 and c['startsecs'] > 0:
                        _known('C03-no-positive-lifetime')
                    else:
                        return 'p%d exited after %s ticks < startsecs but the start was treated as successful' % (i, life)
            if frm == 10 and to == 20 and not pend[i]:
                life = now - started_at[i]
                if not (life > c['startsecs'] * U):
                    return 'p%d reported RUNNING after %s ticks, not longer than startsecs' % (i, life)
            if to == 30:
                backoff_since[i] = (now, e[4])
                fails[i] += 1
            if to in (20, 200, 0, 100):
                fails[i] = 0
            if to == 200 and frm == 30:
                bs = backoff_since[i]
                if bs is not None and bs[1] <= c['startretries'] and not down and not mood_low:
                    return 'p%d became FATAL after %d failed attempts although startretries=%d' % (i, bs[1], c['startretries'])
            if to == 100:
                last_es[i] = pend_es.get(i)
                es = last_es[i]
                want = c['autorestart'] == 2 or (c['autorestart'] == 1 and es not in c['exitcodes'])
                due_restart[i] = passno + 1 if want else None
                if bool(e[5]) != (es in c['exitcodes']):
                    return 'p%d exit status %s reported expected=%s, exitcodes=%s' % (i, es, e[5], c['exitcodes'])
            cur[i] = to
            epoch[i] += 1
            if not (frm == 10 and to == 20):
                pend[i] = False
        elif k == 'recycled':
            owner.pop(e[1], None)
        elif k == 'wait':
            i = owner.get(e[1])
            if i is not None and 0 <= i < n:
                pend[i] = True
                sts = e[2]
                pend_es[i] = ((sts >> 8) & 0xff) if (sts & 0x7f) == 0 else -1
    return None


prev_state = {}
ever_started_before = {}
pend_es = {}
pend_exit = {}


MONITORS = {'C01': mon_c01, 'C02': mon_c02, 'C03': mon_c03, 'C04': mon_c04, 'C05': mon_c05, 'C06': mon_c06, 'C13': mon_c13}

# ----------------------------------------------------------------- generators per property


def alphabet(U, which):
    full = life_gen.small_alphabet(U)
    names = {
        'C01': ['+1s', '+big', '-jump', 'exit1', 'sigdie', 'start', 'stop', 'term', 'forkfail', 'eperm'],
        'C02': ['+1s', '+0', 'exit0', 'exit1', 'start', 'stop', 'stopw', 'forkfail', 'pipefail', 'poll'],
        'C03': ['+1s', '+half', '+big', '-jump', '+0', 'exit0', 'exit1', 'forkfail', 'start', 'stop'],
        'C04': ['+1s', '+half', '+big', '-jump', 'stop', 'stopw', 'exit1', 'eperm', 'start', 'poll'],
        'C05': ['+1s', '+big', 'term', 'exit1', 'start', 'stop', 'forkfail', '-jump', 'poll', 'stopw'],
        'C06': ['+1s', 'eperm', 'forkfail', 'pipefail', 'exit1', 'sigdie', 'stop', 'start', 'term', '-jump'],
        'C13': ['+1s', '+big', 'start', 'startw', 'stop', 'stopw', 'poll', 'exit1', 'forkfail', 'eperm', 'stopweperm'],
    }[which]
    return [a for a in full if a[0] in names]


def conf_subset(which):
    if which in ('C03',):
        return life_gen.conf_grid()
    out = []
    for ss in (0, 1):
        for sr in (0, 1):
            for ar in (1, 2):
                out.append(mkconf(startsecs=ss, startretries=sr, autorestart=ar,
                                  stopasgroup=(ss ^ sr), killasgroup=1, stopwaitsecs=1 + sr))
    if which in ('C13', 'C01'):
        # commands that cannot be run: missing, not executable, no permission for this user, a directory
        for cmd in (1, 2, 3, 4, 5):
            out.append(mkconf(startsecs=1, startretries=1, autorestart=1, stopwaitsecs=1, cmd=cmd))
    return out


def corpus_scripts(which):
    d = os.path.join(vlib.VERIF, 'corpus', 'life')
    out = []
    if os.path.isdir(d):
        for fn in sorted(os.listdir(d)):
            if fn.endswith('.json'):
                with open(os.path.join(d, fn)) as f:
                    out.append(json.load(f))
    return out


def multi_scripts(U=2):
    """Deterministic multi-process / multi-group scripts (priority order, equal priorities, >100 children)."""
    out = []
    for prios in ((1, 2, 3), (5, 5, 5), (9, 1, 5)):
        confs = [mkconf(startsecs=0, priority=p, group=g, stopwaitsecs=1) for g, p in enumerate(prios)]
        groups = [{'priority': p, 'procs': [g]} for g, p in enumerate(prios)]
        for sig in (15, 1):
            ops = [{'now': 10, 'acts': []}, {'now': 14, 'acts': [['signal', sig]]}]
            t = 14
            for k in range(10):
                t += 2
                ops.append({'now': t, 'acts': [], 'killq': [1] if k < 3 else []})
            out.append({'U': U, 'procs': confs, 'groups': groups, 'ops': ops})
    # one group, three processes with priorities
    confs = [mkconf(startsecs=0, priority=p, group=0) for p in (3, 1, 2)]
    out.append({'U': U, 'procs': confs, 'groups': [{'priority': 1, 'procs': [0, 1, 2]}],
                'ops': [{'now': 10, 'acts': []}, {'now': 12, 'acts': [['rpc', 1, 'stopall', 1]]},
                        {'now': 14, 'acts': [['poll']]}, {'now': 16, 'acts': [['rpc', 2, 'startall', 1]]},
                        {'now': 20, 'acts': [['poll']]}, {'now': 22, 'acts': [['rpc', 3, 'shutdown']]},
                        {'now': 24, 'acts': []}, {'now': 26, 'acts': []}]})
    return out


def multi_inflight_scripts(U=2, quick=True):
    """Group / all requests with wait=true over 2 and 3 processes whose deferred callbacks complete in every order:
    the request, then every word of length 3 over {poll, child k exits then poll, time passes then poll}, for every
    pattern of children ignoring the stop signal (stop requests) or fork failures (start requests)."""
    out = []
    for n in (2, 3):
        steps = [('poll', [['poll']], 0)] + [('exit%d' % k, [['exit', k, 0], ['poll']], 0) for k in range(2)] + \
                [('late', [['poll']], 3 * U)]
        for kind in ('stop', 'start'):
            confs = [mkconf(startsecs=1, stopwaitsecs=2, autostart=1 if kind == 'stop' else 0, autorestart=0, priority=5 - i, group=0)
                     for i in range(n)]
            groups = [{'priority': 1, 'procs': list(range(n))}]
            reqs = [['rpc', 1, kind + 'all', 1], ['rpc', 1, kind + 'group', 0, 1], ['rpc', 1, kind + 'group', 0, 1, 1]]
            # the same requests with wait=false, in every spelling (group call, 'group:*', 'group:'): answered at once
            nowait = [['rpc', 1, kind + 'all', 0], ['rpc', 1, kind + 'group', 0, 0], ['rpc', 1, kind + 'group', 0, 0, 1],
                      ['rpc', 1, kind + 'group', 0, 0, 2], ['rpc', 1, kind + 'group', 0, 1, 2]]
            for rq in reqs + nowait:
                for pat in itertools.product((0, 1), repeat=n):
                    if kind == 'start' and sum(pat) > 1:
                        continue
                    for word in itertools.product(steps, repeat=(3 if quick else 4) if rq in reqs else 2):
                        ops = [{'now': 100, 'acts': []}, {'now': 100 + 2 * U, 'acts': []}]
                        t = 100 + 3 * U
                        op = {'now': t, 'acts': [list(rq)]}
                        if kind == 'stop':
                            op['killq'] = list(pat)                 # 1: the child ignores the stop signal
                        else:
                            op['forkq'] = [3 if b else 0 for b in pat]   # 3: fork fails for that process
                        ops.append(op)
                        for (_nm, acts, dt) in word:
                            t += 1 + dt
                            ops.append({'now': t, 'acts': [list(a) for a in acts]})
                        ops.append({'now': t + 4 * U, 'acts': [['poll']]})
                        out.append({'U': U, 'procs': confs, 'groups': groups, 'ops': ops})
    return out


def many_children_script(n=105, U=2):
    confs = [mkconf(startsecs=0, autorestart=0, group=0) for _ in range(n)]
    ops = [{'now': 10, 'acts': []}, {'now': 12, 'acts': []},
           {'now': 14, 'acts': [['exit', 0, 1] for _ in range(n)]},
           {'now': 16, 'acts': []}, {'now': 18, 'acts': []}]
    return {'U': U, 'procs': confs, 'groups': [{'priority': 1, 'procs': list(range(n))}], 'ops': ops}


def many_children_shutdown_script(n=105, U=2):
    """More children than the reaper handles in one pass (100), all dying promptly on the stop signal of a shutdown:
    every one of them must still be reaped and the loop must exit."""
    confs = [mkconf(startsecs=0, autorestart=0, group=0, stopwaitsecs=2) for _ in range(n)]
    ops = [{'now': 100, 'acts': []}, {'now': 102, 'acts': []}, {'now': 104, 'acts': [['signal', 15]]}]
    ops += [{'now': 106 + 2 * k, 'acts': []} for k in range(8)]
    return {'U': U, 'procs': confs, 'groups': [{'priority': 1, 'procs': list(range(n))}], 'ops': ops}


def gen_scripts(chk, which):
    quick = chk.tier == 'quick'
    U = 2
    scripts = []
    scripts += [(s, 'corpus') for s in corpus_scripts(which)]
    depth = 3 if quick else 4
    alpha = alphabet(U, which)
    confs = conf_subset(which)
    if quick and which == 'C03':
        confs = confs[::2]
    for c in confs:
        for word in itertools.product(alpha, repeat=depth):
            # every history starts with one quiet pass so that autostart happens
            scripts.append((life_gen.script_from_word([c], [{'priority': 999, 'procs': [0]}],
                                                      (life_gen.small_alphabet(U)[1],) + word, U), 'exhaustive'))
    if which == 'C13':
        # several requests in flight: every word of length 4 (5 in the thorough tier) over a request-centred alphabet
        full = {a[0]: a for a in life_gen.small_alphabet(U)}
        inflight = [full['stopw'], full['startw'], full['start'], full['stop'], full['poll'], full['+1s'], full['+big'], full['exit1']]
        for c in (mkconf(startsecs=1, stopwaitsecs=1, autorestart=0), mkconf(startsecs=0, stopwaitsecs=2, autorestart=2)):
            for word in itertools.product(inflight, repeat=4 if quick else 5):
                scripts.append((life_gen.script_from_word([c], [{'priority': 999, 'procs': [0]}],
                                                          (full['+1s'],) + word, U), 'inflight'))
    if which == 'C13':
        for s in multi_inflight_scripts(U, quick):
            scripts.append((s, 'multi-inflight'))
    for s in multi_scripts(U):
        scripts.append((s, 'multi'))
    if which in ('C13', 'C01'):
        # a third of the request-carrying scripts go through the real XML-RPC handler (marshalling both ways)
        for k, (s, _o) in enumerate(scripts):
            if k % 3 == 1 and isinstance(s, dict) and 'xml' not in s:
                s['xml'] = True
    if which in ('C02', 'C06') or not quick:
        scripts.append((many_children_script(105, U), 'many'))
    if which in ('C05', 'C02', 'C06') or not quick:
        scripts.append((many_children_shutdown_script(105, U), 'many-shutdown'))
    rng = chk.rng
    nrand = 4000 if quick else 60000
    emph = {
        'C01': dict(hostile=0.2), 'C02': dict(hostile=0.25, rpcw=0.3), 'C03': dict(hostile=0.2, rpcw=0.15, shutdown=0.1),
        'C04': dict(hostile=0.25, rpcw=0.35, shutdown=0.2), 'C05': dict(shutdown=0.9, hostile=0.15),
        'C06': dict(hostile=0.5, rpcw=0.3), 'C13': dict(rpcw=0.5, hostile=0.2, shutdown=0.15),
    }[which]
    for _ in range(nrand):
        scripts.append((life_gen.random_script(rng, U=rng.choice([1, 2, 2]), **emph), 'random'))
    return scripts, depth, len(alpha), len(confs)


# ----------------------------------------------------------------- the check

BEGIN = b'<!--XSUPERVISOR:BEGIN-->'
END = b'<!--XSUPERVISOR:END-->'


def hostile_script(rng, logdir):
    """A random history with hostile child output (capture tags, partial tags, invalid UTF-8, ANSI fragments, big
    writes), errno faults injected into read/close/waitpid/write, and liveness probes at the end.  These scripts are
    outside the Coq model (no dispatcher output there): they are judged by the trace monitors only."""
    import errno
    s = life_gen.random_script(rng, hostile=0.3)
    s['logdir'] = logdir
    s['marks'] = True
    if rng.random() < 0.5:
        # the real activity log, small enough to roll over during the history (backups 0 included)
        s['mainlog'] = {'maxbytes': rng.choice([0, 200, 2000]), 'backups': rng.choice([0, 0, 1, 3])}
    for c in s['procs']:
        c['capture'] = rng.choice([0, 0, 10, 100])
        c['events'] = rng.choice([0, 1])
        c['maxbytes'] = rng.choice([0, 0, 64, 4096])       # child logs roll over too
        c['backups'] = rng.choice([0, 1, 2])

    def hostile_bytes():
        parts = []
        for _ in range(rng.randrange(1, 6)):
            parts.append(rng.choice([BEGIN, END, BEGIN[:rng.randrange(1, 24)], b'\xff\xfe', b'hello\n', b'\x1b[31m', b'\x1b[',
                                     bytes(rng.randrange(256) for _ in range(rng.randrange(0, 40))), b'x' * 3000,
                                     (BEGIN + b'a' + END) * rng.choice([1, 5, 40, 40, 700])]))
        return list(b''.join(parts))
    if rng.random() < 0.6:
        s['pools'] = [{'events': rng.choice([['EVENT'], ['PROCESS_COMMUNICATION', 'PROCESS_LOG'], ['PROCESS_STATE', 'TICK_5'],
                                             ['PROCESS_COMMUNICATION_STDOUT', 'PROCESS_LOG_STDERR', 'SUPERVISOR_STATE_CHANGE']]),
                       'buffer': rng.choice([1, 3, 10]), 'procs': rng.choice([1, 2])}]
    nreq = [0]
    for op in s['ops']:
        if 'pools' in s and rng.random() < 0.15:
            op['listener_reply'] = list(rng.choice([b'RESULT 4\nFAILREADY\n', b'garbage', b'RESULT x\n', b'RESULT 2\nOK', b'READY\n',
                                                    b'RESULT 0\nREADY\n', b'\xff\xfe', b'RESULT 99999999\n']))
        if 'pools' in s and rng.random() < 0.1:
            op['listener_deaf'] = 1
        if 'pools' in s and rng.random() < 0.12:
            nreq[0] += 1
            op['acts'] = list(op['acts']) + [['remote', 9000 + nreq[0], rng.choice(['t', '', 'caf\u00e9', 7, '%s']),
                                              rng.choice(['data', '', 42, -1, 2.5, True, 'caf\u00e9 \u2603', '%(x)s 100%',
                                                          ['a', 1], {'k': 'v'}, 'x' * 70000])]]
        if rng.random() < 0.06:
            op['acts'] = list(op['acts']) + [['signal', rng.choice([12, 12, 17])]]   # SIGUSR2 (reopen every log), SIGCHLD
        if rng.random() < 0.04:
            op['acts'] = list(op['acts']) + [['jobstop', rng.randrange(4)]]     # SIGSTOP to a child: it is not dead
        if rng.random() < 0.05:
            op['acts'] = list(op['acts']) + [['recycled', rng.randrange(6), rng.choice([0, 256, 9])]]   # orphan with a recycled pid
        if rng.random() < 0.5:
            op['outputs'] = [[rng.randrange(4), rng.choice([1, 2]), hostile_bytes()] for _ in range(rng.randrange(1, 3))]
        if rng.random() < 0.3:
            name = rng.choice(['read', 'close', 'waitpid', 'write'])
            op['faults'] = dict(op.get('faults', {}))
            op['faults'][name] = [rng.choice([0, errno.EINTR, errno.EAGAIN, errno.EBADF, errno.EIO, errno.ENOMEM,
                                               errno.ECHILD, errno.EPERM, errno.EPIPE]) for _ in range(rng.randrange(1, 4))]
    t = s['ops'][-1]['now']
    if rng.random() < 0.2:
        # a restart request (SIGHUP) in the middle: when the first life has stopped everything the driver goes on
        # like supervisord.main(): new options, new Supervisor, the real Supervisor.run()
        s['second_life'] = True
        k = rng.randrange(1, max(2, len(s['ops']) // 2))
        s['ops'][k]['acts'] = list(s['ops'][k]['acts']) + [['signal', 1]]
        for j in range(6):
            t += 2
            s['ops'].append({'now': t, 'acts': [], 'killq': []})
        t += 2
        s['ops'].append({'now': t, 'acts': [['remote', 9900, 't', 'after the restart']] if 'pools' in s else []})
    s['ops'] += [{'now': t + 2, 'acts': [['exit', 0, 3]]}, {'now': t + 4, 'acts': []}, {'now': t + 8, 'acts': []},
                 {'now': t + 10, 'acts': []}]
    return s


def mon_probe(script, res):
    if res['ended'] == 'script' and res['snaps'] and res['snaps'][-1]['zombies']:
        return 'a dead child was not reaped within three quiet passes after the disturbance: %r' % (res['snaps'][-1]['zombies'],)
    return None


def hostile_stream(chk, wd, scale=1.0):
    import shutil
    n = int((1500 if chk.tier == 'quick' else 20000) * scale)
    hits = 0
    for k in range(n):
        d = os.path.join(wd, 'h%d' % k)
        os.makedirs(d)
        s = hostile_script(chk.rng, d)
        pend_exit.clear(); prev_state.clear(); ever_started_before.clear(); pend_es.clear()
        r = life_driver.run_script(s)
        shutil.rmtree(d, ignore_errors=True)
        chk.dist('hostile:' + str(r['ended']))
        for m in (mon_c06, mon_c01, mon_c02, mon_probe):
            msg = m(s, r)
            if msg:
                hits += 1
                if hits <= 5:
                    chk.violation({'kind': 'hostile history: property monitor rejects the implementation trace',
                                   'monitor': m.__name__, 'message': msg, 'script': s, 'implementation': jsonable_result(r)})
    return n, hits


def poller_stream(chk, wd):
    """supervisor/poller.py against coq/Life/Poller.v: the real PollPoller and SelectPoller over a scripted select
    module; every operation word up to depth 3 (thorough 4) over a 14-letter alphabet and random histories; outputs
    (incl. exceptions) and the final sets compared inside Coq.  Independent judge: an interrupted call (EINTR) must
    answer ([], []) and must not raise."""
    import poller_corr as pc
    depth = 3 if chk.tier == 'quick' else 4
    nrand = 3000 if chk.tier == 'quick' else 40000
    cases, kept = [], []
    hits = 0
    for kind in (False, True):
        hist = list(pc.exhaustive(kind, depth)) + [pc.random_history(chk.rng, kind) for _ in range(nrand)]
        for ops in hist:
            res = pc.run_history(kind, ops)
            chk.dist('poller:' + ('select' if kind else 'poll'))
            for o, a in zip(ops, res[0]):
                if o[0] == 'poll' and o[1] == ('err', pc.EINTR) and a != ('ready', [], []):
                    hits += 1
                    if hits <= 3:
                        chk.violation({'kind': 'poller: an interrupted readiness call (EINTR) is not answered with ([], []): '
                                               'the exception would end the main loop',
                                       'poller': 'SelectPoller' if kind else 'PollPoller', 'ops': ops, 'answers': res[0]})
            cases.append(pc.case_term(kind, ops, res))
            kept.append((kind, ops, res))
    bad, errs = vlib.coq_compare(['SV.Life.Poller'], 'pcase', 'check_pcase', cases, wd, preamble='Open Scope Z_scope.',
                                 shard=400, tag='poller')
    for e in errs[:2]:
        chk.violation({'kind': 'poller model evaluation failed', 'error': e}, nofail=True)
    for i in bad[:3]:
        kind, ops, res = kept[i]
        # shrink to the shortest failing prefix
        for n in range(1, len(ops) + 1):
            r2 = pc.run_history(kind, ops[:n])
            b2, _ = vlib.coq_compare(['SV.Life.Poller'], 'pcase', 'check_pcase', [pc.case_term(kind, ops[:n], r2)], wd,
                                     preamble='Open Scope Z_scope.', tag='pshr%d_%d' % (i, n))
            if b2:
                ops, res = ops[:n], r2
                break
        chk.violation({'kind': 'poller model and implementation disagree on this history',
                       'poller': 'SelectPoller' if kind else 'PollPoller', 'ops': ops, 'answers': res[0],
                       'readables': res[1], 'writables': res[2], 'registry': res[3],
                       'explanation': 'coq/Life/Poller.v, about which the c06_poll_* theorems are proved, predicts other answers'},
                      nofail=True)
    # KQueuePoller over a scripted select.kqueue (there is no kqueue on Linux; the class is plain Python)
    kcases, kkept = [], []
    khist = list(pc.kq_exhaustive(2 if chk.tier == 'quick' else 3)) + [pc.kq_random_history(chk.rng) for _ in range(nrand)]
    for ops in khist:
        res = pc.run_kq_history(ops)
        chk.dist('poller:kqueue')
        for o, a in zip(ops, res[0]):
            if o[0] == 'poll' and o[1] == ('err', pc.EINTR) and a != ('ready', [], []):
                hits += 1
                if hits <= 3:
                    chk.violation({'kind': 'poller: an interrupted readiness call (EINTR) is not answered with ([], [])',
                                   'poller': 'KQueuePoller', 'ops': ops, 'answers': res[0]})
        kcases.append(pc.kq_case_term(ops, res))
        kkept.append((ops, res))
    kbad, kerrs = vlib.coq_compare(['SV.Life.Poller'], 'kcase', 'check_kcase', kcases, wd, preamble='Open Scope Z_scope.',
                                   shard=400, tag='kqueue')
    for e in kerrs[:2]:
        chk.violation({'kind': 'poller model evaluation failed', 'error': e}, nofail=True)
    for i in kbad[:3]:
        ops, res = kkept[i]
        chk.violation({'kind': 'poller model and implementation disagree on this history', 'poller': 'KQueuePoller', 'ops': ops,
                       'answers': res[0], 'readables': res[1], 'writables': res[2], 'registry': res[3],
                       'explanation': 'coq/Life/Poller.v (kq_step), about which the c06_kqueue_* theorems are proved, predicts other answers'},
                      nofail=True)
    return len(cases) + len(kcases), hits + len(bad) + len(kbad)


def pool_script(rng):
    """An ordinary random history plus an event-listener pool of 2-3 listeners whose processes are started, stopped,
    signalled and killed like any other process (outside the Coq model: judged by the monitors over the extended
    process list, see with_listeners)."""
    s = life_gen.random_script(rng, nprocs=rng.choice([1, 1, 2]), hostile=0.1, shutdown=0.15, rpcw=0.35)
    nl = rng.choice([2, 2, 3])
    s['pools'] = [{'events': rng.choice([['EVENT'], ['PROCESS_STATE'], ['TICK_5']]), 'buffer': 10, 'procs': nl,
                   'priority': rng.choice([1, 5, 999])}]
    n = len(s['procs'])
    nreq = [0]
    for op in s['ops']:
        for a in op['acts']:
            if a[0] == 'rpc' and a[2] in ('start', 'stop', 'signal') and len(a) <= 6 and rng.random() < 0.5:
                a[3] = n + rng.randrange(nl)
        if rng.random() < 0.06:
            op['acts'] = list(op['acts']) + [['jobstop', rng.randrange(4)]]     # SIGSTOP to a child: it is not dead
        if rng.random() < 0.08:
            op['acts'] = list(op['acts']) + [['recycled', rng.randrange(6), rng.choice([0, 256, 9])]]   # orphan with a recycled pid
        if rng.random() < 0.12:
            nreq[0] += 1
            if rng.random() < 0.5:
                op['acts'] = list(op['acts']) + [['rpc', 7000 + nreq[0], 'signalall', rng.choice([1, 10, 15])]]
            else:
                op['acts'] = list(op['acts']) + [['rpc', 7000 + nreq[0], 'signalgroup', rng.randrange(len(s['groups'])),
                                                  rng.choice([1, 10, 15])]]
    return s


def pool_stream(chk):
    n = 600 if chk.tier == 'quick' else 8000
    hits = 0
    mons = (mon_c06, mon_c01, mon_c02, mon_c03, mon_c04, mon_c05, mon_c13)
    for k in range(n):
        s = pool_script(chk.rng)
        pend_exit.clear(); prev_state.clear(); ever_started_before.clear(); pend_es.clear()
        r = life_driver.run_script(s)
        chk.dist('pool:' + str(r['ended']))
        ext = with_listeners(s)
        for m in mons:
            msg = m(ext if m not in (mon_c01, mon_c05) else s, r)
            if msg:
                hits += 1
                if hits <= 5:
                    chk.violation({'kind': 'listener-pool history: property monitor rejects the implementation trace',
                                   'monitor': m.__name__, 'message': msg, 'script': s, 'implementation': jsonable_result(r)})
    return n, hits


def multicall_script(rng):
    """An ordinary random history with system.multicall requests in it: sequences of start/stop/signal calls on single
    processes (the "restart" idiom stop-then-start among them).  Request k+1 of a multicall arrives when request k has
    been answered; the monitors judge every part against the state at that moment (outside the Coq model)."""
    s = life_gen.random_script(rng, nprocs=rng.choice([1, 1, 2]), hostile=0.05, shutdown=0.05, rpcw=0.2, maxlen=24)
    n = len(s['procs'])
    for c in s['procs']:
        if rng.random() < 0.7:
            c['cmd'] = 0
    if rng.random() < 0.4:
        # a slash-less command, searched in the daemon's $PATH (unset / empty: the default path)
        s['path'] = rng.choice([None, '', '', '/sim/bin', '/nowhere:/bin', '/nowhere', '/bin'])
        for c in s['procs']:
            if rng.random() < 0.7:
                c['cmd'] = 6
    nreq = 0
    for op in s['ops']:
        if rng.random() < 0.3:
            p = rng.randrange(n)
            shape = rng.random()
            if shape < 0.4:
                subs = [['stop', p, 1], ['start', p, rng.choice([0, 1])]]
            elif shape < 0.55:
                subs = [['start', p, 1], ['stop', p, rng.choice([0, 1])]]
            elif shape < 0.7:
                subs = [['stop', p, 1], ['start', p, 1], ['stop', p, rng.choice([0, 1])]]
            elif shape < 0.8:
                subs = [['stop', p, 1], ['signal', p, rng.choice([1, 10, 15])], ['start', p, 0]]
            else:
                subs = [[rng.choice(['start', 'stop']), rng.randrange(n), rng.choice([0, 1])]
                        for _ in range(rng.randrange(2, 5))]
            acts = []
            for (what, i, arg) in subs:
                nreq += 1
                acts.append(['rpc', 8000 + nreq, what, i, arg])
            op['acts'] = list(op['acts']) + [['multicall', acts]]
        if rng.random() < 0.5:
            op['acts'] = list(op['acts']) + [['poll']]
    s['ops'] += [{'now': s['ops'][-1]['now'] + 1 + j, 'acts': [['poll']], 'forkq': [], 'killq': []} for j in range(3)]
    return s


def multicall_stream(chk):
    n = 500 if chk.tier == 'quick' else 6000
    hits = 0
    deferred = 0
    for k in range(n):
        s = multicall_script(chk.rng)
        pend_exit.clear(); prev_state.clear(); ever_started_before.clear(); pend_es.clear()
        r = life_driver.run_script(s)
        chk.dist('multicall:' + str(r['ended']))
        msgs = [m(s, r) for m in (mon_c06, mon_c13, mon_c04, mon_c02)]
        if r.get('multicall_errors'):
            msgs.append('system.multicall: ' + '; '.join(r['multicall_errors'][:3]))
        for msg in msgs:
            if msg:
                hits += 1
                if hits <= 5:
                    chk.violation({'kind': 'system.multicall history: property monitor rejects the implementation trace',
                                   'message': msg, 'script': s, 'implementation': jsonable_result(r)})
    return n, hits


def _mc_res(r):
    return 'Val %d' % r[1] if r[0] == 'val' else 'Flt %d' % r[1]


def _mc_beh(b):
    return 'Imm (%s)' % _mc_res(b[1]) if b[0] == 'imm' else 'Defer %d%%nat (%s)' % (b[1], _mc_res(b[2]))


def run_multicall(behs, npolls):
    """The real SystemNamespaceRPCInterface.multicall over a scripted namespace: call k answers at once or hands back a
    callback that says NOT_DONE_YET a given number of times; ('exn', 30) stands for an exception that is no RPCError
    (reported as fault FAILED).  Returns (events, answer) after multicall() and at most npolls polls of the envelope."""
    from supervisor.xmlrpc import SystemNamespaceRPCInterface, RPCError
    from supervisor.http import NOT_DONE_YET
    events = []

    def give(k, r):
        events.append(('done', k, (r[0] if r[0] != 'exn' else 'flt', r[1])))
        if r[0] == 'val':
            return r[1]
        if r[0] == 'flt':
            raise RPCError(r[1])
        raise KeyError('scripted')

    class NS(object):
        def call(self, k):
            events.append(('invoke', k))
            b = behs[k]
            if b[0] == 'imm':
                return give(k, b[1])
            left = [b[1]]

            def cb():
                if left[0] > 0:
                    left[0] -= 1
                    return NOT_DONE_YET
                return give(k, b[2])
            return cb
    iface = SystemNamespaceRPCInterface([('t', NS())])
    v = iface.multicall([{'methodName': 't.call', 'params': [k]} for k in range(len(behs))])
    for _ in range(npolls):
        if not callable(v):
            break
        w = v()
        if w is not NOT_DONE_YET:
            v = w
    if callable(v):
        return events, None
    out = []
    for x in v:
        if isinstance(x, dict) and 'faultCode' in x:
            out.append(('flt', x['faultCode']))
        else:
            out.append(('val', x))
    return events, out


def multicall_corr(chk, wd):
    """Model <-> code for system.multicall (coq/Life/Multicall.v, theorems in MulticallProofs.v): every list of up to
    three calls over seven behaviours and every number of polls up to two more than needed, then random longer lists;
    events (invoke / answered, in order) and the envelope's answer are compared inside Coq."""
    import itertools
    B = [('imm', ('val', 1)), ('imm', ('flt', 10)), ('imm', ('exn', 30)), ('defer', 0, ('val', 2)), ('defer', 1, ('val', 3)),
         ('defer', 2, ('flt', 70)), ('defer', 1, ('exn', 30))]
    lists = [[]]
    for n in (1, 2, 3):
        lists += [list(t) for t in itertools.product(B, repeat=n)]
    for _ in range(200 if chk.tier == 'quick' else 3000):
        lists.append([chk.rng.choice(B + [('defer', chk.rng.randrange(0, 6), ('val', chk.rng.randrange(0, 50)))])
                      for _k in range(chk.rng.randrange(4, 10))])
    cases, kept = [], []
    for behs in lists:
        need = sum(b[1] + 1 for b in behs if b[0] == 'defer')
        polls = range(0, need + 3) if len(behs) <= 3 else [chk.rng.randrange(0, need + 2), need]
        for n in polls:
            try:
                ev, ans = run_multicall(behs, n)
            except BaseException as e:      # noqa: an exception out of multicall itself is a verdict
                chk.violation({'kind': 'system.multicall raised', 'calls': behs, 'polls': n, 'error': repr(e)})
                return len(cases), 1
            tr = '[' + '; '.join('Invoke %d%%nat' % e[1] if e[0] == 'invoke' else 'Done %d%%nat (%s)' % (e[1], _mc_res(e[2]))
                                 for e in ev) + ']'
            a = 'None' if ans is None else 'Some [' + '; '.join(_mc_res(r) for r in ans) + ']'
            cases.append('([%s], %d%%nat, %s, %s)' % ('; '.join(_mc_beh(_exn_as_flt(b)) for b in behs), n, tr, a))
            kept.append((behs, n, ev, ans))
    bad, errs = vlib.coq_compare(['SV.Life.Multicall'], 'mcase', 'check_mcase', cases, wd, shard=500, tag='mcall')
    for e in errs[:2]:
        chk.violation({'kind': 'model evaluation failed (multicall)', 'error': e}, nofail=True)
    for i in bad[:3]:
        behs, n, ev, ans = kept[i]
        chk.violation({'kind': 'system.multicall: model and implementation disagree',
                       'calls': behs, 'polls_after_multicall': n, 'implementation_events': ev, 'implementation_answer': ans,
                       'explanation': 'a multicall is a sequence of requests: call k+1 is invoked when call k has answered '
                                      '(theorems c13_multicall_*); the real SystemNamespaceRPCInterface.multicall over a '
                                      'scripted namespace did something else'})
    return len(cases), len(bad)


def _exn_as_flt(b):
    fix = lambda r: ('flt', r[1]) if r[0] == 'exn' else r
    return ('imm', fix(b[1])) if b[0] == 'imm' else ('defer', b[1], fix(b[2]))


def dynamic_script(rng, U=2):
    """Groups added by RPC at run time, then a shutdown/restart: outside the Coq model (static group set), judged by
    the monitors only (C05 order, exit condition, no fork after the request)."""
    ng = rng.choice([2, 3, 3, 4])
    prios = [rng.choice([1, 3, 5, 7, 9]) for _ in range(ng)]
    confs, groups = [], []
    for g in range(ng):
        k = rng.choice([1, 1, 2])
        idx = []
        for _ in range(k):
            idx.append(len(confs))
            confs.append(mkconf(startsecs=rng.choice([0, 1]), stopwaitsecs=rng.choice([1, 2]), priority=rng.choice([1, 5]),
                                autorestart=rng.choice([0, 1, 2]), group=g))
        groups.append({'priority': prios[g], 'procs': idx, 'initial': 1 if g == 0 or rng.random() < 0.4 else 0})
    t = 200
    ops = [{'now': t, 'acts': []}]
    req = 0
    late = [g for g in range(ng) if not groups[g]['initial']]
    rng.shuffle(late)
    for g in late:
        t += rng.choice([1, 2, 4])
        req += 1
        ops.append({'now': t, 'acts': [['addgroup', g, req]]})
        t += 2
        ops.append({'now': t, 'acts': []})
    # a group is stopped and removed at run time; the children of the other groups go on living, exit and must still
    # be attributed (removal must not disturb the pid table entries of other groups, equal priorities included)
    removed = None
    if rng.random() < 0.5 and ng >= 2:
        g = rng.randrange(ng)
        removed = g
        t += 2
        req += 1
        ops.append({'now': t, 'acts': [['rpc', 500 + req, 'stopgroup', g, 1]], 'killq': []})
        t += 2
        ops.append({'now': t, 'acts': [['poll']]})
        t += 1
        req += 1
        ops.append({'now': t, 'acts': [['removegroup', g, 600 + req]]})
        for _ in range(rng.choice([1, 2, 3])):
            t += 2
            ops.append({'now': t, 'acts': [['exit', rng.randrange(4), rng.choice([0, 1])]]})
        t += 2
        ops.append({'now': t, 'acts': []})
    if rng.random() < 0.4:
        # the configuration is read again (reloadConfig) while children are alive: they must stay tracked
        t += 1
        req += 1
        edited = rng.random() < 0.6
        ops.append({'now': t, 'acts': [['reread', 700 + req, 1 if edited else 0], ['exit', rng.randrange(4), 0]]})
        t += 2
        acts = [['exit', rng.randrange(4), 1]]
        active = [g_ for g_ in range(ng) if g_ != removed]
        if rng.random() < 0.7 and active:
            # adding a group that is already active is refused (ALREADY_ADDED), whether or not the file now describes it
            # differently: its processes and their children stay as they are
            req += 1
            acts = [['addgroup', rng.choice(active), 800 + req]] + acts
        ops.append({'now': t, 'acts': acts})
        t += 2
        ops.append({'now': t, 'acts': []})
    t += 4
    ops.append({'now': t, 'acts': [['signal', rng.choice([15, 1, 2])]] if rng.random() < 0.7 else [['rpc', req + 1, rng.choice(['shutdown', 'restart'])]]})
    for k in range(14):
        t += rng.choice([1, 2, 3])
        ops.append({'now': t, 'acts': [], 'killq': [1, 1] if rng.random() < 0.4 else []})
    s = {'U': U, 'procs': confs, 'groups': groups, 'ops': ops}
    if rng.random() < 0.5:
        # event-listener pools take part in the shutdown order like any other group
        s['pools'] = [{'events': rng.choice([['EVENT'], ['PROCESS_STATE'], ['SUPERVISOR_STATE_CHANGE', 'TICK_5']]),
                       'buffer': rng.choice([1, 10]), 'procs': rng.choice([1, 2]), 'priority': rng.choice([1, 3, 4, 5, 8, 9, 999])}
                      for _ in range(rng.choice([1, 1, 2]))]
    return s


def dynamic_stream(chk):
    n = 400 if chk.tier == 'quick' else 5000
    hits = 0
    for k in range(n):
        s = dynamic_script(chk.rng)
        pend_exit.clear()
        r = life_driver.run_script(s)
        chk.dist('dynamic:' + str(r['ended']))
        for m in (mon_c06, mon_c01, mon_c02, mon_c05):
            msg = m(s, r)
            if msg:
                hits += 1
                if hits <= 5:
                    chk.violation({'kind': 'dynamic-group history: property monitor rejects the implementation trace',
                                   'monitor': m.__name__, 'message': msg, 'script': s, 'implementation': jsonable_result(r)})
    return n, hits


SIGNAME = {15: 'TERM', 2: 'INT', 1: 'HUP', 9: 'KILL', 10: 'USR1', 3: 'QUIT', 12: 'USR2'}


def config_tie(chk, wd):
    """The policy options the lifecycle theorems are stated over must be what the configuration file says: parse
    generated [program:x] sections with the REAL ServerOptions and compare every policy option (all grid values,
    zero/false/empty included) with the configured value.  A mismatch is reported with the file text."""
    from supervisor.options import ServerOptions
    from supervisor import datatypes
    rng = chk.rng
    cases = []
    grid = []
    for ss in (0, 1, 2, 5):
        for sr in (0, 1, 3):
            grid.append(dict(startsecs=ss, startretries=sr))
    for au in (0, 1):
        for ar in (0, 1, 2):
            grid.append(dict(autostart=au, autorestart=ar))
    for ec in ([0], [0, 2], [1], [255], [2, 3, 4], []):
        grid.append(dict(exitcodes=ec))
    for sig in sorted(SIGNAME):
        for sw in (0, 1, 10):
            grid.append(dict(stopsignal=sig, stopwaitsecs=sw))
    for sa, ka in ((0, 0), (0, 1), (1, 1)):
        grid.append(dict(stopasgroup=sa, killasgroup=ka))
    for pr in (0, 1, 999, -1):
        grid.append(dict(priority=pr))
    for _ in range(60):
        grid.append(dict(startsecs=rng.choice([0, 1, 7]), startretries=rng.choice([0, 2, 9]), autostart=rng.choice([0, 1]),
                         autorestart=rng.choice([0, 1, 2]), exitcodes=rng.choice([[0], [3, 4], []]), stopsignal=rng.choice(sorted(SIGNAME)),
                         stopwaitsecs=rng.choice([0, 3]), priority=rng.choice([0, 5])))
    lines = ['[supervisord]', '']
    for k, g in enumerate(grid):
        lines.append('[program:q%d]' % k)
        lines.append('command=/bin/cat')
        for key, v in sorted(g.items()):
            if key == 'autorestart':
                v = {0: 'false', 1: 'unexpected', 2: 'true'}[v]
            elif key in ('autostart', 'stopasgroup', 'killasgroup'):
                v = 'true' if v else 'false'
            elif key == 'exitcodes':
                v = ','.join(str(x) for x in v)
            elif key == 'stopsignal':
                v = SIGNAME[v]
            lines.append('%s=%s' % (key, v))
        lines.append('')
    text = '\n'.join(lines)
    path = os.path.join(wd, 'tie.conf')
    with open(path, 'w') as f:
        f.write(text)
    o = ServerOptions()
    o.configfile = path
    try:
        o.process_config(do_usage=False)
    except Exception as e:
        chk.violation({'kind': 'the real parser rejected a well-formed policy configuration', 'error': repr(e), 'file': text[:3000]})
        return 0
    by_name = {}
    for gc in o.process_group_configs:
        for pc in gc.process_configs:
            by_name[pc.name] = pc
    AR = {0: False, 1: datatypes.RestartWhenExitUnexpected, 2: datatypes.RestartUnconditionally}
    bad = 0
    gprio = dict((gc.name, gc.priority) for gc in o.process_group_configs)
    for k, g in enumerate(grid):
        # the group made from a [program:x] section takes the section's priority (the shutdown order is by group)
        if gprio.get('q%d' % k) != g.get('priority', 999):
            bad += 1
            if bad <= 3:
                chk.violation({'kind': 'group priority differs from the configuration file', 'program': 'q%d' % k,
                               'configured': g.get('priority', 'absent (default 999)'), 'parsed': gprio.get('q%d' % k),
                               'section': [l for l in lines[lines.index('[program:q%d]' % k):][:14]]})
        pc = by_name.get('q%d' % k)
        if pc is None:
            chk.violation({'kind': 'configured program missing after parse', 'program': 'q%d' % k})
            continue
        for key, v in g.items():
            got = getattr(pc, key)
            want = AR[v] if key == 'autorestart' else (bool(v) if key in ('autostart', 'stopasgroup', 'killasgroup') else v)
            if key == 'killasgroup' and g.get('stopasgroup'):
                want = True
            if got != want or (key != 'autorestart' and type(got) is not type(want) and not isinstance(got, int)):
                bad += 1
                if bad <= 3:
                    chk.violation({'kind': 'policy option differs from the configuration file', 'program': 'q%d' % k,
                                   'option': key, 'configured': repr(v), 'parsed': repr(got),
                                   'section': [l for l in lines[lines.index('[program:q%d]' % k):][:14]]})
    return len(grid)


def first_diff_prefix(script, wd, tag):
    """Shortest prefix of the script on which model and implementation differ (binary search)."""
    ops = script['ops']
    lo, hi = 1, len(ops)

    def differs(k):
        s = dict(script)
        s['ops'] = ops[:k]
        r = life_driver.run_script(s)
        bad, errs = vlib.coq_compare(life_gen.IMPORTS, 'lcase', 'check_case', [life_gen.case_term(s, r)], wd,
                                     preamble=life_gen.PREAMBLE, tag='%s_%d' % (tag, k))
        return bool(bad or errs), s, r
    while lo < hi:
        mid = (lo + hi) // 2
        d, _, _ = differs(mid)
        if d:
            hi = mid
        else:
            lo = mid + 1
    d, s, r = differs(lo)
    return s, r


def jsonable_result(r):
    return {'snaps': r['snaps'], 'trace': [list(map(lambda x: int(x) if hasattr(x, '__int__') and not isinstance(x, bool) else x, e))
                                           for e in r['trace']], 'ended': r['ended'], 'crash': r.get('crash')}


def run_property(chk, which, prop_rel):
    import c01_states
    proved = chk.prove(prop_rel, gens=[c01_states.generate])
    with vlib.WorkDir(which.lower()) as wd:
        _run(chk, which, prop_rel, proved, wd)


def _run(chk, which, prop_rel, proved, wd):
    scripts, depth, nalpha, nconf = gen_scripts(chk, which)
    cases, kept = [], []
    distinct = set()
    monitor_hits = 0
    known_c13 = 0
    mons = [MONITORS[m] for m in ('C01', 'C02', 'C03', 'C04', 'C05', 'C06', 'C13')]   # every run is judged by all of them
    KNOWN.clear()
    for (s, origin) in scripts:
        pend_exit.clear(); prev_state.clear(); ever_started_before.clear(); pend_es.clear()
        r = life_driver.run_script(s)
        chk.dist('origin:' + origin)
        chk.dist('ended:' + str(r['ended']))
        for e in r['trace']:
            chk.dist('effect:' + e[0])
        for m in mons:
            msg = m(s, r)
            if msg:
                monitor_hits += 1
                if monitor_hits <= 5:
                    chk.violation({'kind': 'property monitor rejects the implementation trace', 'monitor': m.__name__,
                                   'message': msg, 'script': s, 'implementation': jsonable_result(r)})
        canon = life_gen.canonical(r)
        if len(r['trace']) > 1 and canon not in distinct:
            distinct.add(canon)
        cases.append(life_gen.case_term(s, r))
        kept.append((s, r))
    bad, errs = vlib.coq_compare(life_gen.IMPORTS, 'lcase', 'check_case', cases, wd, preamble=life_gen.PREAMBLE,
                                 shard=150, tag='life')
    for e in errs[:3]:
        chk.violation({'kind': 'model evaluation failed', 'error': e}, nofail=True)
    for i in bad[:4]:
        s, r = kept[i]
        s2, r2 = first_diff_prefix(s, wd, 'shrink%d' % i)
        msgs = [m(s2, r2) for m in MONITORS.values()]
        msgs = [m for m in msgs if m]
        val, _ = vlib.coq_eval(life_gen.IMPORTS, 'model_answer %s' % life_gen.case_term(s2, r2), wd,
                               preamble=life_gen.PREAMBLE, tag='ans%d' % i)
        chk.violation({'kind': 'model and implementation disagree on this history',
                       'script': s2, 'implementation': jsonable_result(r2), 'model_answer': (val or '')[:6000],
                       'monitor_verdicts': msgs,
                       'explanation': 'the Coq lifecycle model, about which the %s theorems are proved, predicts a different '
                                      'trace or boundary snapshot than the real code produced' % which},
                      nofail=not msgs)
    texts = {
        'C13-start-stopping': ('C13', 'startProcess(name, wait=false) on a STOPPING process answers true although no child is forked '
                                      '(spawn() returns early because the old child is still there)'),
        'C13-stop-unknown': ('C13', 'stopProcess(name, wait=true) answers true for a process whose kill failed (state UNKNOWN, which counts '
                                    'as stopped) although its child has not been reaped'),
        'C03-no-positive-lifetime': ('C03', 'a child reaped at a clock reading not greater than its (rollback-adjusted) start reading is '
                                            'treated as a successful start although it lived less than startsecs'),
    }
    for fid, cnt in sorted(KNOWN.items()):
        prop, text = texts[fid]
        if prop == which:
            chk.known_finding(fid, '%s; %d such histories explored, all agree with the model' % (text, cnt))
    nh = 0
    if which == 'C06':
        nh, hh = hostile_stream(chk, wd)
        monitor_hits += hh
        np_, hp = poller_stream(chk, wd)
        nh += np_
        monitor_hits += hp
    if which in ('C03', 'C04', 'C05'):
        nh += config_tie(chk, wd)
    if which == 'C02':
        # exits that must still be attributed when the reaper meets hostile output, faults or listener pools
        nh2, hh2 = hostile_stream(chk, wd, scale=0.4)
        nh += nh2
        monitor_hits += hh2
    if which in ('C03', 'C04', 'C02', 'C13'):
        npl, hpl = pool_stream(chk)
        nh += npl
        monitor_hits += hpl
    if which == 'C13':
        nm, hm = multicall_stream(chk)
        nh += nm
        monitor_hits += hm
        nc, bc = multicall_corr(chk, wd)
        nh += nc
        monitor_hits += bc
        chk.coverage['multicall_model_cases'] = nc
    if which in ('C05', 'C02'):
        nd, hd = dynamic_stream(chk)
        nh += nd
        monitor_hits += hd
    if not proved:
        chk.violation({'kind': 'proof obligation no longer checks', 'detail': chk.proof_failure, 'file': 'coq/' + prop_rel},
                      nofail=not (bad or monitor_hits))
    cov = chk.coverage
    cov['evaluations'] = len(cases) + nh
    cov['hostile_histories_monitored'] = nh
    cov['distinct_nontrivial'] = len(distinct)
    cov['traces_validated_against_impl'] = len(cases)
    cov['exhaustive'] = False
    cov['rule'] = ('scripts: corpus, then ALL words of length %d over a %d-letter pass alphabet (clock steps, jumps, exits, '
                   'start/stop requests, signals, fork/pipe/kill faults) for each of %d single-process configurations, '
                   'deterministic multi-group shutdown scripts, then random multi-process histories; every script is run by the '
                   'real Supervisor.runforever on the simulated kernel and by the Coq model; distinct_nontrivial = distinct '
                   '(snapshots, trace) outcomes with at least one effect beyond start-up' % (depth, nalpha, nconf))
    cov['samples'] = [{'script': kept[k][0], 'trace': jsonable_result(kept[k][1])['trace']} for k in (0, len(kept) // 2)]
    cov['monitor_rejections'] = monitor_hits


def replay_property(chk, which, prop_rel, path):
    with open(path) as f:
        obj = json.load(f)
    s = obj.get('script')
    if not s:
        print(json.dumps(obj, indent=1)[:3000])
        return run_property(chk, which, prop_rel)
    r = life_driver.run_script(s)
    print(json.dumps(jsonable_result(r), indent=1)[:6000])
    with vlib.WorkDir('replay') as wd:
        bad, errs = vlib.coq_compare(life_gen.IMPORTS, 'lcase', 'check_case', [life_gen.case_term(s, r)], wd,
                                     preamble=life_gen.PREAMBLE)
        msgs = [m(s, r) for m in MONITORS.values()]
        msgs = [m for m in msgs if m]
        if bad or errs or msgs:
            chk.violation({'kind': 'replay still fails', 'script': s, 'implementation': jsonable_result(r),
                           'monitor_verdicts': msgs}, nofail=not msgs)
    chk.coverage['evaluations'] = 1
    chk.coverage['distinct_nontrivial'] = 2
    chk.coverage['samples'] = [s]
    chk.coverage['rule'] = 'replay of one recorded script'
