"""C19 - rotating logs keep the newest output within the configured bounds.

Theorems: coq/props/C19.v over coq/C19/*.v.
Correspondence: the real RotatingFileHandler / FileHandler through
loggers.handle_file and a real Logger on real files under the work directory:
every write-size history up to a depth over {0,1,mb-1,mb,mb+1,3mb} for all
(maxbytes <= 6, backups <= 3) (exhaustive, as a prefix tree), random histories
with clear / reopen / external delete / external replace, several handlers on
one path, and the same through a real POutputDispatcher, Subprocess.removelogs
and the clearProcessLogs RPC method.  After every operation the directory
listing and every file's content are compared with the Coq model, by Coq.
"""
import itertools
import json
import os
import sys

import vlib
from vlib import coq_list

LEVEL = 'proof'
IMPORTS = ['SV.C19.Rotate', 'SV.C19.RotateCheck']
PRE = 'Open Scope Z_scope.'


def zl(b):
    return '[' + ';'.join(str(x) for x in b) + ']'


def snap_term(s):
    if s == 'raised':
        return 'Raised'
    return 'F[' + ';'.join('(%d,%s)' % (i, zl(c)) for i, c in sorted(s.items())) + ']'


def op_term(op):
    k = op[0]
    if k == 'w':
        return '(W %s)' % zl(op[-1])
    if k == 'c':
        return 'C'
    if k == 'r':
        return 'R'
    if k == 'd':
        return '(D %d)' % op[1]
    if k == 'x':
        return '(X %d %s)' % (op[1], zl(op[2]))
    raise AssertionError(op)


def mop_term(op):
    k = op[0]
    if k == 'w':
        return '(MWrite %d %s)' % (op[1], zl(op[2]))
    if k == 'c':
        return '(MClear %d)' % op[1]
    if k == 'r':
        return '(MReopen %d)' % op[1]
    raise AssertionError(op)


def sizes_for(mb):
    if mb == 0:
        return [0, 1, 3, 7]
    return sorted(set(s for s in (0, 1, mb - 1, mb, mb + 1, 3 * mb) if s >= 0))


# ------------------------------------------------------------- running the real code

def run_history(R, wd, mb, bk, ops, n=1, tag='h'):
    """[(op, snapshot or 'raised')] plus the initial snapshot.  `ops` for n == 1
    are single-handler ops; for n > 1 they carry the handler index."""
    rig = R.Rig(wd, mb, bk, n=n, tag=tag)
    try:
        s0 = rig.snap()
        out = []
        for op in ops:
            who = op[1] if (n > 1 and op[0] in 'wcr') else 0
            e = rig.apply(op, who)
            out.append((op, 'raised' if e is not None else rig.snap()))
            if e is not None:
                break
        return s0, out
    finally:
        rig.close()


def judge_history(R, mb, bk, s0, hist, n=1):
    """Judge an observed history with the property (single handler: all laws;
    the suffix law only while nothing external happened; clear removes the
    live log's content from what has to be kept)."""
    eff = b''
    external = False
    prev = s0
    for op, s in hist:
        if s == 'raised':
            return 'an exception came out of %r' % (op,)
        if not isinstance(s, dict):
            return 'foreign file %r' % (s,)
        k = op[0]
        if k == 'w':
            eff += bytes(op[-1])
        elif k == 'c':
            if isinstance(prev, dict) and 0 in prev and not external:
                eff = eff[:len(eff) - len(prev[0])]
        elif k in 'dx':
            external = True
        v = R.judge_sizes(s, mb, bk, after_write=(k == 'w')) if not external else \
            R.judge_sizes({i: c for i, c in s.items()}, 0, bk, False)
        if v:
            return v
        if not external:
            v = R.judge_suffix(s, eff)
            if v:
                return v
            if k in 'cr' and 0 not in s:
                return 'no file at the configured path after %r' % (op,)
            cat = b''.join(s[i] for i in sorted(s, reverse=True))
            if mb == 0 and s != {0: eff}:
                return 'maxbytes=0: the log does not hold everything written (%d of %d bytes)' % (len(cat), len(eff))
            if mb > 0 and k == 'w':
                msg = bytes(op[-1])
                before = prev.get(0, b'') if isinstance(prev, dict) else b''
                if bk >= 1 and len(cat) < len(msg):
                    return 'the message just written (%d bytes) is not in the files' % len(msg)
                if bk <= 0 and s.get(0) != (b'' if len(before + msg) >= mb else before + msg):
                    return 'backups=0: the log is neither the old content plus the message nor emptied at maxbytes'
        prev = s
    return None


def build_tree(R, wd, mb, bk, depth):
    """All write-size histories up to `depth`, as nested (snapshot, [(op, subtree)]).
    Returns [('violation', what, ops, hist)..., ('tree', term, node count)]."""
    sizes = sizes_for(mb)
    nodes = {}
    out = []
    rig = None
    for path in itertools.product(sizes, repeat=depth):
        # the part of the path already known needs no new snapshot
        known = 0
        while known < depth and path[:known + 1] in nodes:
            known += 1
        if known == depth:
            continue
        gen = R.Bytes()
        ops = [('w', list(gen.take(s))) for s in path]
        rig = R.Rig(wd, mb, bk, n=1, tag='t%d_%d' % (mb, bk))
        try:
            if () not in nodes:
                nodes[()] = rig.snap()
            hist = []
            for i, op in enumerate(ops):
                e = rig.apply(op)
                if i + 1 > known or e is not None:
                    s = 'raised' if e is not None else rig.snap()
                    nodes.setdefault(path[:i + 1], s)
                hist.append((op, nodes[path[:i + 1]]))
                if e is not None:
                    break
        finally:
            rig.close()
        v = judge_history(R, mb, bk, nodes[()], hist)
        if v:
            out.append(('violation', v, ops, hist))

    def term(prefix, gen_n, limit):
        kids = []
        if len(prefix) < limit:
            for s in sizes:
                p = prefix + (s,)
                if p in nodes:
                    msg = [((gen_n + i) % 250) + 1 for i in range(s)]
                    kids.append('(W %s,%s)' % (zl(msg), term(p, gen_n + s, limit)))
        return 'N(%s)[%s]' % (snap_term(nodes[prefix]), ';'.join(kids))

    # one case for the top of the tree, one per subtree below every prefix of length `cut`
    cut = 2 if depth >= 4 else 0
    if cut:
        out.append(('tree', '[]', term((), 0, cut), 0))
        for pre in itertools.product(sizes, repeat=cut):
            if pre in nodes:
                gen = R.Bytes()
                msgs = [list(gen.take(s)) for s in pre]
                out.append(('tree', '[' + ';'.join(zl(m) for m in msgs) + ']', term(pre, sum(pre), depth), 0))
        out[-1] = out[-1][:3] + (len(nodes),)
    else:
        out.append(('tree', '[]', term((), 0, depth), len(nodes)))
    return out


def tree_job(args):
    wd, mb, bk, depth = args
    vlib.ensure_impl_path()
    import c19_real as R
    return (mb, bk, depth, build_tree(R, wd, mb, bk, depth))


def random_ops(rng, mb, bk, length, external):
    gen_sizes = sizes_for(mb) + [2, 5]
    ops = []
    for _ in range(length):
        x = rng.random()
        if x < 0.6:
            ops.append(('w', rng.choice(gen_sizes)))
        elif x < 0.72:
            ops.append(('c',))
        elif x < 0.82:
            ops.append(('r',))
        elif external and x < 0.91:
            ops.append(('d', rng.randrange(0, max(bk, 0) + 2)))
        elif external:
            ops.append(('x', rng.randrange(0, max(bk, 0) + 1), rng.choice([0, 1, mb, mb + 2])))
        else:
            ops.append(('w', rng.choice(gen_sizes)))
    return ops


def realize_ops(R, ops):
    gen = R.Bytes()
    out = []
    for op in ops:
        if op[0] == 'w':
            out.append(('w', list(gen.take(op[1]))))
        elif op[0] == 'x':
            out.append(('x', op[1], [200 + (i % 50) for i in range(op[2])]))
        else:
            out.append(op)
    return out


# -------------------------------------------- through the real dispatcher / RPC

class _NullLogger(object):
    handlers = ()

    def __getattr__(self, name):
        return lambda *a, **k: None


def make_dispatcher_rig(wd, mb, bk, shared, tag='disp'):
    """A real Subprocess with real POutputDispatchers for stdout (and stderr,
    to the same file when `shared`), and the real RPC namespace over it."""
    import shutil
    from supervisor.options import ServerOptions, ProcessConfig
    from supervisor.process import Subprocess
    from supervisor.dispatchers import POutputDispatcher
    from supervisor import events, rpcinterface, states
    d = os.path.join(wd, tag)
    shutil.rmtree(d, ignore_errors=True)
    os.makedirs(d)
    base = os.path.join(d, 'log')
    options = ServerOptions()
    options.logger = _NullLogger()
    options.loglevel = 20
    options.strip_ansi = False
    options.mood = states.SupervisorStates.RUNNING
    feed = {}
    options.readfd = lambda fd: feed.pop(fd, b'')
    params = dict(
        name='p', uid=None, command='/bin/cat', directory=None, umask=None,
        priority=999, autostart=True, autorestart=False, startsecs=0, startretries=0,
        stdout_logfile=base, stdout_capture_maxbytes=0, stdout_events_enabled=False, stdout_syslog=False,
        stdout_logfile_backups=bk, stdout_logfile_maxbytes=mb,
        stderr_logfile=base if shared else None, stderr_capture_maxbytes=0,
        stderr_logfile_backups=bk, stderr_logfile_maxbytes=mb,
        stderr_events_enabled=False, stderr_syslog=False,
        stopsignal=15, stopwaitsecs=1, stopasgroup=False, killasgroup=False, exitcodes=(0,),
        redirect_stderr=False, environment=None, serverurl=None)
    pconfig = ProcessConfig(options, **params)
    proc = Subprocess(pconfig)
    proc.pid = 4242
    proc.dispatchers = {5: POutputDispatcher(proc, events.ProcessCommunicationStdoutEvent, 5)}
    if shared:
        proc.dispatchers[7] = POutputDispatcher(proc, events.ProcessCommunicationStderrEvent, 7)

    class GConfig(object):
        name = 'g'

    class Group(object):
        config = GConfig()
        processes = {'p': proc}

    class Sup(object):
        pass
    sup = Sup()
    sup.options = options
    sup.process_groups = {'g': Group()}
    iface = rpcinterface.SupervisorNamespaceRPCInterface(sup)
    return d, base, proc, feed, iface


def run_dispatcher_history(R, wd, mb, bk, ops, shared):
    """ops as for n handlers (who 0 = stdout channel, 1 = stderr channel);
    'c' goes through the clearProcessLogs RPC method (both channels), 'r'
    through Subprocess.reopenlogs (both channels)."""
    import shutil
    d, base, proc, feed, iface = make_dispatcher_rig(wd, mb, bk, shared)
    out = []
    try:
        for op in ops:
            try:
                with R.quiet_stderr():
                    if op[0] == 'w':
                        fd = 5 if op[1] == 0 else 7
                        feed[fd] = bytes(op[2])
                        proc.dispatchers[fd].handle_read_event()
                    elif op[0] == 'c':
                        iface.clearProcessLogs('g:p')
                    elif op[0] == 'r':
                        proc.reopenlogs()
                out.append((op, R.snapshot(d, base)))
            except Exception:
                out.append((op, 'raised'))
                break
    finally:
        for disp in proc.dispatchers.values():
            try:
                disp.close()
            except Exception:
                pass
        shutil.rmtree(d, ignore_errors=True)
    return out



# ---- reopen / clear / move-away in every phase of a capturing dispatcher

BEGIN = b'<!--XSUPERVISOR:BEGIN-->'
END = b'<!--XSUPERVISOR:END-->'
PHASES = ('normal', 'capture', 'partial_begin', 'partial_end', 'eof_held')
PHASE_OPS = ('reopen', 'removelogs', 'rpc_clear', 'move_reopen', 'move_removelogs', 'move_rpc_clear', 'disp_reopen',
             'disp_removelogs', 'move_disp_reopen', 'sigusr2', 'move_sigusr2', 'move_sigusr2_restarting',
             'move_sigusr2_shutdown', 'rpc_clear_all', 'move_rpc_clear_all', 'group_removelogs', 'move_group_reopen',
             # the same for a process in state UNKNOWN (a stop whose kill() failed: child alive, pipes and logs open)
             'move_sigusr2_unknown', 'move_group_reopen_unknown', 'move_reopen_unknown')
# after EOF only reopen-type operations make sense before the reap
EOF_OPS = ('move_reopen', 'move_sigusr2', 'move_sigusr2_shutdown', 'move_group_reopen', 'move_disp_reopen', 'reopen',
           'move_sigusr2_unknown')


class _Recorder(object):
    """Stream of an extra StreamHandler attached to a dispatcher's normallog: records,
    in order, every message the dispatcher hands to that logger."""

    def __init__(self, timeline, channel):
        self.timeline = timeline
        self.channel = channel

    def write(self, b):
        self.timeline.append(('w', self.channel, bytes(b)))

    def flush(self):
        pass


def make_capture_rig(wd, mb, bk, syslog=False, listener=False, tag='cap'):
    """A real ProcessGroup / Subprocess whose stdout and stderr POutputDispatchers both have a log
    file (separate directories) AND capture mode enabled (and, with `syslog`, a SyslogHandler
    next to the file handler), under a real Supervisor and the real RPC namespace."""
    import shutil
    from supervisor.options import ServerOptions, ProcessConfig, ProcessGroupConfig
    from supervisor.process import ProcessGroup
    from supervisor.supervisord import Supervisor
    from supervisor.dispatchers import POutputDispatcher, PEventListenerDispatcher
    from supervisor import events, rpcinterface, states, loggers
    d = os.path.join(wd, tag)
    shutil.rmtree(d, ignore_errors=True)
    bases = {}
    for ch in ('stdout', 'stderr'):
        os.makedirs(os.path.join(d, ch))
        bases[ch] = os.path.join(d, ch, 'log')
    os.makedirs(os.path.join(d, 'moved'))
    options = ServerOptions()
    options.logger = _NullLogger()
    options.loglevel = 20
    options.strip_ansi = False
    options.mood = states.SupervisorStates.RUNNING
    feed = {}
    options.readfd = lambda fd: feed.pop(fd, b'')
    params = dict(
        name='p', uid=None, command='/bin/cat', directory=None, umask=None,
        priority=999, autostart=True, autorestart=False, startsecs=0, startretries=0,
        stdout_logfile=bases['stdout'], stdout_capture_maxbytes=200, stdout_events_enabled=False, stdout_syslog=syslog,
        stdout_logfile_backups=bk, stdout_logfile_maxbytes=mb,
        stderr_logfile=bases['stderr'], stderr_capture_maxbytes=200,
        stderr_logfile_backups=bk, stderr_logfile_maxbytes=mb,
        stderr_events_enabled=False, stderr_syslog=syslog,
        stopsignal=15, stopwaitsecs=1, stopasgroup=False, killasgroup=False, exitcodes=(0,),
        redirect_stderr=False, environment=None, serverurl=None)
    group = ProcessGroup(ProcessGroupConfig(options, 'g', 999, [ProcessConfig(options, **params)]))
    proc = group.processes['p']
    proc.pid = 4242
    from supervisor.states import ProcessStates
    proc.state = ProcessStates.RUNNING
    proc.laststart = 1
    proc.dispatchers = {5: POutputDispatcher(proc, events.ProcessCommunicationStdoutEvent, 5),
                        7: POutputDispatcher(proc, events.ProcessCommunicationStderrEvent, 7)}
    if listener:
        # an event listener: its stdout is read by a PEventListenerDispatcher with a log of its own
        for h in proc.dispatchers[5].normallog.handlers:
            h.close()
        proc.dispatchers[5] = PEventListenerDispatcher(proc, 'stdout', 5)
    timeline = []
    filehandlers = {}
    for fd, ch in ((5, 'stdout'), (7, 'stderr')):
        nl = getattr(proc.dispatchers[fd], 'normallog', None) or proc.dispatchers[fd].childlog
        for h in nl.handlers:
            if isinstance(h, loggers.SyslogHandler):
                h._syslog = lambda msg: None                     # never talk to the real syslog
        fh = [h for h in nl.handlers if isinstance(h, loggers.FileHandler)][0]
        filehandlers[ch] = fh

        def rm(orig=fh.remove, ch=ch):
            orig()
            timeline.append(('rm', ch))

        def re_(orig=fh.reopen, ch=ch):
            orig()
            timeline.append(('r', ch))
        fh.remove, fh.reopen = rm, re_                           # observe what really reaches the file handler
        h = loggers.StreamHandler(_Recorder(timeline, ch))
        h.setFormat('%(message)s')
        h.setLevel(nl.level)
        nl.handlers.insert(0, h)                                 # first: sees each message as logged
    sup = Supervisor(options)                      # the real daemon object: handle_signal() is driven directly
    sup.process_groups = {'g': group}
    pending = []
    options.get_signal = lambda: pending.pop(0) if pending else None
    sup.pending_signals = pending
    iface = rpcinterface.SupervisorNamespaceRPCInterface(sup)
    iface.sup = sup
    iface.group = group
    iface.filehandlers = filehandlers
    return d, bases, proc, feed, iface, timeline


def capture_script(phase, opname, channel, cont, marker):
    """Harness steps: ('feed', channel, bytes) | ('op', name, channel) | ('finish',)."""
    other = 'stderr' if channel == 'stdout' else 'stdout'
    steps = [('feed', other, b'o' * 30)]
    if phase == 'eof_held':
        # the child's last short write is held back (capture on: it could be the start of a token), then EOF;
        # the dispatcher stays registered until the reap, when finish() flushes what it holds
        steps.append(('feed', channel, b'E' * 30))
        steps.append(('feed', channel, marker))             # <= 24 bytes: held back entirely
        steps.append(('feed', channel, b''))                # EOF: the dispatcher closes, readable() is False
        steps.append(('op', opname, channel))
        steps.append(('finish',))
        return steps
    if phase == 'normal':
        steps.append(('feed', channel, b'A' * 30))
    elif phase == 'capture':
        steps.append(('feed', channel, b'x' * 30 + BEGIN + b'captured-so-far'))
    elif phase == 'partial_begin':
        steps.append(('feed', channel, b'y' * 30 + BEGIN[:7]))
    else:  # inside a capture section with part of the END token held back
        steps.append(('feed', channel, b'z' * 30 + BEGIN + b'cap' * 10 + END[:9]))
    steps.append(('op', opname, channel))
    if phase in ('capture', 'partial_end'):
        tail = (b'more' + END) if phase == 'capture' else END[9:]
        if cont == 0:
            steps.append(('feed', channel, tail + marker))
        else:
            steps.append(('feed', channel, tail))
            steps.append(('feed', channel, marker))
    elif phase == 'partial_begin':
        steps.append(('feed', channel, (BEGIN[7:] + b'c' + END + marker) if cont == 0 else (b'-not-a-token ' + marker)))
    else:
        steps.append(('feed', channel, marker))
    steps.append(('feed', other, b'p' * 40))
    steps.append(('feed', channel, b'q' * 40))
    return steps


def run_capture_script(R, wd, mb, bk, steps, syslog=False, listener=False):
    """Returns (events [(('w', ch, bytes) | ('rm', ch) | ('r', ch) | ('d', ch)), snapshots or None],
    final snapshots, problems, tolerated exceptions)."""
    import shutil
    import signal
    from supervisor import states
    d, bases, proc, feed, iface, timeline = make_capture_rig(wd, mb, bk, syslog=syslog, listener=listener)
    fds = {'stdout': 5, 'stderr': 7}
    out = []
    problems = []
    tolerated = []
    moved = [0]
    dispatchers = dict(proc.dispatchers)

    def snaps():
        return {ch: R.snapshot(os.path.dirname(bases[ch]), bases[ch]) for ch in bases}

    def drain(upto_snap):
        # events recorded since the last step: only the last one carries the observed files
        while timeline:
            ev = timeline.pop(0)
            out.append((ev, None))
        if out:
            out[-1] = (out[-1][0], upto_snap)
    try:
        for st in steps:
            try:
                with R.quiet_stderr():
                    if st[0] == 'feed':
                        feed[fds[st[1]]] = st[2]
                        dispatchers[fds[st[1]]].handle_read_event()
                        drain(snaps())
                    elif st[0] == 'finish':
                        proc.finish(4242, 0)                 # the real reap path: flushes what the dispatchers hold
                        drain(snaps())
                    else:
                        name, ch = st[1], st[2]
                        if name.startswith('move_'):
                            # logrotate-style: the live log is moved away, then the daemon is told to reopen / clear
                            for c2 in ([ch] if name.startswith('move_disp_') else list(bases)):
                                if os.path.exists(bases[c2]):
                                    moved[0] += 1
                                    os.rename(bases[c2], os.path.join(d, 'moved', 'm%d' % moved[0]))
                                timeline.append(('d', c2))
                            drain(snaps())
                            name = name[5:]
                        if name.endswith('_unknown'):
                            from supervisor.states import ProcessStates
                            proc.state = ProcessStates.UNKNOWN
                            name = name[:-8]
                        expect = [ch] if name.startswith('disp_') else list(bases)
                        clearing = name in ('removelogs', 'rpc_clear', 'rpc_clear_all', 'group_removelogs', 'disp_removelogs')
                        try:
                            if name == 'reopen':
                                proc.reopenlogs()
                            elif name == 'group_reopen':
                                iface.group.reopenlogs()
                            elif name == 'removelogs':
                                proc.removelogs()
                            elif name == 'rpc_clear':
                                iface.clearProcessLogs('g:p')
                            elif name.startswith('sigusr2'):
                                # SIGUSR2 must be honoured in every mood (a long shutdown or restart is when logs get rotated too)
                                iface.sup.options.mood = {'sigusr2': states.SupervisorStates.RUNNING,
                                                          'sigusr2_restarting': states.SupervisorStates.RESTARTING,
                                                          'sigusr2_shutdown': states.SupervisorStates.SHUTDOWN}[name]
                                iface.sup.pending_signals.append(signal.SIGUSR2)
                                iface.sup.handle_signal()
                                iface.sup.options.mood = states.SupervisorStates.RUNNING
                            elif name == 'rpc_clear_all':
                                from supervisor.http import NOT_DONE_YET
                                cont = iface.clearAllProcessLogs()
                                res = cont()
                                while res is NOT_DONE_YET:
                                    res = cont()
                                if [r_['status'] for r_ in res] != [80]:
                                    raise AssertionError('clearAllProcessLogs answered %r' % (res,))
                            elif name == 'group_removelogs':
                                iface.group.removelogs()
                            elif name == 'disp_reopen':
                                dispatchers[fds[ch]].reopenlogs()
                            elif name == 'disp_removelogs':
                                dispatchers[fds[ch]].removelogs()
                            else:
                                raise AssertionError(name)
                        except AssertionError:
                            raise
                        except Exception as e:
                            # (until /repo 9c57c9e SyslogHandler had no remove() and the clearing calls raised here)
                            # whatever the caller is told, the files must stay usable: keep going, report both
                            if syslog and clearing:
                                tolerated.append(repr(e))
                                problems.append(('%s raised %r' % (st[1], e), None))
                            else:
                                raise
                        reached = list(timeline)
                        s = snaps()
                        drain(s)
                        for c2 in expect:
                            # the operation must reach the file handler of every channel it covers
                            # (remove() and reopen() for the clearing calls, reopen() for the others)
                            need = ('rm', 'r') if clearing else ('r',)
                            missing = [k_ for k_ in need if (k_, c2) not in reached]
                            if missing:
                                problems.append(('%s did not %s the %s log file handler' % (
                                    st[1], ' / '.join({'rm': 'remove()', 'r': 'reopen()'}[k_] for k_ in missing), c2), c2))
                        for c2 in expect:
                            if not (isinstance(s[c2], dict) and 0 in s[c2]):
                                problems.append(('after %s there is no file at the configured %s log path' % (st[1], c2), c2))
                            else:
                                h = iface.filehandlers[c2]
                                if h.stream.closed or os.fstat(h.stream.fileno()).st_ino != os.stat(bases[c2]).st_ino:
                                    problems.append(('after %s the %s file handler does not write to the file at its configured '
                                                     'path' % (st[1], c2), c2))
            except Exception as e:
                problems.append(('exception out of %r: %r' % (st[:2], e), None))
                break
    finally:
        with R.quiet_stderr():
            for h in iface.filehandlers.values():
                try:
                    h.close()
                except Exception:
                    pass
        shutil.rmtree(d, ignore_errors=True)
    final = None
    for ev, sn in reversed(out):
        if sn:
            final = sn
            break
    return out, final, problems, tolerated


def capture_history_terms(out, channel):
    """The single-handler model history of one channel: its writes and the remove / reopen /
    move-away operations that really reached its file handler.  remove() directly followed by
    reopen() is Clear; a remove() that was not followed by a reopen() leaves the file unlinked
    and the handler closed (ExtDelete 0; ReopenFails)."""
    evs = [(ev, snap) for ev, snap in out if ev[1] == channel]
    items = []
    i = 0
    while i < len(evs):
        ev, snap = evs[i]
        s = snap[channel] if snap else None
        if ev[0] == 'w':
            ops = [op_term(('w', list(ev[2])))]
        elif ev[0] == 'd':
            ops = [op_term(('d', 0))]
        elif ev[0] == 'r':
            ops = ['R']
        elif ev[0] == 'rm':
            if i + 1 < len(evs) and evs[i + 1][0][0] == 'r':
                ops = ['C']
                i += 1
                snap = evs[i][1]
                s = snap[channel] if snap else None
            else:
                ops = ['(D 0)', 'RF']
        else:
            raise AssertionError(ev)
        for j, o in enumerate(ops):
            last = (j == len(ops) - 1)
            items.append('(%s,%s)' % (o, 'Some (%s)' % snap_term(s) if (last and isinstance(s, dict)) else 'None'))
        i += 1
    return '[%s]' % ';'.join(items)



# ---- stream 6: configuration text -> handler class and parameters

DEF_MB, DEF_BK = 50 * 1024 * 1024, 10


def _bytesize(t):
    t = t.lower()
    for suf, m in (('kb', 1024), ('mb', 1024 * 1024), ('gb', 1024 ** 3)):
        if t.endswith(suf):
            return int(t[:-2]) * m
    return int(t)


def _observe_handler(h):
    from supervisor import loggers
    if isinstance(h, loggers.RotatingFileHandler):
        return (True, h.maxBytes, h.backupCount)
    if isinstance(h, loggers.FileHandler):
        return (False, 0, 0)
    return None


def config_stream(chk, R, wd):
    """Real config text / command line -> real ServerOptions -> make_logger() and
    POutputDispatcher._init_normallog(): which handler with which parameters."""
    import contextlib
    import io
    from supervisor.options import ServerOptions
    from supervisor.process import Subprocess
    from supervisor.dispatchers import POutputDispatcher, PEventListenerDispatcher
    from supervisor import events, loggers
    cases, meta = [], []
    d = os.path.join(wd, 'conf')
    os.makedirs(d, exist_ok=True)
    mbs = [None, '0', '1', '100', '1KB', '2MB', '3kb', '2mb', '1GB', '2gb', '1Gb']
    bks = [None, '0', '1', '3', '10']
    combos = list(itertools.product(mbs, bks))

    def record(kind, cmb, cbk, obs, detail):
        chk.dist('config:' + kind)
        if obs is None:
            chk.violation(_j({'kind': 'no file handler was built for a configured log file', 'where': kind, 'detail': detail}))
            return
        emb = DEF_MB if cmb is None else _bytesize(cmb)
        ebk = DEF_BK if cbk is None else int(cbk)
        rot, omb, obk = obs
        # the property, on the implementation: configured values (0 included) are the handler's
        if rot != (emb != 0) or (rot and (omb, obk) != (emb, ebk)):
            chk.violation(_j({'kind': 'C19 fails on the implementation (configuration)', 'where': kind,
                              'what': 'configured maxbytes=%r backups=%r but the log got %s' % (
                                  cmb, cbk, ('RotatingFileHandler(maxBytes=%d, backupCount=%d)' % (omb, obk)) if rot
                                  else 'a plain FileHandler (never rotated)'),
                              'detail': detail}))
        cases.append('(%d,%s,%d,%s,%s,%d,%d)' % (
            DEF_MB, 'None' if cmb is None else 'Some %d' % _bytesize(cmb),
            DEF_BK, 'None' if cbk is None else 'Some %d' % int(cbk),
            'true' if rot else 'false', omb, obk))
        meta.append((kind, cmb, cbk, obs))

    for i, (mb, bk) in enumerate(combos):
        pmb, pbk = combos[(i * 7 + 3) % len(combos)]       # stdout of the program
        emb, ebk = combos[(i * 13 + 5) % len(combos)]      # stderr of the program
        for source in ('file', 'cmdline'):
            if source == 'cmdline' and (mb is None and bk is None):
                continue
            actlog = os.path.join(d, 'supervisord.log')
            lines = ['[supervisord]', 'logfile=%s' % actlog, 'pidfile=%s' % os.path.join(d, 'x.pid'), 'childlogdir=%s' % d]
            if i % 2:
                lines.append('nodaemon=true')
            args = ['-c', os.path.join(d, 's.conf')]
            if source == 'file':
                if mb is not None:
                    lines.append('logfile_maxbytes=%s' % mb)
                if bk is not None:
                    lines.append('logfile_backups=%s' % bk)
            else:
                # the file says something else; the command line wins
                lines += ['logfile_maxbytes=7', 'logfile_backups=7']
                if mb is not None:
                    args += ['-y', mb]
                if bk is not None:
                    args += ['-z', bk]
            lines += ['[program:p]', 'command=/bin/cat', 'stdout_logfile=%s' % os.path.join(d, 'p.out'),
                      'stderr_logfile=%s' % os.path.join(d, 'p.err')]
            for key, v in (('stdout_logfile_maxbytes', pmb), ('stdout_logfile_backups', pbk),
                           ('stderr_logfile_maxbytes', emb), ('stderr_logfile_backups', ebk)):
                if v is not None:
                    lines.append('%s=%s' % (key, v))
            text = '\n'.join(lines) + '\n'
            with open(os.path.join(d, 's.conf'), 'w') as f:
                f.write(text)
            opened = []
            try:
                with contextlib.redirect_stdout(io.StringIO()), R.quiet_stderr():
                    o = ServerOptions()
                    o.realize(args=args)
                    o.make_logger()
                    opened += o.logger.handlers
                    fh = [h for h in o.logger.handlers if isinstance(h, loggers.FileHandler)]
                    pconfig = o.process_group_configs[0].process_configs[0]
                    proc = Subprocess(pconfig)
                    dout = POutputDispatcher(proc, events.ProcessCommunicationStdoutEvent, 5)
                    derr = POutputDispatcher(proc, events.ProcessCommunicationStderrEvent, 7)
                    opened += dout.normallog.handlers + derr.normallog.handlers
                    # an event listener's stdout log is built by PEventListenerDispatcher itself: same rule
                    dlis = PEventListenerDispatcher(Subprocess(pconfig), 'stdout', 9)
                    opened += dlis.childlog.handlers
                detail = {'config': text, 'args': args[2:]}
                cm = mb if source == 'file' else (mb if mb is not None else '7')
                cb = bk if source == 'file' else (bk if bk is not None else '7')
                record('activity:' + source, cm, cb, _observe_handler(fh[0]) if fh else None, detail)
                if source == 'file':
                    record('stdout', pmb, pbk, _observe_handler(dout.normallog.handlers[0]), detail)
                    record('stderr', emb, ebk, _observe_handler(derr.normallog.handlers[0]), detail)
                    record('listener_stdout', pmb, pbk, _observe_handler(dlis.childlog.handlers[0]), detail)
            finally:
                for h in opened:
                    try:
                        h.close()
                    except Exception:
                        pass
                for n in os.listdir(d):
                    if n != 's.conf':
                        try:
                            os.remove(os.path.join(d, n))
                        except OSError:
                            pass
    bad, errs = vlib.coq_compare(IMPORTS, 'Z * option Z * Z * option Z * bool * Z * Z', 'check_config', cases, wd,
                                 tag='conf', shard=200, preamble=PRE)
    for e in errs:
        chk.violation({'kind': 'model evaluation failed', 'part': 'configuration', 'error': e}, nofail=True)
    for i in bad[:5]:
        chk.violation(_j({'kind': 'model and implementation disagree', 'part': 'configuration -> handler parameters',
                          'case': meta[i]}), nofail=True)
    return len(cases)


# ---- stream 7: the activity logger with 1-3 handlers of every kind in every order

class _Stub(object):
    pass


def activity_stream(chk, R, wd):
    """clearLog RPC / ServerOptions.reopenlogs (SIGUSR2) on a real Logger carrying
    stream, file, rotating and syslog handlers in every order; also after the file
    was moved away.  Judge: afterwards every file handler is open on the file at
    its configured path and what is logged later is there."""
    import io
    import shutil
    from supervisor.options import ServerOptions
    from supervisor import loggers, rpcinterface, states
    kinds = ('stream', 'file', 'rot', 'syslog')
    orders = []
    for n in (1, 2, 3):
        orders += list(itertools.permutations(kinds, n))
    cases, meta = [], []
    n_scripts = 0
    for order in orders:
        if 'file' not in order and 'rot' not in order:
            continue
        for opname in ('clearLog', 'reopenlogs', 'move_reopenlogs', 'move_clearLog', 'move_reopenlogs_restarting',
                       'move_reopenlogs_shutdown', 'movecreate_reopenlogs'):
            n_scripts += 1
            d = os.path.join(wd, 'act')
            shutil.rmtree(d, ignore_errors=True)
            os.makedirs(os.path.join(d, 'moved'))
            timeline = []
            logger = loggers.getLogger()
            paths = {}
            params = {'file': (0, 0), 'rot': (40, 1)}
            with R.quiet_stderr():
                rec = loggers.StreamHandler(_Recorder(timeline, 'all'))     # first: sees every message as logged
                rec.setFormat('%(message)s')
                logger.addHandler(rec)
                for k in order:
                    if k == 'stream':
                        h = loggers.StreamHandler(io.StringIO())
                        h.setFormat('%(message)s')
                        logger.addHandler(h)
                    elif k == 'syslog':
                        h = loggers.SyslogHandler()
                        h._syslog = lambda msg: None
                        h.setFormat('%(message)s')
                        logger.addHandler(h)
                    else:
                        os.makedirs(os.path.join(d, k))
                        paths[k] = os.path.join(d, k, 'log')
                        loggers.handle_file(logger, paths[k], '%(message)s', rotating=not not params[k][0],
                                            maxbytes=params[k][0], backups=params[k][1])
                        h = logger.handlers[-1]
                        orig = h.reopen

                        def wrapped(orig=orig, k=k):
                            orig()
                            timeline.append(('r', k))
                        h.reopen = wrapped
            main = 'file' if 'file' in order else 'rot'
            options = ServerOptions()
            options.logger = logger
            options.logfile = paths[main]
            options.mood = states.SupervisorStates.RUNNING
            orig_remove = options.remove

            def remove(path, orig_remove=orig_remove, main=main):
                orig_remove(path)
                timeline.append(('d', main))
            options.remove = remove
            from supervisor.supervisord import Supervisor
            import signal
            sup = Supervisor(options)
            pending = []
            options.get_signal = lambda: pending.pop(0) if pending else None
            iface = rpcinterface.SupervisorNamespaceRPCInterface(sup)
            events_out = []       # (event, {kind: snapshot} or None)
            problems = []

            def snaps():
                return {k: R.snapshot(os.path.dirname(p_), p_) for k, p_ in paths.items()}

            def drain():
                s_ = snaps()
                while timeline:
                    events_out.append((timeline.pop(0), None))
                if events_out:
                    events_out[-1] = (events_out[-1][0], s_)
            try:
                with R.quiet_stderr():
                    logger.info('first line of the activity log\n')
                    logger.info('x' * 30 + '\n')
                    drain()
                    name = opname
                    if name.startswith('movecreate_'):
                        # logrotate's default `create`: rename, then an EMPTY file is put at the path, then SIGUSR2
                        for k, p_ in paths.items():
                            os.rename(p_, os.path.join(d, 'moved', k))
                            timeline.append(('d', k))
                            open(p_, 'wb').close()
                            timeline.append(('x', k))
                        drain()
                        name = name[len('movecreate_'):]
                    if name.startswith('move_'):
                        for k, p_ in paths.items():
                            os.rename(p_, os.path.join(d, 'moved', k))
                            timeline.append(('d', k))
                        drain()
                        name = name[5:]
                    if name == 'clearLog':
                        if not os.path.exists(options.logfile):
                            # clearLog answers NO_FILE when the file is not there: recreate it as logrotate's `create` does
                            open(options.logfile, 'wb').close()
                            timeline.append(('x', main))
                            drain()
                        iface.clearLog()
                    else:
                        # SIGUSR2 -> Supervisor.handle_signal -> options.reopenlogs, in every mood
                        options.mood = {'reopenlogs': states.SupervisorStates.RUNNING,
                                        'reopenlogs_restarting': states.SupervisorStates.RESTARTING,
                                        'reopenlogs_shutdown': states.SupervisorStates.SHUTDOWN}[name]
                        pending.append(signal.SIGUSR2)
                        sup.handle_signal()
                        options.mood = states.SupervisorStates.RUNNING
                    drain()
                    s_ = snaps()
                    for k, p_ in paths.items():
                        h = [hh for hh in logger.handlers if getattr(hh, 'baseFilename', None) == p_][0]
                        if not os.path.exists(p_):
                            problems.append('after %s there is no file at the configured path of the %s handler (handlers: %s)'
                                            % (opname, k, ', '.join(order)))
                        elif h.stream.closed or os.fstat(h.stream.fileno()).st_ino != os.stat(p_).st_ino:
                            problems.append('after %s the %s handler does not write to the file at its configured path '
                                            '(handlers: %s)' % (opname, k, ', '.join(order)))
                    marker = 'MARK-%s-%s\n' % ('-'.join(order), opname)
                    logger.info(marker)
                    logger.info('y' * 20 + '\n')
                    drain()
                    s_ = snaps()
                    for k in paths:
                        files = s_[k]
                        cat = b''.join(files[i] for i in sorted(files, reverse=True)) if isinstance(files, dict) else b''
                        if marker.strip().encode() not in cat and not problems:
                            problems.append('what was logged after %s is not in the %s log at its configured path' % (opname, k))
            except Exception as e:
                problems.append('exception out of %s: %r' % (opname, e))
            finally:
                with R.quiet_stderr():
                    for h in logger.handlers:
                        try:
                            h.close()
                        except Exception:
                            pass
            chk.dist('activity:%s' % opname)
            chk.dist('activity_handlers:%d' % len(order))
            for pr in problems[:1]:
                chk.violation(_j({'kind': 'C19 fails on the implementation (activity log)', 'what': pr, 'handlers': list(order),
                                  'operation': opname, 'events': [[list(ev), sn] for ev, sn in events_out]}))
            for k in paths:
                items = []
                for ev, sn in events_out:
                    if ev[0] == 'w':
                        # SyslogHandler.emit rewrites the shared record's message line by line: a handler placed
                        # after a syslog handler receives the text without its trailing newline (supervisord itself
                        # never builds that order: the syslog handler is always added last)
                        raw = ev[2].rstrip(b'\n') if 'syslog' in order[:order.index(k)] else ev[2]
                        o = ('w', list(raw))
                    elif ev[1] != k:
                        continue
                    elif ev[0] == 'r':
                        o = ('r',)
                    elif ev[0] == 'd':
                        o = ('d', 0)
                    else:
                        o = ('x', 0, [])
                    s2 = sn[k] if sn else None
                    items.append('(%s,%s)' % (op_term(o), 'Some (%s)' % snap_term(s2) if isinstance(s2, dict) else 'None'))
                cases.append('(%d,%d,[%s])' % (params[k][0], params[k][1], ';'.join(items)))
                meta.append((order, opname, k))
            shutil.rmtree(d, ignore_errors=True)
    bad, errs = vlib.coq_compare(IMPORTS, 'Z * Z * list (op * option snap)', 'check_history_opt', cases, wd,
                                 tag='act', shard=60, preamble=PRE)
    for e in errs:
        chk.violation({'kind': 'model evaluation failed', 'part': 'activity log', 'error': e}, nofail=True)
    for i in bad[:5]:
        chk.violation(_j({'kind': 'model and implementation disagree', 'part': 'activity logger with several handlers',
                          'case': meta[i], 'coq_case': cases[i][:3000]}), nofail=True)
    return n_scripts, len(cases)


# ---- stream 8: clear / reopen while the log directory is missing, then repaired

def outage_stream(chk, R, wd):
    """Handler level (remove+reopen as removelogs does, reopen) and dispatcher /
    RPC level: the operation fails while the directory is gone (both before and
    after any change to the code); once the directory is back the same operation
    must succeed and later output must be in the file at the configured path."""
    import shutil
    from supervisor import loggers
    cases, meta = [], []
    n_scripts = 0
    for (mb, bk) in ((0, 0), (30, 1), (30, 0)):
        for level in ('handler', 'dispatcher'):
            for first in ('reopen', 'clear'):
                for second in ('reopen', 'clear'):
                    for repeat_fail in (1, 2):
                        n_scripts += 1
                        d = os.path.join(wd, 'outage')
                        shutil.rmtree(d, ignore_errors=True)
                        logdir = os.path.join(d, 'logs')
                        os.makedirs(logdir)
                        base = os.path.join(logdir, 'log')
                        hist = []        # (op tuple, snapshot or None)
                        problems = []
                        gen = R.Bytes()
                        if level == 'handler':
                            lg = loggers.getLogger()
                            loggers.handle_file(lg, base, '%(message)s', rotating=not not mb, maxbytes=mb, backups=bk)

                            def write(b):
                                lg.info(bytes(b))

                            def do(op):
                                for h in lg.handlers:
                                    if op == 'clear':
                                        h.remove()
                                    h.reopen()
                            closers = lg.handlers
                        else:
                            d2, base2, proc, feed, iface = make_dispatcher_rig(logdir, mb, bk, False, tag='sub')
                            base = base2

                            def write(b):
                                feed[5] = bytes(b)
                                proc.dispatchers[5].handle_read_event()

                            def do(op):
                                if op == 'clear':
                                    iface.clearProcessLogs('g:p')
                                else:
                                    proc.reopenlogs()
                            closers = [h for disp in proc.dispatchers.values() for h in disp.normallog.handlers]
                        logdir = os.path.dirname(base)

                        def snap():
                            return R.snapshot(logdir, base)
                        try:
                            with R.quiet_stderr():
                                m = list(gen.take(12))
                                write(m)
                                hist.append((('w', m), snap()))
                                gone = logdir + '.gone'
                                os.rename(logdir, gone)
                                for _ in range(repeat_fail):
                                    try:
                                        do(first)
                                        problems.append('harness: %s succeeded although the log directory is missing' % first)
                                    except Exception:
                                        hist.append((('cf',) if first == 'clear' else ('rf',), None))
                                os.rename(gone, logdir)          # the cause is repaired
                                try:
                                    do(second)
                                    s_ = snap()
                                    hist.append((('c',) if second == 'clear' else ('r',), s_))
                                    if not (isinstance(s_, dict) and 0 in s_):
                                        problems.append('after the repaired %s there is no file at the configured path' % second)
                                except Exception as e:
                                    problems.append('%s still fails after the log directory is back (%s earlier failed %d time(s)): %r'
                                                    % (second, first, repeat_fail, e))
                                if not problems:
                                    m = list(gen.take(10))
                                    write(m)
                                    s_ = snap()
                                    hist.append((('w', m), s_))
                                    cat = b''.join(s_[i] for i in sorted(s_, reverse=True)) if isinstance(s_, dict) else b''
                                    if bytes(m) not in cat and not (mb and bk <= 0):
                                        problems.append('output logged after the repaired %s is not in the file at the configured path' % second)
                        except Exception as e:
                            problems.append('exception out of a write: %r' % (e,))
                        finally:
                            with R.quiet_stderr():
                                for h in closers:
                                    try:
                                        h.close()
                                    except Exception:
                                        pass
                        chk.dist('outage:%s' % level)
                        for pr in problems[:1]:
                            chk.violation(_j({'kind': 'C19 fails on the implementation (log directory outage)', 'what': pr,
                                              'level': level, 'maxbytes': mb, 'backups': bk, 'failed_operation': first,
                                              'times_failed': repeat_fail, 'repeated_operation': second,
                                              'history': [[list(o), sn] for o, sn in hist]}))
                        cases.append('(%d,%d,[%s])' % (mb, bk, ';'.join(
                            '(%s,%s)' % ({'rf': 'RF', 'cf': 'CF'}.get(o[0]) or op_term(o),
                                         'Some (%s)' % snap_term(sn) if isinstance(sn, dict) else 'None') for o, sn in hist)))
                        meta.append((level, mb, bk, first, second, repeat_fail))
                        shutil.rmtree(d, ignore_errors=True)
    bad, errs = vlib.coq_compare(IMPORTS, 'Z * Z * list (op * option snap)', 'check_history_opt', cases, wd,
                                 tag='outage', shard=60, preamble=PRE)
    for e in errs:
        chk.violation({'kind': 'model evaluation failed', 'part': 'outage', 'error': e}, nofail=True)
    for i in bad[:5]:
        chk.violation(_j({'kind': 'model and implementation disagree', 'part': 'clear/reopen around a missing log directory',
                          'case': meta[i], 'coq_case': cases[i][:3000]}), nofail=True)
    return n_scripts



# ---- stream 9: a rotation that cannot be done (a backup name occupied by a directory)

def blocked_stream(chk, R, wd):
    """backups = N, <path>.N replaced by a directory: os.remove() on it raises (EISDIR / EPERM), the first
    step of doRollover fails.  The write must be kept, nothing may come out of the logging call, the
    dispatcher keeps reading, and once the directory is gone rotation resumes."""
    import shutil
    from supervisor import loggers
    cases, meta = [], []
    n_scripts = 0
    for (mb, bk) in ((10, 1), (30, 1), (10, 2)):
        for level in ('handler', 'dispatcher'):
            for nblocked in (1, 3):
                n_scripts += 1
                d = os.path.join(wd, 'blocked')
                shutil.rmtree(d, ignore_errors=True)
                os.makedirs(d)
                hist, problems = [], []
                gen = R.Bytes()
                if level == 'handler':
                    base = os.path.join(d, 'log')
                    lg = loggers.getLogger()
                    loggers.handle_file(lg, base, '%(message)s', rotating=True, maxbytes=mb, backups=bk)

                    def write(b):
                        lg.info(bytes(b))
                    closers = lg.handlers
                    alive = lambda: True
                else:
                    d2, base, proc, feed, iface = make_dispatcher_rig(d, mb, bk, False, tag='sub')

                    def write(b):
                        feed[5] = bytes(b)
                        proc.dispatchers[5].handle_read_event()
                    closers = [h for disp in proc.dispatchers.values() for h in disp.normallog.handlers]
                    alive = lambda: proc.dispatchers[5].readable()
                logdir = os.path.dirname(base)
                blocker = '%s.%d' % (base, bk)

                def snap():
                    return R.snapshot(logdir, base)
                try:
                    with R.quiet_stderr():
                        # fill the backups so that the next rotation has to replace <path>.N
                        for _ in range(bk + 1):
                            m = list(gen.take(mb + 2))
                            write(m)
                            hist.append((('w', m), snap()))
                        if os.path.exists(blocker):
                            os.remove(blocker)
                        os.mkdir(blocker)
                        hist.append((('d', bk), snap()))
                        for _ in range(nblocked):
                            m = list(gen.take(mb + 1))
                            try:
                                write(m)
                            except Exception as e:
                                problems.append('a rotation that could not be done raised out of the logging call: %r' % (e,))
                                break
                            hist.append((('wb', m), snap()))
                            if not alive():
                                problems.append('the dispatcher stopped reading after a failed rotation')
                                break
                        if not problems:
                            os.rmdir(blocker)
                            m = list(gen.take(3))
                            write(m)
                            s_ = snap()
                            hist.append((('w', m), s_))
                            cat = b''.join(s_[i] for i in sorted(s_, reverse=True)) if isinstance(s_, dict) else b''
                            if bytes(m) not in cat:
                                problems.append('output logged after the failed rotations is not in the files at the configured path')
                except Exception as e:
                    problems.append('exception: %r' % (e,))
                finally:
                    with R.quiet_stderr():
                        for h in closers:
                            try:
                                h.close()
                            except Exception:
                                pass
                chk.dist('blocked_rotation:%s' % level)
                for pr in problems[:1]:
                    chk.violation(_j({'kind': 'C19 fails on the implementation (rotation blocked)', 'what': pr, 'level': level,
                                      'maxbytes': mb, 'backups': bk, 'blocked_writes': nblocked,
                                      'history': [[list(o), sn] for o, sn in hist]}))
                cases.append('(%d,%d,[%s])' % (mb, bk, ';'.join(
                    '(%s,%s)' % ('(WB %s)' % zl(o[1]) if o[0] == 'wb' else op_term(o),
                                 'Some (%s)' % snap_term(sn) if isinstance(sn, dict) else 'None') for o, sn in hist)))
                meta.append((level, mb, bk, nblocked))
                shutil.rmtree(d, ignore_errors=True)
    bad, errs = vlib.coq_compare(IMPORTS, 'Z * Z * list (op * option snap)', 'check_history_opt', cases, wd,
                                 tag='blocked', shard=60, preamble=PRE)
    for e in errs:
        chk.violation({'kind': 'model evaluation failed', 'part': 'blocked rotation', 'error': e}, nofail=True)
    for i in bad[:5]:
        chk.violation(_j({'kind': 'model and implementation disagree', 'part': 'rotation blocked by a directory',
                          'case': meta[i], 'coq_case': cases[i][:3000]}), nofail=True)
    return n_scripts



# ---- stream 10: a transient open() failure when the handler is created over an existing log

def create_failure_stream(chk, R, wd):
    """The first open() of a new handler fails with a non-ESPIPE errno (EMFILE, ENOMEM: a respawn while
    descriptors are short).  Whatever the caller is told, the existing log must not be truncated; a
    later creation must append to it."""
    import errno
    import shutil
    import supervisor.loggers as L
    cases, meta = [], []
    n = 0
    for (mb, bk) in ((0, 0), (0, 3), (40, 1), (1000, 0)):
        for eno in (errno.EMFILE, errno.ENOMEM, errno.EACCES):
            n += 1
            d = os.path.join(wd, 'createfail')
            shutil.rmtree(d, ignore_errors=True)
            os.makedirs(d)
            base = os.path.join(d, 'log')
            gen = R.Bytes()
            hist, problems = [], []
            handlers = []

            def snap():
                return R.snapshot(d, base)
            try:
                with R.quiet_stderr():
                    lg = L.getLogger()
                    L.handle_file(lg, base, '%(message)s', rotating=not not mb, maxbytes=mb, backups=bk)
                    handlers += lg.handlers
                    old = list(gen.take(25))
                    lg.info(bytes(old))
                    hist.append((('w', old), snap()))
                    for h in lg.handlers:
                        h.close()                       # the process exited; its dispatchers are gone
                    state = {'left': 1}

                    def failing_open(*a, **k):
                        if state['left']:
                            state['left'] -= 1
                            raise OSError(eno, os.strerror(eno))
                        return open(*a, **k)
                    L.open = failing_open               # seen by FileHandler.__init__ / reopen before the builtin
                    try:
                        lg2 = L.getLogger()
                        try:
                            L.handle_file(lg2, base, '%(message)s', rotating=not not mb, maxbytes=mb, backups=bk)
                            handlers += lg2.handlers
                            told = 'created'
                        except OSError:
                            told = 'raised'
                    finally:
                        del L.open
                    s_ = snap()
                    if not (isinstance(s_, dict) and s_.get(0) == bytes(old)):
                        problems.append('a failed open() (%s) while creating the handler left the existing log with %r bytes '
                                        'instead of its %d (the caller was told: %s)'
                                        % (errno.errorcode[eno], len(s_.get(0, b'')) if isinstance(s_, dict) else None,
                                           len(old), told))
                    for h in handlers[1:]:
                        h.close()
                    lg3 = L.getLogger()
                    L.handle_file(lg3, base, '%(message)s', rotating=not not mb, maxbytes=mb, backups=bk)
                    handlers += lg3.handlers
                    hist.append((('r',), snap()))
                    new = list(gen.take(10))
                    lg3.info(bytes(new))
                    hist.append((('w', new), snap()))
            except Exception as e:
                problems.append('exception: %r' % (e,))
            finally:
                if hasattr(L, 'open') and 'open' in L.__dict__:
                    del L.open
                with R.quiet_stderr():
                    for h in handlers:
                        try:
                            h.close()
                        except Exception:
                            pass
            chk.dist('create_failure:%s' % errno.errorcode[eno])
            for pr in problems[:1]:
                chk.violation(_j({'kind': 'C19 fails on the implementation (open failing at handler creation)', 'what': pr,
                                  'maxbytes': mb, 'backups': bk, 'errno': errno.errorcode[eno],
                                  'history': [[list(o), sn] for o, sn in hist]}))
            cases.append('(%d,%d,[%s])' % (mb, bk, ';'.join(
                '(%s,%s)' % (op_term(o), 'Some (%s)' % snap_term(sn) if isinstance(sn, dict) else 'None') for o, sn in hist)))
            meta.append((mb, bk, errno.errorcode[eno]))
            shutil.rmtree(d, ignore_errors=True)
    bad, errs = vlib.coq_compare(IMPORTS, 'Z * Z * list (op * option snap)', 'check_history_opt', cases, wd,
                                 tag='createfail', shard=60, preamble=PRE)
    for e in errs:
        chk.violation({'kind': 'model evaluation failed', 'part': 'create failure', 'error': e}, nofail=True)
    for i in bad[:5]:
        chk.violation(_j({'kind': 'model and implementation disagree', 'part': 'handler creation after a failed open()',
                          'case': meta[i], 'coq_case': cases[i][:3000]}), nofail=True)
    return n



# ---- stream 11: the activity log of a second generation (restart) through the real Supervisor.main()

SECOND_GEN = r"""
import os, sys
from supervisor.options import ServerOptions
from supervisor.supervisord import Supervisor
conf, log, mb, bk = sys.argv[1], sys.argv[2], sys.argv[3], sys.argv[4]
held = [os.open(os.devnull, os.O_RDONLY) for _ in range(6)]      # descriptors 3.. are taken: the log gets one >= 5
o = ServerOptions()
o.realize(args=['-c', conf, '-y', mb, '-z', bk])
o.first = False            # a restart: main() runs again in the same process
o.minfds = 64
o.nocleanup = True
s = Supervisor(o)
s.run = lambda: None       # only the set-up part of main() is of interest
s.main()
o.logger.info('MARK-second-generation')
o.logger.info('x' * 40)
for h in o.logger.handlers:
    h.flush()
"""


def second_generation_stream(chk, R, wd):
    """After a restart (options.first false) main() must leave the activity logger usable: what is logged
    afterwards is in the file at the configured path (cleanup_fds must not close the new log's descriptor)."""
    import subprocess
    n = 0
    d = os.path.join(wd, 'gen2')
    os.makedirs(d, exist_ok=True)
    script = os.path.join(d, 'gen2.py')
    with open(script, 'w') as f:
        f.write(SECOND_GEN)
    for (mb, bk) in ((0, 0), (60, 2), (1000, 0)):
        n += 1
        log = os.path.join(d, 'supervisord-%d.log' % mb)
        conf = os.path.join(d, 's.conf')
        with open(conf, 'w') as f:
            f.write('[supervisord]\nlogfile=%s\npidfile=%s\nchildlogdir=%s\n' % (log, os.path.join(d, 'x.pid'), d))
        p = subprocess.run([vlib.PY, script, conf, log, str(mb), str(bk)], env=vlib.impl_env(), cwd=d,
                           stdout=subprocess.PIPE, stderr=subprocess.PIPE, timeout=60)
        cat = b''
        for name in sorted(os.listdir(d), reverse=True):
            if name.startswith(os.path.basename(log)):
                with open(os.path.join(d, name), 'rb') as f:
                    cat += f.read()
                os.remove(os.path.join(d, name))
        chk.dist('second_generation')
        if b'MARK-second-generation' not in cat:
            chk.violation({'kind': 'C19 fails on the implementation (activity log after a restart)',
                           'what': 'after Supervisor.main() of a second generation (options.first false, descriptors 3-8 in use) what '
                                   'is logged is not in the activity log at its configured path (%d bytes there; the process '
                                   'ended with status %r)' % (len(cat), p.returncode),
                           'maxbytes': mb, 'backups': bk, 'stderr': p.stderr.decode('utf-8', 'replace')[-800:]})
        elif p.returncode != 0:
            chk.violation({'kind': 'the second-generation start-up failed', 'stderr': p.stderr.decode('utf-8', 'replace')[-1500:]},
                          nofail=True)
    return n


# ------------------------------------------------------------------- the run

WITNESS = dict(n=2, mb=10, bk=2, sizes=[4] * 12)      # DESIGN: alternating 4-byte writes


def run(chk):
    proved = chk.prove('props/C19.v')
    with vlib.WorkDir('c19') as wd:
        _run(chk, wd, proved)


def _j(x):
    if isinstance(x, bytes):
        return list(x)
    if isinstance(x, dict):
        return {str(k): _j(v) for k, v in x.items()}
    if isinstance(x, (list, tuple)):
        return [_j(y) for y in x]
    return x


def _run(chk, wd, proved):
    vlib.ensure_impl_path()
    _orig_violation = chk.violation

    def _capped(obj, nofail=False, name=None):      # a broken tree can fail on every case: keep the first 30 replays
        if len(chk.violations) < 30:
            return _orig_violation(obj, nofail=nofail, name=name)
    chk.violation = _capped
    import c19_real as R
    cov = chk.coverage
    distinct = set()
    total_nodes = 0
    # ---- 1. exhaustive prefix trees
    depth_for = (lambda mb: 5 if mb <= 2 else 4) if chk.tier == 'quick' else (lambda mb: 6 if mb <= 4 else 5)
    tcases, tmeta = [], []
    jobs = []
    for mb in range(0, 7):
        for bk in range(0, 4):
            if mb == 0 and bk not in (0, 2):
                continue
            jobs.append((wd, mb, bk, depth_for(mb)))
    import multiprocessing
    jobs.sort(key=lambda j: -len(sizes_for(j[1])) ** j[3])
    with multiprocessing.get_context('fork').Pool(min(12, vlib.NCPU)) as pool:
        results = pool.map(tree_job, jobs, chunksize=1)
    for (mb, bk, depth, items) in sorted(results):
        for item in items:
            if item[0] == 'violation':
                chk.violation(_j({'kind': 'C19 fails on the implementation', 'what': item[1], 'maxbytes': mb,
                                  'backups': bk, 'ops': item[2], 'observed': item[3]}))
            else:
                tcases.append('(%d,%d,%s,%s)' % (mb, bk, item[1], item[2]))
                tmeta.append((mb, bk, depth, item[3]))
                total_nodes += item[3]
                chk.dist('tree:mb=%d' % mb, item[3])
    chk.note('t_trees_built=%.1f' % (__import__('time').time() - chk.t0))
    bad, errs = vlib.coq_compare(IMPORTS, 'Z * Z * list bytes * tree', 'check_tree', tcases, wd, tag='tree', shard=3, preamble=PRE)
    for e in errs:
        chk.violation({'kind': 'model evaluation failed', 'part': 'tree', 'error': e}, nofail=True)
    for (mb, bk, depth) in sorted(set(tmeta[i][:3] for i in bad))[:3]:
        narrow_tree(chk, R, wd, mb, bk, depth)
    chk.note('t_trees_compared=%.1f' % (__import__('time').time() - chk.t0))
    # ---- 2. random single-handler histories with clear/reopen/external operations
    rng = chk.rng
    hcases, hmeta = [], []
    nrand = 1200 if chk.tier == 'quick' else 12000
    for k in range(nrand):
        mb = rng.choice([0, 1, 2, 3, 4, 5, 6, 10])
        bk = rng.choice([0, 1, 2, 3])
        external = (k % 2 == 1)
        ops = realize_ops(R, random_ops(rng, mb, bk, rng.randrange(3, 14), external))
        s0, hist = run_history(R, wd, mb, bk, ops)
        for op, _ in hist:
            chk.dist('op:' + op[0])
        v = judge_history(R, mb, bk, s0, hist)
        if v:
            chk.violation(_j({'kind': 'C19 fails on the implementation', 'what': v, 'maxbytes': mb, 'backups': bk,
                              'ops': ops, 'observed': hist}))
        hcases.append('(%d,%d,%s,[%s])' % (mb, bk, snap_term(s0),
                                           ';'.join('(%s,%s)' % (op_term(o), snap_term(s)) for o, s in hist)))
        hmeta.append((mb, bk, ops, hist))
        distinct.add((mb, bk, tuple((o[0], tuple(sorted((i, len(c)) for i, c in s.items())) if isinstance(s, dict) else s)
                                    for o, s in hist)))
    bad, errs = vlib.coq_compare(IMPORTS, 'Z * Z * snap * list (op * snap)', 'check_history', hcases, wd,
                                 tag='hist', shard=100, preamble=PRE)
    for e in errs:
        chk.violation({'kind': 'model evaluation failed', 'part': 'history', 'error': e}, nofail=True)
    for i in bad[:5]:
        mb, bk, ops, hist = hmeta[i]
        chk.violation(_j({'kind': 'model and implementation disagree', 'part': 'single handler history',
                          'maxbytes': mb, 'backups': bk, 'ops': ops, 'observed': hist, 'coq_case': hcases[i][:3000],
                          'explanation': 'the Coq model of the handlers (about which the C19 theorems are proved) leaves '
                                         'different files than the real handlers; the observed files satisfy the C19 monitor'}),
                      nofail=True)
    chk.note('t_random_done=%.1f' % (__import__('time').time() - chk.t0))
    # ---- 3. several handlers on one path (known finding C19-shared)
    mcases, mmeta = [], []
    shared_hits = 0
    specs = [(WITNESS['n'], WITNESS['mb'], WITNESS['bk'],
              [('w', i % 2, WITNESS['sizes'][i]) for i in range(len(WITNESS['sizes']))])]
    for k in range(400 if chk.tier == 'quick' else 4000):
        n = rng.choice([2, 2, 3])
        mb = rng.choice([1, 2, 3, 4, 6, 10])
        bk = rng.choice([0, 1, 2, 3])
        ops = []
        for _ in range(rng.randrange(3, 14)):
            x = rng.random()
            who = rng.randrange(n)
            ops.append(('w', who, rng.choice(sizes_for(mb) + [2, 4])) if x < 0.8 else (('c', who) if x < 0.9 else ('r', who)))
        specs.append((n, mb, bk, ops))
    for (n, mb, bk, ops) in specs:
        gen = R.Bytes()
        rops = [('w', o[1], list(gen.take(o[2]))) if o[0] == 'w' else o for o in ops]
        s0, hist = run_history(R, wd, mb, bk, rops, n=n, tag='m')
        mcases.append('(%d%%nat,%d,%d,[%s])' % (n, mb, bk, ';'.join('(%s,%s)' % (mop_term(o), snap_term(s)) for o, s in hist)))
        mmeta.append((n, mb, bk, rops, hist))
        chk.dist('shared:handlers=%d' % n)
        # does the observed history break the laws?  (signature: more than one handler on the path)
        written = b''.join(bytes(o[2]) for o in rops if o[0] == 'w')
        only_writes = all(o[0] == 'w' for o in rops)
        for (o, s) in hist:
            if s == 'raised' or not isinstance(s, dict):
                chk.violation(_j({'kind': 'exception or foreign file with shared handlers', 'handlers': n, 'maxbytes': mb,
                                  'backups': bk, 'ops': rops, 'observed': hist}))
                break
            v = R.judge_sizes(s, mb, bk, after_write=False)
            if v and v.startswith('file .'):
                chk.violation(_j({'kind': 'C19 file-set bound fails', 'what': v, 'handlers': n, 'ops': rops}))
                break
            if v or (only_writes and s is hist[-1][1] and R.judge_suffix(s, written)):
                shared_hits += 1
                break
    bad, errs = vlib.coq_compare(IMPORTS, 'nat * Z * Z * list (mop * snap)', 'check_mhistory', mcases, wd,
                                 tag='multi', shard=100, preamble=PRE)
    for e in errs:
        chk.violation({'kind': 'model evaluation failed', 'part': 'shared', 'error': e}, nofail=True)
    for i in bad[:5]:
        n, mb, bk, rops, hist = mmeta[i]
        chk.violation(_j({'kind': 'model and implementation disagree', 'part': 'several handlers on one path',
                          'handlers': n, 'maxbytes': mb, 'backups': bk, 'ops': rops, 'observed': hist}), nofail=True)
    chk.note('t_shared_done=%.1f' % (__import__('time').time() - chk.t0))
    # ---- 4. through the real POutputDispatcher, Subprocess.removelogs/reopenlogs and clearProcessLogs
    dcases, dmeta = [], []
    d2cases, d2meta = [], []
    for k in range(150 if chk.tier == 'quick' else 1500):
        mb = rng.choice([0, 1, 3, 4, 6, 10])
        bk = rng.choice([0, 1, 2, 3])
        shared = (k % 5 == 4) and mb > 0
        gen = R.Bytes()
        ops = []
        for _ in range(rng.randrange(3, 12)):
            x = rng.random()
            who = rng.randrange(2) if shared else 0
            if x < 0.75:
                ops.append(('w', who, list(gen.take(rng.choice([s for s in sizes_for(mb) if s > 0] + [2])))))
            elif x < 0.88:
                ops.append(('c', 0))
            else:
                ops.append(('r', 0))
        hist = run_dispatcher_history(R, wd, mb, bk, ops, shared)
        chk.dist('dispatcher:%s' % ('shared' if shared else 'single'))
        if not shared:
            single = [(('w', o[2]) if o[0] == 'w' else (o[0],), s) for o, s in hist]
            v = judge_history(R, mb, bk, {0: b''}, single)
            if v:
                chk.violation(_j({'kind': 'C19 fails on the implementation (dispatcher level)', 'what': v, 'maxbytes': mb,
                                  'backups': bk, 'ops': ops, 'observed': hist}))
            dcases.append('(%d,%d,%s,[%s])' % (mb, bk, snap_term({0: b''}),
                                               ';'.join('(%s,%s)' % (op_term(o), snap_term(s)) for o, s in single)))
            dmeta.append((mb, bk, ops, hist))
        else:
            # clear/reopen fan out to both channels, stdout's dispatcher first (dict order of fds 5, 7)
            flat = []
            for o, s in hist:
                if o[0] == 'w':
                    flat.append((o, s))
                else:
                    flat.append(((o[0], 0), None))
                    flat.append(((o[0], 1), s))
            d2cases.append((2, mb, bk, flat))
            d2meta.append((mb, bk, ops, hist))
    bad, errs = vlib.coq_compare(IMPORTS, 'Z * Z * snap * list (op * snap)', 'check_history', dcases, wd,
                                 tag='disp', shard=100, preamble=PRE)
    for e in errs:
        chk.violation({'kind': 'model evaluation failed', 'part': 'dispatcher', 'error': e}, nofail=True)
    for i in bad[:5]:
        chk.violation(_j({'kind': 'model and implementation disagree', 'part': 'POutputDispatcher + clearProcessLogs',
                          'case': dmeta[i]}), nofail=True)
    m2 = []
    for (n, mb, bk, flat) in d2cases:
        # the harness cannot see the files between the two halves of a fan-out; compare only after the second half
        m2.append('(%d%%nat,%d,%d,[%s])' % (n, mb, bk, ';'.join(
            '(%s,%s)' % (mop_term(o), 'None' if s is None else 'Some (%s)' % snap_term(s)) for o, s in flat)))
    bad, errs = vlib.coq_compare(IMPORTS, 'nat * Z * Z * list (mop * option snap)', 'check_mhistory_opt', m2, wd,
                                 tag='disp2', shard=100, preamble=PRE)
    for e in errs:
        chk.violation({'kind': 'model evaluation failed', 'part': 'shared dispatcher', 'error': e}, nofail=True)
    for i in bad[:5]:
        chk.violation(_j({'kind': 'model and implementation disagree', 'part': 'stdout and stderr dispatchers on one file',
                          'case': d2meta[i]}), nofail=True)

    chk.note('t_dispatcher_done=%.1f' % (__import__('time').time() - chk.t0))
    # ---- 5. reopen / clear / move-away in every phase of a CAPTURING dispatcher (log file + capture_maxbytes > 0)
    ccases, cmeta = [], []
    confs = [(0, 0), (64, 2)] if chk.tier == 'quick' else [(0, 0), (0, 2), (1000, 0), (1000, 1), (64, 1), (64, 2), (90, 3)]
    n_scripts = 0
    import hashlib
    plan = []
    for (mb, bk) in confs:
        for phase in PHASES:
            for opname in (EOF_OPS if phase == 'eof_held' else PHASE_OPS):
                for channel in ('stdout', 'stderr'):
                    for cont in ((0,) if phase == 'eof_held' else (0, 1)):
                        plan.append((mb, bk, phase, opname, channel, cont, 'plain'))
                    # the same with a SyslogHandler next to the file handler (stdout_syslog / stderr_syslog = true)
                    if phase in ('normal', 'capture', 'eof_held'):
                        plan.append((mb, bk, phase, opname, channel, 0, 'syslog'))
                    # and for an event listener (PEventListenerDispatcher on stdout, POutputDispatcher on stderr)
                    if phase == 'normal':
                        plan.append((mb, bk, phase, opname, channel, 0, 'listener'))
    n_tolerated = 0
    if True:
        if True:
            if True:
                if True:
                    for (mb, bk, phase, opname, channel, cont, rigkind) in plan:
                        syslog = (rigkind == 'syslog')
                        n_scripts += 1
                        if phase == 'eof_held':
                            marker = b'held:' + hashlib.sha1(repr((mb, bk, opname, channel, syslog)).encode()).hexdigest()[:14].encode()
                        else:
                            marker = (b'MARK-%s-%s-%s-%d-' % (phase.encode(), opname.encode(), channel.encode(), cont)) + b'#' * 12
                        steps = capture_script(phase, opname, channel, cont, marker)
                        out, final, problems, tolerated = run_capture_script(R, wd, mb, bk, steps, syslog=syslog,
                                                                             listener=(rigkind == 'listener'))
                        n_tolerated += len(tolerated)
                        chk.dist('capture_rig:%s' % rigkind)
                        chk.dist('capture_phase:%s' % phase)
                        chk.dist('capture_op:%s' % opname)
                        # the property, on the implementation: what is logged after the operation is in the
                        # file(s) at the configured path
                        if not problems:
                            if not (isinstance(final, dict) and isinstance(final.get(channel), dict)):
                                problems.append(('no observation of the %s log' % channel, channel))
                            else:
                                files = final[channel]
                                cat = b''.join(files[i] for i in sorted(files, reverse=True))
                                logged = b''.join(ev[2] for ev, _ in out if ev[0] == 'w' and ev[1] == channel)
                                if marker not in logged:
                                    problems.append(('harness: the marker never reached the normal log (%r)' % (logged[-80:],), None))
                                elif marker not in cat:
                                    problems.append(('output logged after %s in phase %s is not in the files at the configured '
                                                     '%s path (they hold %d bytes)' % (opname, phase, channel, len(cat)), channel))
                                other = 'stderr' if channel == 'stdout' else 'stdout'
                                fo = final.get(other)
                                if phase != 'eof_held' and isinstance(fo, dict) and \
                                        b'p' * 40 not in b''.join(fo[i] for i in sorted(fo, reverse=True)):
                                    problems.append(('output of the other channel logged after %s is not at its path' % opname, other))
                        for pr, _c in problems[:1]:
                            chk.violation(_j({'kind': 'C19 fails on the implementation (capturing dispatcher)', 'what': pr,
                                              'maxbytes': mb, 'backups': bk, 'phase': phase, 'operation': opname,
                                              'channel': channel, 'rig': rigkind, 'steps': [list(x) for x in steps],
                                              'events': [[list(ev), sn] for ev, sn in out]}))
                        for ch in ('stdout', 'stderr'):
                            ccases.append('(%d,%d,%s)' % (mb, bk, capture_history_terms(out, ch)))
                            cmeta.append((mb, bk, phase, opname, channel, ch, steps))
    bad, errs = vlib.coq_compare(IMPORTS, 'Z * Z * list (op * option snap)', 'check_history_opt', ccases, wd,
                                 tag='capt', shard=60, preamble=PRE)
    for e in errs:
        chk.violation({'kind': 'model evaluation failed', 'part': 'capturing dispatcher', 'error': e}, nofail=True)
    for i in bad[:5]:
        mb, bk, phase, opname, channel, ch, steps = cmeta[i]
        chk.violation(_j({'kind': 'model and implementation disagree', 'part': 'capturing dispatcher', 'maxbytes': mb,
                          'backups': bk, 'phase': phase, 'operation': opname, 'channel_operated': channel,
                          'channel_compared': ch, 'steps': [list(x) for x in steps], 'coq_case': ccases[i][:3000]}),
                      nofail=True)
    chk.note('t_capture_done=%.1f' % (__import__('time').time() - chk.t0))
    n_conf = config_stream(chk, R, wd)
    n_act_scripts, n_act = activity_stream(chk, R, wd)
    n_outage = outage_stream(chk, R, wd)
    n_outage += blocked_stream(chk, R, wd)
    n_outage += create_failure_stream(chk, R, wd)
    n_outage += second_generation_stream(chk, R, wd)
    chk.note('t_config_activity_outage_done=%.1f' % (__import__('time').time() - chk.t0))
    if shared_hits:
        chk.known_finding('C19-shared', 'more than one rotating handler on one path (stdout and stderr, or two logs, configured '
                                        'to the same file): a backup shorter than maxbytes, a live log at or above maxbytes or '
                                        'bytes missing from the middle of the concatenation; %d such histories explored, all '
                                        'agree with the multi-handler model' % shared_hits)
    if not proved:
        chk.violation({'kind': 'proof obligation no longer checks', 'detail': chk.proof_failure,
                       'file': 'coq/props/C19.v'}, nofail=not chk.violations)
    n_eval = total_nodes + len(hcases) + len(mcases) + len(dcases) + len(m2) + len(ccases) + n_conf + n_act + n_outage
    cov['evaluations'] = n_eval
    cov['distinct_nontrivial'] = total_nodes + len(distinct)
    cov['traces_validated_against_impl'] = n_eval
    cov['exhaustive'] = True
    cov['rule'] = ('exhaustive: every write-size history over {0,1,mb-1,mb,mb+1,3mb} to depth %s for maxbytes 0..6 x backups '
                   '0..3 as prefix trees (%d distinct prefixes, each compared after its last write: listing and every '
                   'file\'s content); plus %d random single-handler histories with clear/reopen/external delete/replace, '
                   '%d histories of 2-3 handlers on one path, %d histories through the real POutputDispatcher / '
                   'Subprocess.reopenlogs / clearProcessLogs; %d scripts on real CAPTURING dispatchers (log file and '
                   'capture_maxbytes > 0, stdout and stderr): reopen / removelogs / clearProcessLogs RPC / per-dispatcher calls, '
                   'also after the live log was moved away, in each phase (normal, inside a capture section, partial BEGIN '
                   'token held back, partial END token held back); %d handler-parameter observations from real config text / -y -z '
                   'through ServerOptions.make_logger and POutputDispatcher; %d scripts on the activity logger with 1-3 handlers '
                   '(stream, file, rotating, syslog) in every order: clearLog RPC / reopenlogs, also after the files were moved '
                   'away; %d clear/reopen scripts around a missing log directory (handler and dispatcher/RPC level); distinct = distinct prefixes + distinct (op kind, file '
                   'sizes) random histories' % ('5 (4 for maxbytes > 2)' if chk.tier == 'quick' else '6 (5 for maxbytes > 4)',
                                         total_nodes, len(hcases), len(mcases), len(dcases) + len(m2), n_scripts, n_conf, n_act_scripts, n_outage))
    cov['samples'] = [_j({'maxbytes': m[0], 'backups': m[1], 'ops': m[2], 'observed': m[3]}) for m in hmeta[3:5]]


def narrow_tree(chk, R, wd, mb, bk, depth):
    """A tree disagreed: find the shortest flat history that does."""
    sizes = sizes_for(mb)
    for d in range(1, depth + 1):
        cases, meta = [], []
        for path in itertools.product(sizes, repeat=d):
            gen = R.Bytes()
            ops = [('w', list(gen.take(s))) for s in path]
            s0, hist = run_history(R, wd, mb, bk, ops, tag='n')
            cases.append('(%d,%d,%s,[%s])' % (mb, bk, snap_term(s0),
                                              ';'.join('(%s,%s)' % (op_term(o), snap_term(s)) for o, s in hist)))
            meta.append((ops, hist))
        bad, errs = vlib.coq_compare(IMPORTS, 'Z * Z * snap * list (op * snap)', 'check_history', cases, wd,
                                     tag='narrow%d' % d, shard=200, preamble=PRE)
        if bad:
            ops, hist = meta[bad[0]]
            chk.violation(_j({'kind': 'model and implementation disagree', 'part': 'write history', 'maxbytes': mb,
                              'backups': bk, 'ops': ops, 'observed': hist,
                              'explanation': 'the Coq model of RotatingFileHandler (about which the C19 theorems are proved) '
                                             'leaves different files than the real handler after these writes; the observed '
                                             'files satisfy the C19 monitor'}), nofail=True)
            return
    chk.violation({'kind': 'model and implementation disagree', 'part': 'write tree', 'maxbytes': mb, 'backups': bk},
                  nofail=True)


def replay(chk, path):
    with open(path) as f:
        obj = json.load(f)
    print(json.dumps(obj, indent=1)[:6000])
    if 'ops' in obj and 'maxbytes' in obj:
        vlib.ensure_impl_path()
        import c19_real as R
        with vlib.WorkDir('c19r') as wd:
            n = obj.get('handlers', 1)
            ops = [tuple(o) for o in obj['ops']]
            s0, hist = run_history(R, wd, obj['maxbytes'], obj['backups'], ops, n=n)
            for o, s in hist:
                print('  ', o[0], {i: len(c) for i, c in s.items()} if isinstance(s, dict) else s)
            if n == 1:
                v = judge_history(R, obj['maxbytes'], obj['backups'], s0, hist)
                print('C19 monitor on this history:', v or 'satisfied')
                if v:
                    chk.violation(obj)
        return
    run(chk)
