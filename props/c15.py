"""C15 - reread reports exactly the difference, update converges to the file.

Theorems: coq/props/C15.v over coq/C15/{Gen_fields,Diff,DiffProofs,Update,UpdateProofs}.v.
Correspondence:
  reread  generated old/new configuration files are parsed by the real ServerOptions, a
          real Supervisor holds real groups of the old file, the real reloadConfig runs
          after the file was rewritten; the answer is compared (a) by Coq with
          SV.C15.Diff.reload_answer on the serialised config objects, (b) with an
          independent deep comparison of the objects, (c) with the file-level expectation
          of the generator tables; unchanged file -> nothing; corrupt file -> CANT_REREAD
          and a deep snapshot unchanged.
  update  the real Controller.do_update in-process over the real RPC interface over the
          real Supervisor.runforever on the simulated kernel (harness/c15_driver.py); RPC
          log and final group table compared by Coq with SV.C15.Update.do_update; pids,
          kills and forks judged from the kernel trace.
"""
import json
import os
import sys
import time

import vlib

LEVEL = 'proof'
IMPORTS = ['SV.C15.Gen_fields', 'SV.C15.Diff', 'SV.C15.Update']


def _gens():
    import c15_fields
    return [c15_fields.generate]


# ----------------------------------------------------------------- Coq batches

def coq_batches(batches, wd):
    """batches: list of (tag, case_type, check_fn, cases, preamble).  Runs them in parallel;
    returns {tag: (bad indices, errors)}."""
    from concurrent.futures import ThreadPoolExecutor

    def one(b):
        tag, ctype, fn, cases, pre = b
        if not cases:
            return tag, ([], [])
        return tag, vlib.coq_compare(IMPORTS, ctype, fn, cases, wd, shard=max(1, len(cases)), tag=tag, preamble=pre)
    with ThreadPoolExecutor(max_workers=vlib.NCPU) as ex:
        return dict(ex.map(one, batches))


class Batcher(object):
    """Collects cases of one kind into batches that share an interner (preamble)."""

    def __init__(self, tag, ctype, fn, size):
        from c15_real import Interner
        self.tag, self.ctype, self.fn, self.size = tag, ctype, fn, size
        self.batches = []
        self.metas = []
        self._new()

    def _new(self):
        from c15_real import Interner
        self.itn = Interner()
        self.cur = []
        self.cur_meta = []
        self.bytes = 0
        self.ndefs = 0

    def add(self, build, meta):
        """build(interner) -> Coq term"""
        self.cur.append(build(self.itn))
        self.cur_meta.append(meta)
        self.bytes = sum(len(d) for d in self.itn.defs[self.ndefs:]) + len(self.cur[-1]) + self.bytes
        self.ndefs = len(self.itn.defs)
        if len(self.cur) >= self.size or self.bytes > 300000:
            self.flush()

    def flush(self):
        if self.cur:
            self.batches.append(('%s_%d' % (self.tag, len(self.batches)), self.ctype, self.fn, self.cur,
                                 self.itn.preamble()))
            self.metas.append(self.cur_meta)
        self._new()

    def total(self):
        return sum(len(b[3]) for b in self.batches)


# -------------------------------------------------------------------- reread

KNOWN_DUP = 'C15-duplicate-group-name'


class Reread(object):
    def __init__(self, chk, wd):
        import c15_real
        self.chk = chk
        self.wd = wd
        self.R = c15_real
        self.world = c15_real.RealWorld(wd)
        self.base = c15_real.base_text(wd)
        self.rr = Batcher('rr', 'list gconf * list gconf * (list bytes * list bytes * list bytes)', 'check_reread', 150)
        self.ne = Batcher('ne', 'gconf * gconf * bool * bool', 'check_ne', 400)
        self.known = {KNOWN_DUP: 0}
        self.outcomes = set()
        self.n = 0
        self.samples = []
        self.viol = 0

    def violation(self, obj, nofail=False):
        self.viol += 1
        if self.viol <= 12:
            self.chk.violation(obj, nofail=nofail)

    def files(self, old, new, sup_env=(None, None)):
        import c15_gen
        b0 = self.base + ('environment=%s\n' % sup_env[0] if sup_env[0] else '')
        b1 = self.base + ('environment=%s\n' % sup_env[1] if sup_env[1] else '')
        return b0 + c15_gen.render(old), b1 + c15_gen.render(new)

    def case(self, old, new, label, expect_triple=None, target=None, expect_target=None, sup_env=(None, None),
             old_text=None, new_text=None):
        """One reread.  Returns the real answer."""
        if old_text is None:
            old_text, new_text = self.files(old, new, sup_env)
        return self.sequence([old_text, new_text], label, expect_triple, target, expect_target)

    def sequence(self, texts, label, expect_triple=None, target=None, expect_target=None):
        """The daemon starts from texts[0]; then the file is rewritten and reread once per further
        text (edit A -> reread -> edit B -> reread ...) with no update in between.  The file-level
        expectations apply to the last step.  Returns the last answer."""
        R, chk, w = self.R, self.chk, self.world
        replay = {'kind': None, 'label': label, 'old_file': texts[0], 'new_file': texts[-1]}
        self.n += 1
        texts = [t if isinstance(t, tuple) else (t, None) for t in texts]
        replay['old_file'] = texts[0][0]
        replay['new_file'] = texts[-1][0]
        if len(texts) > 2:
            replay['edit_sequence'] = [_show(t[0]) + ('   <-- broken on purpose: %s' % t[1] if t[1] else '') for t in texts]
        try:
            w.boot(texts[0][0])
        except BaseException as e:
            replay.update(kind='generator produced an old file the reader rejects', error=repr(e))
            self.violation(replay, nofail=True)
            return None
        r = None
        for k, (new_text, broken) in enumerate(texts[1:]):
            last = k == len(texts) - 2
            rp = dict(replay, new_file=_show(new_text), step=k + 1)
            try:
                if broken:
                    r = self._broken_step(new_text, rp, label, must_fail=broken.startswith('!'))
                    if r[0] not in ('fault', 'ok'):
                        break
                    continue
                r = self._step(new_text, rp, label, expect_triple if last else None, target if last else None,
                               expect_target if last else None)
            except BaseException as e:
                rp.update(kind='%s escaped from the implementation during a reread' % type(e).__name__, error=repr(e)[:500])
                self.violation(rp)
                break
            if r is None or r[0] != 'ok':
                break
        return r

    def _step(self, new_text, replay, label, expect_triple, target, expect_target):
        R, chk, w = self.R, self.chk, self.world
        cur_cfgs = w.cur_configs()
        cur_enc = [R.encode_group(c, i) for i, c in enumerate(cur_cfgs)]
        before = w.snapshot()
        w.write(new_text)
        r = w.reload()
        if r[0] != 'ok':
            replay.update(kind='reloadConfig failed on a well-formed new file', answer=repr(r))
            self.violation(replay)
            return r
        ans = r[1]
        ok_shape = (isinstance(ans, list) and len(ans) == 1 and isinstance(ans[0], list) and len(ans[0]) == 3
                    and all(isinstance(x, list) and all(isinstance(s, str) for s in x) for x in ans[0]))
        if not ok_shape:
            replay.update(kind='reloadConfig answer is not [[added, changed, removed]]', answer=repr(ans))
            self.violation(replay)
            return r
        got = tuple(ans[0])
        # what the file says now, by a reader of its own; the daemon's candidate list must describe it
        new_cfgs = w.fresh_parse()
        new_enc = [R.encode_group(c, 100 + i) for i, c in enumerate(new_cfgs)]
        have = list(w.options.process_group_configs)
        have_enc = [R.encode_group(c, 200 + i) for i, c in enumerate(have)]
        stale = []
        if [g['name'] for g in have_enc] != [g['name'] for g in new_enc]:
            stale.append('group names %r, the file has %r' % ([g['name'] for g in have_enc], [g['name'] for g in new_enc]))
        else:
            for fe, he in zip(new_enc, have_enc):
                d = R.describes(fe, he)
                if d:
                    stale.append('%s: %r' % (fe['name'], d))
        if stale:
            replay.update(kind='after reread options.process_group_configs does not describe the file as it is now',
                          stale=stale, answer=list(got))
            self.violation(replay)
        # frame: no process record, pid, state, group or active config changed by the reread
        after = w.snapshot()
        if after['groups'] != before['groups'] or after['active_vals'] != before['active_vals']:
            replay.update(kind='reloadConfig changed an active group or a process record',
                          before=before['groups'], after=after['groups'])
            self.violation(replay)
        # (a) the model, decided by Coq
        self.rr.add(lambda itn: '(%s, %s, (%s, %s, %s))' % (
            itn.groups(new_enc), itn.groups(cur_enc), R.names_term(got[0]), R.names_term(got[1]), R.names_term(got[2])),
            replay)
        by_name = dict((c.name, (c, e)) for c, e in zip(cur_cfgs, cur_enc))
        for c, e in zip(new_cfgs, new_enc):
            if c.name in by_name and not (chk.tier == 'quick' and 'edit_sequence' in replay):
                oc, oe = by_name[c.name]
                ne, eqm = bool(c != oc), bool(c.__eq__(oc))
                self.ne.add(lambda itn, e=e, oe=oe, ne=ne, eqm=eqm: '(%s, %s, %s, %s)' % (
                    itn.group(e), itn.group(oe), vlib.blit(ne), vlib.blit(eqm)),
                    dict(replay, group=c.name))
        # (b) independent judgement
        names_new = [c.name for c in new_cfgs]
        names_cur = [c.name for c in cur_cfgs]
        dup = len(set(names_new)) != len(names_new)
        if dup:
            self.known[KNOWN_DUP] += 1
            chk.dist('reread:duplicate-names')
        else:
            exp, info = R.judge(new_cfgs, cur_cfgs, new_enc, cur_enc)
            if tuple(exp) != got:
                # classify against the known signatures, group by group
                unexplained = []
                if exp[0] != got[0] or exp[2] != got[2]:
                    unexplained.append('added/removed')
                for nm in sorted(set(exp[1]) ^ set(got[1])):
                    d = info.get(nm, [])
                    # (the same set of event types in another order is not a difference: a pool
                    #  reported for 'pool_events:order' alone lands here as unexplained)
                    unexplained.append('%s: differences %r' % (nm, d))
                if not unexplained and [x for x in exp[1] if x in got[1]] != [x for x in got[1] if x in exp[1]]:
                    unexplained.append('order of changed')
                if unexplained:
                    replay.update(kind='reloadConfig does not report exactly the difference',
                                  answer=list(got), expected=[list(x) for x in exp], unexplained=unexplained,
                                  differences=info)
                    self.violation(replay)
            # (c) file-level expectation of the generator
            if expect_triple is not None and tuple(expect_triple) != tuple(exp):
                # the tables hold on the unchanged tree, so this is the reader misreading the file:
                # the answer to this very pair of files is not the difference between them
                replay.update(kind='reread does not report the difference between the two files: the reader does not '
                                   'take from the file what the edit says',
                              expected_from_file=[list(x) for x in expect_triple], from_objects=[list(x) for x in exp],
                              answer=list(got), differences=info)
                self.violation(replay)
            if target is not None:
                is_changed = target in exp[1]
                if (expect_target == 'changed') != is_changed:
                    replay.update(kind='reread does not report exactly the difference: an edited option is not taken from the '
                                       'file by the reader (or an unedited one differs)',
                                  target=target, expected=expect_target, answer=list(got), differences=info.get(target))
                    self.violation(replay)
                if 'zz' in got[0] + got[1] + got[2]:
                    replay.update(kind='an untouched group was reported', answer=list(got))
                    self.violation(replay)
        # repeated reread of the same file: same answer, still nothing touched
        r2 = w.reload()
        if r2 != r:
            replay.update(kind='second reread of the same file answers differently', first=repr(r), second=repr(r2))
            self.violation(replay)
        self.outcomes.add((len(got[0]) > 0, len(got[1]) > 0, len(got[2]) > 0, label.split(':')[0]))
        chk.dist('reread:' + ('nothing' if not any(got) else '+'.join(
            k for k, v in zip(('added', 'changed', 'removed'), got) if v)))
        if len(self.samples) < 4 and any(got) and self.n % 97 == 3:
            self.samples.append({'label': label, 'answer': [list(x) for x in got]})
        return r

    def unchanged(self, sections, label, sup_env=None):
        """boot, then reread without touching the file (twice): must report nothing"""
        chk, w = self.chk, self.world
        text, _ = self.files(sections, sections, (sup_env, sup_env))
        self.n += 1
        try:
            w.boot(text)
        except ValueError:
            return
        names = [c.name for c in w.options.process_group_configs]
        for k in range(2):
            r = w.reload()
            if len(set(names)) != len(names):
                self.known[KNOWN_DUP] += 1
                continue
            if r != ('ok', [[[], [], []]]):
                self.violation({'kind': 'reread of an unchanged file reports something', 'label': label,
                                'file': text, 'answer': repr(r), 'round': k})
        chk.dist('reread:unchanged-file')

    def corrupt(self, old_text, bad_bytes, label, must_fail):
        """reread of a corrupt file: CANT_REREAD and nothing changed (or, when the corruption
        happens to be harmless, a normal answer)."""
        self.n += 1
        replay = {'label': label, 'old_file': old_text, 'new_file': _show(bad_bytes)}
        try:
            self.world.boot(old_text)
            return self._broken_step(bad_bytes, replay, label, must_fail)
        except BaseException as e:
            replay.update(kind='%s escaped from the implementation during a reread' % type(e).__name__, error=repr(e)[:500])
            self.violation(replay)
            return ('exc', type(e).__name__, '')

    def _broken_step(self, bad_bytes, replay, label, must_fail):
        from supervisor.xmlrpc import Faults
        chk, w = self.chk, self.world
        before = w.snapshot()
        w.write(bad_bytes)
        r = w.reload()
        replay = dict(replay)
        replay['new_file_bytes'] = None if bad_bytes is None else list(bad_bytes if isinstance(bad_bytes, bytes)
                                                                       else bad_bytes.encode('utf-8'))
        if r[0] == 'fault' and r[1] == Faults.CANT_REREAD:
            after = w.snapshot()
            if after != before:
                diff = [k for k in before if before[k] != after[k]]
                replay.update(kind='failed reread changed the daemon', changed=diff)
                self.violation(replay)
            # and the daemon still works from the old configuration: an immediate second
            # reread of the same corrupt file answers the same
            r2 = w.reload()
            if not (r2[0] == 'fault' and r2[1] == Faults.CANT_REREAD):
                replay.update(kind='second reread of the same corrupt file answers differently', second=repr(r2))
                self.violation(replay)
            chk.dist('corrupt:CANT_REREAD')
            self.outcomes.add(('cant_reread', label.split('@')[0].split(':')[0]))
        elif r[0] == 'ok':
            if must_fail:
                replay.update(kind='a file that cannot be parsed was accepted', answer=repr(r))
                self.violation(replay)
            chk.dist('corrupt:harmless')
        else:
            what = ('the daemon would have exited (%s)' % r[1]) if r[1] in ('SystemExit', 'KeyboardInterrupt') else \
                   ('through the XML-RPC handler: %r' % (r[1:],))
            replay.update(kind='reread of a file that cannot be parsed was not answered with CANT_REREAD: ' + what,
                          answer=repr(r))
            self.violation(replay)
            chk.dist('corrupt:other')
        return r


def _show(t):
    if t is None:
        return '<file deleted>'
    import c15_gen
    t = c15_gen.subst(t) if not getattr(t, 'extra', None) else t
    if getattr(t, 'extra', None):
        return str(t) + ''.join('\n; ---- include file %s ----\n%s' % (k, v) for k, v in sorted(t.extra.items()))
    if isinstance(t, bytes):
        try:
            return t.decode('utf-8')
        except UnicodeDecodeError:
            return repr(t)
    return t


def free_ports(n):
    """n TCP ports nobody listens on right now (fcgi groups bind their socket when they are made)"""
    import socket
    socks = []
    try:
        for _ in range(n):
            s = socket.socket(socket.AF_INET, socket.SOCK_STREAM)
            s.bind(('127.0.0.1', 0))
            socks.append(s)
        return [s.getsockname()[1] for s in socks]
    finally:
        for s in socks:
            s.close()


def run_reread(chk, wd):
    import c15_gen
    # every path and port the generated files name lives in this run's work directory / is free now
    tmp = os.path.join(wd, 't')
    os.makedirs(tmp)
    c15_gen.configure(tmp, free_ports(3))
    rr = Reread(chk, wd)
    quick = chk.tier == 'quick'
    rng = chk.rng
    t0 = time.time()
    # corpus
    cdir = os.path.join(vlib.VERIF, 'corpus', 'C15')
    if os.path.isdir(cdir):
        for f in sorted(os.listdir(cdir)):
            if f.endswith('.json'):
                with open(os.path.join(cdir, f)) as fh:
                    obj = json.load(fh)
                if 'old_file' in obj and 'new_file' in obj:
                    rr.case(None, None, 'corpus:' + f, old_text=_rebase(obj['old_file'], wd),
                            new_text=_rebase(obj['new_file'], wd))
    # exhaustive: single-option changes, every ordered pair of table values
    singles = c15_gen.single_option_cases(chk.tier)
    for c in singles:
        rr.case(c['old'], c['new'], 'single:%s:%s:%r' % (c['host'], c['option'], c['values']),
                target=c['target'], expect_target=c['expect'])
        chk.dist('single:' + c['option'])
    n_single = len(singles)
    # structural
    structs = c15_gen.structural_cases()
    for label, old, new, exp in structs:
        if label == 'sup-environment':
            for e0, e1 in ((None, 'S="1"'), ('S="1"', 'S="2"'), ('S="1"', None), ('S="1"', 'S="1"')):
                rr.case(old, new, 'struct:' + label, sup_env=(e0, e1),
                        expect_triple=([], [], []) if e0 == e1 else ([], ['l', 'a'], []))
            # inheritance: a program that sets the key itself does not see the change of [supervisord]
            own = [c15_gen.P('a', ('environment', 'S="own"')), c15_gen.P('b'), c15_gen.L('l', ('environment', 'T="t"'))]
            for e0, e1, exp3 in (('S="1"', 'S="2"', ([], ['l', 'b'], [])), (None, 'S="1"', ([], ['l', 'b'], [])),
                                 ('S="1",T="1"', 'S="1",T="2"', ([], ['a', 'b'], [])),
                                 ('S="1"', 'S="1",U="3"', ([], ['l', 'a', 'b'], [])), ('S="1",U="3"', 'U="3",S="1"', ([], [], []))):
                rr.case(own, own, 'struct:sup-environment-inherit', sup_env=(e0, e1), expect_triple=exp3)
                rr.sequence([rr.files(own, own, (e0, e0))[0], rr.files(own, own, (e1, e1))[0], rr.files(own, own, (e0, e0))[0]],
                            'seq:sup-environment-inherit', expect_triple=([], [], []))
        else:
            rr.case(old, new, 'struct:' + label, expect_triple=exp)
        rr.unchanged(new, 'unchanged:' + label)
        chk.dist('structural')
    # include files added / removed / edited / the [include] section dropped
    F = rr.R.Files
    main = rr.base + '[include]\nfiles = conf.d/*.conf\n\n' + c15_gen.render([c15_gen.P('m')])
    main_noinc = rr.base + c15_gen.render([c15_gen.P('m')])
    i1 = c15_gen.render([c15_gen.P('a'), c15_gen.L('l')])
    i1b = c15_gen.render([c15_gen.P('a', ('startsecs', '4')), c15_gen.L('l')])
    i2 = c15_gen.render([c15_gen.P('b')])
    v0 = F(main, {'conf.d/one.conf': i1})
    for label, old_v, new_v, exp3 in [
        ('include-added', v0, F(main, {'conf.d/one.conf': i1, 'conf.d/two.conf': i2}), (['b'], [], [])),
        ('include-removed', F(main, {'conf.d/one.conf': i1, 'conf.d/two.conf': i2}), v0, ([], [], ['b'])),
        ('include-edited', v0, F(main, {'conf.d/one.conf': i1b}), ([], ['a'], [])),
        ('include-renamed-file', v0, F(main, {'conf.d/other.conf': i1}), ([], [], [])),
        ('include-all-removed', v0, F(main, {}), ([], [], ['l', 'a'])),
        ('include-section-dropped', v0, F(main_noinc, {'conf.d/one.conf': i1}), ([], [], ['l', 'a'])),
        ('include-section-added', F(main_noinc, {'conf.d/one.conf': i1}), v0, (['l', 'a'], [], [])),
        ('include-moved-into-main', v0, F(main + i1, {}), ([], [], [])),
        ('include-unchanged', v0, F(main, {'conf.d/one.conf': i1}), ([], [], [])),
    ]:
        rr.sequence([old_v, new_v], 'struct:' + label, expect_triple=exp3)
        rr.sequence([old_v, new_v, old_v], 'seq:' + label)
        rr.sequence([old_v, (F(main, {'conf.d/one.conf': i1, 'conf.d/bad.conf': '[program:q]\nnumprocs=zz\n'}), '!bad include file'),
                     new_v], 'seq:broken-include:' + label, expect_triple=exp3)
        chk.dist('structural:include')
    # include files in several directories, each using %(here)s: a file's own directory
    main2 = rr.base + '[include]\nfiles = conf.d/*/*.conf conf.d/top.conf\n\n' + c15_gen.render([c15_gen.P('m')])
    ha = c15_gen.render([('program:a', [('command', '%(here)s/run-a'), ('directory', '%(here)s')])])
    hb = c15_gen.render([('program:b', [('command', '%(here)s/run-b')])])
    hc = c15_gen.render([('eventlistener:c', [('command', '%(here)s/run-c'), ('events', 'TICK_5'),
                                              ('environment', 'H="%(here)s"')])])
    ht = c15_gen.render([('program:t', [('command', '%(here)s/run-t')])])
    w0 = F(main2, {'conf.d/a/one.conf': ha, 'conf.d/top.conf': ht})
    for label, old_v, new_v, exp3 in [
        ('here-later-dir-added', w0, F(main2, {'conf.d/a/one.conf': ha, 'conf.d/b/two.conf': hb, 'conf.d/top.conf': ht}), (['b'], [], [])),
        ('here-earlier-dir-added', F(main2, {'conf.d/b/two.conf': hb, 'conf.d/top.conf': ht}),
         F(main2, {'conf.d/a/one.conf': ha, 'conf.d/b/two.conf': hb, 'conf.d/top.conf': ht}), (['a'], [], [])),
        ('here-later-dir-removed', F(main2, {'conf.d/a/one.conf': ha, 'conf.d/z/three.conf': hc, 'conf.d/top.conf': ht}), w0, ([], [], ['c'])),
        ('here-file-moved-to-other-dir', w0, F(main2, {'conf.d/q/one.conf': ha, 'conf.d/top.conf': ht}), ([], ['a'], [])),
        ('here-second-file-same-dir', w0, F(main2, {'conf.d/a/one.conf': ha, 'conf.d/a/two.conf': hb, 'conf.d/top.conf': ht}), (['b'], [], [])),
        ('here-three-dirs', F(main2, {'conf.d/a/one.conf': ha, 'conf.d/b/two.conf': hb, 'conf.d/top.conf': ht}),
         F(main2, {'conf.d/a/one.conf': ha, 'conf.d/b/two.conf': hb, 'conf.d/z/three.conf': hc, 'conf.d/top.conf': ht}), (['c'], [], [])),
    ]:
        rr.sequence([old_v, new_v], 'struct:' + label, expect_triple=exp3)
        rr.sequence([old_v, new_v, old_v, new_v], 'seq:' + label, expect_triple=exp3)
        chk.dist('structural:include')
    # and what %(here)s meant, checked on the daemon's own candidate list
    rr.world.boot(F(main2, {'conf.d/a/one.conf': ha, 'conf.d/b/two.conf': hb, 'conf.d/z/three.conf': hc, 'conf.d/top.conf': ht}))
    want = {'a': 'conf.d/a/run-a', 'b': 'conf.d/b/run-b', 'c': 'conf.d/z/run-c', 't': 'conf.d/run-t'}
    for g in rr.world.options.process_group_configs:
        if g.name in want and g.process_configs[0].command != os.path.join(wd, want[g.name]):
            rr.violation({'kind': '%(here)s in an included file is not the directory of that file', 'group': g.name,
                          'command': g.process_configs[0].command, 'expected': os.path.join(wd, want[g.name]),
                          'old_file': _show(F(main2, {'conf.d/a/one.conf': ha, 'conf.d/b/two.conf': hb,
                                                      'conf.d/z/three.conf': hc, 'conf.d/top.conf': ht}))})
    # what an escaped percent sign means: `%%` in an option value is one `%`, with or without a `%(name)s` beside it
    pct = rr.base + c15_gen.render([('program:pa', [('command', '/bin/echo 100%% done'), ('environment', 'A="50%%",B="%(program_name)s%%"')]),
                                    ('program:pb', [('command', '/bin/echo %(program_name)s 7%%')]),
                                    ('eventlistener:pl', [('command', '/bin/cat %%s'), ('events', 'TICK_5')])])
    pct2 = pct.replace('100%% done', '100%%%% done')
    rr.world.boot(pct)
    got_vals = dict((g.name, g.process_configs[0]) for g in rr.world.options.process_group_configs)
    want_vals = [('pa', 'command', '/bin/echo 100% done'), ('pa', 'environment', {'A': '50%', 'B': 'pa%'}),
                 ('pb', 'command', '/bin/echo pb 7%'), ('pl', 'command', '/bin/cat %s')]
    for gname, attr, val in want_vals:
        have = getattr(got_vals[gname], attr)
        if have != val:
            rr.violation({'kind': 'an escaped percent sign (%%) in an option value is not read as one percent sign',
                          'group': gname, 'option': attr, 'value_in_config_object': repr(have), 'expected': repr(val),
                          'old_file': pct, 'new_file': pct})
    rr.sequence([pct, pct2, pct], 'seq:percent-escape', expect_triple=([], [], []))
    rr.sequence([pct, pct2], 'struct:percent-escape', expect_triple=([], ['pa'], []))
    # sequences: edit -> reread -> edit -> reread, no update in between
    seqs = c15_gen.reread_sequences(chk.tier)
    for label, steps in seqs:
        rr.sequence([rr.base + c15_gen.render(x) for x in steps], label)
        chk.dist('sequence:scripted')
    for i in range(60 if quick else 1000):
        steps, labels = c15_gen.random_chain(rng, rng.choice([2, 2, 3]))
        rr.sequence([rr.base + c15_gen.render(x) for x in steps], 'seq:random:' + '+'.join(labels))
        chk.dist('sequence:random')
    # broken files inside edit sequences: CANT_REREAD and nothing touched; after the repair the real difference
    for label, steps in c15_gen.broken_sequences(rr.base):
        rr.sequence(steps, 'seq:' + label)
        chk.dist('sequence:broken')
    # listener subscriptions: the same set of event types in every order
    import itertools
    for evs in (['PROCESS_COMMUNICATION', 'SUPERVISOR_STATE_CHANGE', 'EVENT'], ['TICK_5', 'PROCESS_LOG', 'PROCESS_STATE', 'TICK_60']):
        perms = list(itertools.permutations(evs))
        for pm in perms[1:] if not quick else perms[1:12]:
            mk = lambda es: [('eventlistener:a', [('command', '/bin/cat'), ('events', ','.join(es))]), c15_gen.BYSTANDER]
            rr.case(mk(perms[0]), mk(pm), 'single:listener:events-order:%s' % ','.join(pm), target='a', expect_target='same')
            chk.dist('single:events')
    # ... and the same under other hash seeds (set iteration order), each in a process of its own
    import subprocess
    seeds = [0, 1, 2, 3, chk.rng.randrange(4, 4000000)] + ([] if quick else list(range(10, 30)))
    procs = []
    for sd in seeds:
        env = vlib.impl_env()
        env['PYTHONHASHSEED'] = str(sd)
        procs.append((sd, subprocess.Popen([vlib.PY, os.path.join(vlib.VERIF, 'harness', 'c15_evorder.py'),
                                            os.path.join(wd, 'ev%d' % sd), '24' if quick else '120'],
                                           env=env, stdout=subprocess.PIPE, stderr=subprocess.PIPE)))
    for sd, pr in procs:
        o, e = pr.communicate(timeout=600)
        try:
            res = json.loads(o.decode().strip().split('\n')[-1])
        except Exception:
            chk.violation({'kind': 'events-order run under PYTHONHASHSEED=%d did not complete' % sd,
                           'stderr': e.decode('utf-8', 'replace')[-2000:]}, nofail=True)
            continue
        rr.n += res['runs']
        chk.dist('events-order:hashseed-runs', res['runs'])
        for f in res['fails'][:2]:
            f['kind'] = ('reread reports an eventlistener pool as changed although only the order of events= changed '
                         '(PYTHONHASHSEED=%s)' % f['hashseed'])
            f['label'] = 'events-order'
            rr.violation(f)
    # random pairs
    nrand = 400 if quick else 4000
    for i in range(nrand):
        old, new, edits = c15_gen.random_pair(rng)
        rr.case(old, new, 'random:%s' % '+'.join(edits))
        if i % 4 == 0:
            rr.unchanged(new, 'unchanged:random')
    # corrupt files
    for c in c15_gen.corrupt_option_cases():
        old_text, _ = rr.files(c['old'], c['old'])
        _, bad = rr.files(c['old'], c['bad'])
        rr.corrupt(old_text, bad, 'badoption:' + c['label'], must_fail=True)
    # %-format payloads in every expanded option of every section kind
    fcases = c15_gen.format_corruption_cases(rr.base, chk.tier)
    for label, old_text, bad_text, must in fcases:
        rr.corrupt(old_text, bad_text, label, must_fail=must)
        chk.dist('corrupt-format')
    ncorr = 12 if quick else 150
    for i in range(ncorr):
        old, new, _ = c15_gen.random_pair(rng)
        old_text, _ = rr.files(old, old)
        body = c15_gen.render(new)
        for label, data in c15_gen.text_corruptions(rng, rr.base, body):
            must = label in ('deleted', 'empty', 'no-supervisord-section', 'garbage-before-sections',
                             'line-without-delimiter', 'invalid-utf8', 'bad-supervisord-option')
            rr.corrupt(old_text, data, 'text:' + label, must_fail=must)
    rr.rr.flush()
    rr.ne.flush()
    rr.world.close()
    chk.note('reread: %d real rereads in %.1fs (%d single-option pairs)' % (rr.n, time.time() - t0, n_single))
    if rr.world.xml_hostile:
        chk.note('%d CANT_REREAD faults whose text quotes a control character of the file were not well-formed XML '
                 '(XML-RPC limitation, see C16-xmlctl); judged on the method answer' % rr.world.xml_hostile)
        chk.dist('corrupt:fault-text-not-xml-safe', rr.world.xml_hostile)
    return rr


def _rebase(text, wd):
    """corpus files were recorded under another scratch directory"""
    import re
    import c15_gen
    return c15_gen.subst(re.sub(r'/verif/_work/[^/\n]+', wd, text))


def finish_reread(chk, rr, results):
    total = 0
    for b, metas in ((rr.rr, rr.rr.metas), (rr.ne, rr.ne.metas)):
        for (tag, ctype, fn, cases, pre), meta in zip(b.batches, metas):
            bad, errs = results[tag]
            total += len(cases)
            for e in errs:
                chk.violation({'kind': 'model evaluation failed', 'part': tag, 'error': e}, nofail=True)
            for i in bad[:3]:
                m = dict(meta[i])
                m['kind'] = ('model and implementation disagree on %s' %
                             ('reloadConfig' if fn == 'check_reread' else 'config != / __eq__'))
                m['coq_case'] = cases[i][:3000]
                m['explanation'] = ('the Coq model SV.C15.Diff (about which the C15 theorems are proved) gives a '
                                    'different answer than the implementation on these two files')
                chk.violation(m, nofail=True)
    return total


def report_known(chk, known):
    if known.get(KNOWN_DUP):
        chk.known_finding(KNOWN_DUP, 'two sections of different kinds defining the same group name are accepted by the '
                          'reader; only one can be active, reread of the unchanged file keeps reporting the name; '
                          '%d such rereads explored (model agrees)' % known[KNOWN_DUP])


# -------------------------------------------------------------------- update

KNOWN_STOPPING = 'C15-update-stopping'
STATES = {0: 'STOPPED', 10: 'STARTING', 20: 'RUNNING', 30: 'BACKOFF', 40: 'STOPPING', 100: 'EXITED', 200: 'FATAL',
          1000: 'UNKNOWN'}


class Update(object):
    def __init__(self, chk, wd):
        import c15_real
        self.chk = chk
        self.R = c15_real
        self.wd = os.path.join(wd, 'u')
        os.makedirs(self.wd)
        self.base = c15_real.base_text(self.wd)
        self.b = Batcher('up', 'list (bytes * bytes) * list bytes * parse * daemon * list (call * answer) * outcome * '
                               'list (bytes * Z * bool)', 'check_update', 40)
        self.known = {KNOWN_STOPPING: 0}
        self.outcomes = set()
        self.n = 0
        self.viol = 0
        self.samples = []
        self.recipe_miss = 0

    def violation(self, obj, nofail=False):
        self.viol += 1
        if self.viol <= 10:
            self.chk.violation(obj, nofail=nofail)

    def scenario(self, sc, seed):
        import random
        import c15_driver
        import c15_gen
        from supervisor.xmlrpc import Faults
        R, chk = self.R, self.chk
        old, new = c15_driver.scenario_files(sc, self.wd)
        old_text = self.base + c15_gen.render(old)
        new_text = self.base + c15_gen.render(new)
        if sc['corrupt']:
            new_text = new_text + '[program:broken]\nnumprocs=zz\ncommand=/sim/ok/x\n'
        replay = {'scenario': sc, 'old_file': old_text, 'new_file': new_text, 'seed': seed}
        mid_text = None
        if sc.get('two_step'):
            # the operator rereads an intermediate version first (added programs with AUTO logs),
            # edits again (they now name a log file), then runs update
            mid_text = new_text
            _, new2 = c15_driver.scenario_files(sc, self.wd, added_logs=True)
            new_text = self.base + c15_gen.render(new2)
            replay.update(new_file=new_text, edit_sequence=[old_text, mid_text, new_text],
                          steps='boot(old), write(mid), reread, write(new), update')
        run = c15_driver.UpdateRun(self.wd, sc, random.Random(seed))
        self.n += 1
        try:
            run.boot(old_text)
            missed = run.prepare()
            self.recipe_miss += len(missed)
            if mid_text is not None:
                run.write(mid_text)
                try:
                    run.call('reloadConfig', ())
                except Exception:
                    pass
                del run.log[:]
                run.after_reload = run.after_reload_enc = None
            phases = [self.phase(run, new_text, sc['args'])]
            if sc.get('second_update'):
                # the operator runs `update` again after the processes that were still STOPPING have gone
                ph = phases[0]
                subs = self.offer_event(run)
                if subs:
                    replay.update(kind='a group that is still active (its removal was refused or never tried) no longer '
                                       'receives the events it subscribes to', pools=subs, log=repr(ph['log']))
                    self.violation(replay)
                for g in ph['s1']['groups']:
                    for p in g['procs']:
                        if p[2] == 40 and p[1] in run.kernel.live:
                            run.kernel._die(p[1], 9)
                for _ in range(3):
                    run.one_pass()
                phases.append(self.phase(run, new_text, sc['args']))
            undelivered = self.delivery(run)
        finally:
            run.close()
        if undelivered:
            replay.update(kind='an active listener pool does not receive exactly the events its configuration subscribes to',
                          delivery=undelivered[:8], log=repr(phases[-1]['log']))
            self.violation(replay)
        # the file as it is now, by a reader of its own (after the simulated kernel is uninstalled)
        fresh = None
        if not sc['corrupt']:
            try:
                from supervisor.options import ServerOptions
                fo = ServerOptions()
                fo.configfile = run.path
                fo.process_config(do_usage=False)
                fresh = dict((c.name, R.encode_group(c, 0)) for c in fo.process_group_configs)
            except Exception as e:
                replay.update(kind='generator produced a new file the reader rejects', error=repr(e))
                self.violation(replay, nofail=True)
                return
        self.fresh = fresh
        for k, ph in enumerate(phases):
            rp = dict(replay)
            if len(phases) > 1:
                rp['steps'] = ('boot(old), write(new), update' if k == 0 else
                               'boot(old), write(new), update, the STOPPING children exit, update again  <-- judged here')
                rp['first_update_log'] = repr(phases[0]['log'])
            self.judge_phase(sc, run, ph, rp)

    def phase(self, run, new_text, args):
        """one `update` (the file is written first): snapshots around it and what the client saw"""
        del run.log[:]
        run.after_reload = run.after_reload_enc = None
        s0 = run.snapshot()
        run.write(new_text)
        out = run.update(args)
        s1 = run.snapshot()
        try:
            cinfo = run.rpc.getAllConfigInfo()
        except Exception as e:
            cinfo = repr(e)
        return {'s0': s0, 's1': s1, 'out': out, 'log': list(run.log), 'after_reload': run.after_reload,
                'after_reload_enc': run.after_reload_enc, 'cinfo': cinfo}

    def delivery(self, run):
        """Judged by delivery: one event of every concrete type is notified through the real
        supervisor.events.notify; every active listener pool must buffer exactly those that are
        instances of one of the types its (the file's) configuration lists, once each."""
        from supervisor import events
        from supervisor.process import EventListenerPool
        pools = [(n, g) for n, g in run.sup.process_groups.items() if isinstance(g, EventListenerPool)]
        if not pools:
            return []
        proc = None
        for g in run.sup.process_groups.values():
            for p in g.processes.values():
                proc = p
        anygroup = list(run.sup.process_groups.values())[0]
        PS = events.ProcessStateEvent
        samples = []
        for name in dir(events.EventTypes):
            t = getattr(events.EventTypes, name)
            if name.startswith('_') or not isinstance(t, type):
                continue
            if [u for u in vars(events.EventTypes).values() if isinstance(u, type) and u is not t and issubclass(u, t)]:
                continue        # abstract: has subtypes
            try:
                if issubclass(t, PS):
                    ev = t(proc, 0)
                elif issubclass(t, (events.ProcessLogEvent, events.ProcessCommunicationEvent)):
                    ev = t(proc, 1, b'x')
                elif issubclass(t, events.RemoteCommunicationEvent):
                    ev = t('t', 'd')
                elif issubclass(t, events.ProcessGroupEvent):
                    ev = t('g')
                elif issubclass(t, events.TickEvent):
                    ev = t(0, run.sup)
                else:
                    ev = t()
            except Exception:
                continue
            samples.append((name, ev))
        bad = []
        self.delivered = getattr(self, 'delivered', 0)
        for pname, pool in pools:
            saved = pool.event_buffer
            for name, ev in samples:
                if proc is None and hasattr(ev, 'process'):
                    continue
                pool.event_buffer = []
                try:
                    events.notify(ev)
                except BaseException as e:
                    bad.append('%s: notify(%s) raised %r' % (pname, name, e))
                    continue
                got = len([x for x in pool.event_buffer if x is ev])
                want = 1 if any(isinstance(ev, t) for t in pool.config.pool_events) else 0
                self.delivered += 1
                if got != want:
                    bad.append('pool %s (events=%s): %s delivered %d time(s), expected %d' % (
                        pname, ','.join(t.__name__ for t in pool.config.pool_events), name, got, want))
            pool.event_buffer = saved
        return bad

    def offer_event(self, run):
        """every active listener pool must still be subscribed: offer one event of each type it
        subscribes to and see it arrive in the pool's buffer.  Returns the pools that are deaf."""
        from supervisor import events
        from supervisor.process import EventListenerPool
        deaf = []
        for name, grp in run.sup.process_groups.items():
            if not isinstance(grp, EventListenerPool):
                continue
            types = grp._subscription_types() if hasattr(grp, '_subscription_types') else grp.config.pool_events
            for et in types:
                if (et, grp._acceptEvent) not in events.callbacks:
                    deaf.append('%s is not subscribed to %s any more' % (name, et.__name__))
        return deaf

    def judge_phase(self, sc, run, ph, replay):
        from supervisor.xmlrpc import Faults
        R, chk = self.R, self.chk
        s0, s1, out, cinfo = ph['s0'], ph['s1'], ph['out'], ph['cinfo']
        if out[0] == 'died':
            replay.update(kind='supervisord would have exited (or answered HTTP 500) during `update`: ' + out[1],
                          log=repr(ph['log']))
            self.violation(replay)
            return
        if out[0] == 'hung':
            replay.update(kind='update did not finish: a deferred RPC never completed', log=repr(ph['log']))
            self.violation(replay)
            return
        # ---- Coq case
        file0 = s0['file']
        idx0 = dict((id(c), i) for i, c in enumerate(file0))
        newobjs = ph['after_reload'] or []
        idx1 = dict((id(c), 100 + i) for i, c in enumerate(newobjs))
        file0_enc = [R.encode_group(c, i) for i, c in enumerate(file0)]
        # file0 was serialised after the update (Automatic already concrete at boot; objects of
        # removed groups are not mutated by removal), ids by identity
        groups_enc = []
        for g in s0['groups']:
            groups_enc.append((R.encode_group(g['cfg'], idx0.get(id(g['cfg']), -1)), g['procs']))
        kfl = [(g['name'], m['name']) for g in sc['groups'] for m in g['members'] if m.get('killfail')]
        log_terms = []
        order = dict((g['name'], [p[0] for p in g['procs']]) for g in s0['groups'])
        for method, args, ans in ph['log']:
            log_terms.append(self.event_term(method, args, ans, order))
        if None in log_terms:
            replay.update(kind='an RPC of do_update answered something undocumented', log=repr(ph['log']))
            self.violation(replay)
            return
        outcome = 'Done' if out[0] == 'done' else '(Escaped %s)' % vlib.zlit(out[1])
        gids0 = set(g['gid'] for g in s0['groups'])
        rows = []
        for g in s1['groups']:
            cid = idx1.get(id(g['cfg']), idx0.get(id(g['cfg']), -1))
            rows.append('(%s, %s, %s)' % (vlib.bytes_lit(g['name'].encode('utf-8')), vlib.zlit(cid),
                                          vlib.blit(g['gid'] not in gids0)))
        enc_name = lambda s_: vlib.bytes_lit(R.enc(s_))
        nb = lambda s_: vlib.bytes_lit(s_.encode('utf-8'))
        after_enc = ph['after_reload_enc']

        def build(itn):
            parse = 'ParseErr' if after_enc is None else '(ParseOk %s)' % itn.groups(after_enc)
            gterms = []
            for ge, procs in groups_enc:
                pt = '[' + '; '.join('Build_proc %s %s %s' % (enc_name(p[0]), vlib.zlit(p[1]), vlib.zlit(p[2]))
                                     for p in procs) + ']'
                gterms.append('Build_group %s %s false' % (itn.group(ge), pt))
            d = '(Build_daemon %s [%s] %s)' % (itn.groups(file0_enc), '; '.join(gterms), vlib.zlist(s0['live']))
            return '([%s], [%s], %s, %s, [%s], %s, [%s])' % (
                '; '.join('(%s, %s)' % (nb(g), enc_name(p)) for g, p in kfl),
                '; '.join(nb(a) for a in sc['args']), parse, d, '; '.join(log_terms), outcome, '; '.join(rows))
        self.b.add(build, dict(replay, kind=None, log=repr(ph['log']), outcome=out))
        # ---- the property judged on the implementation's own run
        self.monitor(sc, run, s0, s1, out, cinfo, replay, ph)
        chk.dist('update:' + ('named' if sc['args'] and 'all' not in sc['args'] else 'all'))
        for g in s0['groups']:
            for p in g['procs']:
                chk.dist('update-state:' + STATES.get(p[2], str(p[2])))

    def event_term(self, method, args, ans, order):
        nb = lambda s_: vlib.bytes_lit(s_.encode('utf-8'))
        R = self.R
        if ans[0] == 'fault':
            a = '(AFault %s)' % vlib.zlit(ans[1])
        else:
            a = None
        if method == 'reloadConfig':
            if a is None:
                v = ans[1]
                a = '(AReload %s %s %s)' % tuple(R.names_term(x) for x in v[0])
            return '(CReload, %s)' % a
        if method == 'getAllProcessInfo':
            return '(CInfo, %s)' % (a or 'AInfo')
        if method in ('addProcessGroup', 'removeProcessGroup'):
            if a is None:
                if ans[1] is not True:
                    return None
                a = 'AOk'
            return '(%s %s, %s)' % ('CAdd' if method == 'addProcessGroup' else 'CRemove', nb(args[0]), a)
        if method == 'stopProcessGroup':
            if a is None:
                res = ans[1]
                if not isinstance(res, list):
                    return None
                pos = dict((n, i) for i, n in enumerate(order.get(args[0], [])))
                res = sorted(res, key=lambda r: pos.get(r['name'], 999))
                if any(r['group'] != args[0] for r in res):
                    return None
                a = '(AResults [%s])' % '; '.join('(%s, %s)' % (vlib.bytes_lit(R.enc(r['name'])), vlib.zlit(r['status']))
                                                  for r in res)
            return '(CStop %s, %s)' % (nb(args[0]), a)
        return None

    def monitor(self, sc, run, s0, s1, out, cinfo, replay, ph):
        """C15's update clauses checked directly on what the real code did."""
        from supervisor.xmlrpc import Faults
        chk = self.chk
        k = run.kernel
        log = ph['log']
        live = s1['live']
        reload_ans = log[0][2] if log and log[0][0] == 'reloadConfig' else None
        g0 = dict((g['name'], g) for g in s0['groups'])
        g1 = dict((g['name'], g) for g in s1['groups'])
        trace_after = k.trace[s0['trace_len']:s1['trace_len']]
        killed = set(abs(t[1]) for t in trace_after if t[0] == 'kill')
        forked = [t[2] for t in trace_after if t[0] == 'fork']

        def untouched_ok(name, why):
            a, b = g0[name], g1.get(name)
            if b is None or b['gid'] != a['gid'] or [p[3] for p in a['procs']] != [p[3] for p in b['procs']]:
                replay.update(kind='a group that update must not touch was replaced or removed', group=name, why=why)
                self.violation(replay)
                return
            for pa, pb in zip(a['procs'], b['procs']):
                if pa[2] in (10, 20):
                    if pb[1] != pa[1] or pa[1] in killed or pa[1] not in live:
                        replay.update(kind='a process of a group that update must not touch lost its pid or was signalled',
                                      group=name, process=pa[0], before=pa[:3], after=pb[:3], why=why)
                        self.violation(replay)
                if pa[1] and pa[2] != 40 and pa[1] in killed:
                    replay.update(kind='update signalled a process of a group it must not touch', group=name,
                                  process=pa[0], why=why)
                    self.violation(replay)
            for pid in forked:
                o = run.owner.get(pid)
                if o and o[0] == name and o[2] in [p[3] for p in a['procs']]:
                    pa = [p for p in a['procs'] if p[3] == o[2]][0]
                    if pa[2] not in (30, 100):      # BACKOFF retries / autorestart are the daemon's own business
                        replay.update(kind='a process of an untouched group was forked again during update', group=name,
                                      process=pa[0], state_before=pa[2])
                        self.violation(replay)

        if reload_ans is None or reload_ans[0] == 'fault':
            code = reload_ans[1] if reload_ans else None
            if sc['corrupt']:
                if not (code == Faults.CANT_REREAD and out == ('fault', Faults.CANT_REREAD) and len(log) == 1):
                    replay.update(kind='update on an unparsable file: expected CANT_REREAD and no further RPC',
                                  log=repr(log), outcome=out)
                    self.violation(replay)
                for name in g0:
                    untouched_ok(name, 'the file could not be parsed')
                if set(g1) != set(g0) or s1['file'] != s0['file'] or any(a is not b for a, b in zip(s1['file'], s0['file'])):
                    replay.update(kind='failed reread changed process_group_configs or the active groups')
                    self.violation(replay)
                self.outcomes.add(('corrupt',))
            else:
                replay.update(kind='reloadConfig failed on a well-formed file', log=repr(log))
                self.violation(replay)
            return
        added, changed, removed = reload_ans[1][0]
        # file-level expectation of the scenario: a section left as it was (or whose events= line
        # was only reordered) is not reported, so update leaves the group alone
        for g in sc['groups']:
            if g['fate'] == 'keep' and g['name'] in changed + removed:
                replay.update(kind='reread reported (and update would restart) a group whose section did not change'
                              + (' except for the order of events=' if g.get('reorder') else ''), group=g['name'],
                              reread=[added, changed, removed])
                self.violation(replay)
        valid = set(sc['args'])
        if 'all' in valid:
            valid = set()
        sel = lambda n: (not valid) or n in valid
        touched = [n for n in changed + removed if sel(n)]
        hyp_stopping = [n for n in touched if any(p[2] == 40 for p in g0[n]['procs'])]
        hyp_killfail = [n for n in touched if any(m.get('killfail') and
                                                  [p for p in g0[n]['procs'] if p[0] == m['name'] and p[2] in (10, 20)]
                                                  for g in sc['groups'] if g['name'] == n for m in g['members'])]
        # frame, under no hypothesis at all: groups not selected or not reported are left alone
        for name in g0:
            if name not in touched:
                untouched_ok(name, 'not reported by reread' if name not in changed + removed else 'not named in the command')
        if hyp_killfail:
            self.outcomes.add(('outside-hypotheses', 'killfail', out[0]))
            return
        if hyp_stopping and out == ('fault', Faults.STILL_RUNNING):
            # the known defective behaviour; any other outcome is judged like every other run
            # (the STOPPING child may have been reaped in time: then update must have converged)
            self.known[KNOWN_STOPPING] += 1
            self.outcomes.add(('stopping-escape',))
            return
        if out[0] != 'done':
            replay.update(kind='a fault escaped do_update although every stop succeeded', outcome=out, log=repr(log))
            self.violation(replay)
            return
        # convergence of the selected part
        newobjs = ph['after_reload']
        new_by = dict((c.name, c) for c in newobjs)
        for n in removed:
            if sel(n) and n in g1:
                replay.update(kind='a removed group is still active after update', group=n)
                self.violation(replay)
        # the options a selected changed/added group now runs with are those the file has now
        for n in changed + added:
            b = g1.get(n)
            if sel(n) and b is not None and self.fresh is not None and n in self.fresh:
                d = self.R.describes(self.fresh[n], self.R.encode_group(b['cfg'], 0))
                if d:
                    replay.update(kind='after update a changed/added group does not have the options of the file',
                                  group=n, differences=d)
                    self.violation(replay)
        for n in changed + added:
            if sel(n):
                b = g1.get(n)
                if b is None or b['cfg'] is not new_by[n] or (n in g0 and b['gid'] == g0[n]['gid']):
                    replay.update(kind='a changed/added group does not run with the configuration of the new file', group=n)
                    self.violation(replay)
        for n in touched:
            for p in g0[n]['procs']:
                # children of processes that were STARTING, RUNNING or STOPPING (a process left in
                # UNKNOWN by an earlier failed kill is outside the hypothesis "no kill error")
                if p[1] and p[2] in (10, 20, 40) and p[1] in live:
                    replay.update(kind='a child of a changed/removed group survived update', group=n, process=p[0], pid=p[1])
                    self.violation(replay)
        if not valid:
            if sorted(g1) != sorted(new_by):
                replay.update(kind='after update the active groups are not those of the file', active=sorted(g1),
                              file=sorted(new_by))
                self.violation(replay)
            for n, b in g1.items():
                c = new_by.get(n)
                if c is not None and b['cfg'] is not c and (c != b['cfg']):
                    replay.update(kind='after update an active group differs from the file', group=n)
                    self.violation(replay)
            if self.fresh is not None:
                for n, b in g1.items():
                    if n in self.fresh:
                        d = self.R.describes(self.fresh[n], self.R.encode_group(b['cfg'], 0))
                        if d:
                            replay.update(kind='after update an active group does not have the options of the file',
                                          group=n, differences=d)
                            self.violation(replay)
            if isinstance(cinfo, list):
                names = sorted(set(x['group'] for x in cinfo))
                if not all(x['inuse'] for x in cinfo) or names != sorted(n for n in new_by if new_by[n].process_configs):
                    replay.update(kind='getAllConfigInfo after update: a configured group is not in use', info=repr(cinfo)[:2000])
                    self.violation(replay)
        self.outcomes.add(('converged', bool(added), bool([n for n in changed if sel(n)]), bool([n for n in removed if sel(n)]),
                           bool(valid), tuple(sorted(set(p[2] for n in touched for p in g0[n]['procs'])))))
        if len(self.samples) < 3 and touched and self.n % 41 == 7:
            self.samples.append({'label': sc.get('label'), 'args': sc['args'], 'reread': [added, changed, removed],
                                 'rpc_calls': [m for m, _, _ in log]})


def reread_only(up, sc, seed):
    """`reread` (twice, the daemon running in between) over a daemon whose processes are in the
    scenario's states: the answer names the scenario's fates, no group, process record, pid or child
    is touched, nothing is signalled or forked because of it."""
    import random
    import c15_driver
    import c15_gen
    chk = up.chk
    old, new = c15_driver.scenario_files(sc, up.wd)
    old_text = up.base + c15_gen.render(old)
    new_text = up.base + c15_gen.render(new)
    replay = {'scenario': sc, 'old_file': old_text, 'new_file': new_text, 'seed': seed, 'steps': 'boot(old), write(new), reread, reread'}
    run = c15_driver.UpdateRun(up.wd, sc, random.Random(seed))
    up.n += 1
    try:
        run.boot(old_text)
        run.prepare()
        s0 = run.snapshot()
        run.write(new_text)
        answers = []
        for _ in range(2):
            try:
                answers.append(run.call('reloadConfig', ()))
            except BaseException as e:
                answers.append(('raised', repr(e)[:200]))
            for _ in range(2):
                run.one_pass()
        s1 = run.snapshot()
    finally:
        run.close()
    k = run.kernel
    trace_after = k.trace[s0['trace_len']:]
    exp_changed = sorted(g['name'] for g in sc['groups'] if g['fate'] == 'change')
    exp_removed = sorted(g['name'] for g in sc['groups'] if g['fate'] == 'remove')
    a0 = answers[0]
    if not (isinstance(a0, list) and sorted(a0[0][1]) == exp_changed and sorted(a0[0][2]) == exp_removed
            and sorted(a0[0][0]) == sorted(sc['added'])) or answers[1] != a0:
        replay.update(kind='reread over a running daemon does not report the edit (or differs when repeated)', answers=repr(answers),
                      expected=[sorted(sc['added']), exp_changed, exp_removed])
        up.violation(replay)
    bad = []
    if [(g['name'], g['gid'], [p[3] for p in g['procs']]) for g in s0['groups']] != \
            [(g['name'], g['gid'], [p[3] for p in g['procs']]) for g in s1['groups']]:
        bad.append('group table or process objects')
    for g0, g1 in zip(s0['groups'], s1['groups']):
        for pa, pb in zip(g0['procs'], g1['procs']):
            if pa[2] in (10, 20) and (pb[1] != pa[1] or pa[1] not in k.live):
                bad.append('pid of %s:%s %r -> %r' % (g0['name'], pa[0], pa[:3], pb[:3]))
    stopping = set(p[1] for g in s0['groups'] for p in g['procs'] if p[2] == 40)
    kills = [t for t in trace_after if t[0] == 'kill' and abs(t[1]) not in stopping]
    if kills:
        bad.append('signals %r' % kills[:3])
    for t in trace_after:
        if t[0] == 'fork':
            o = run.owner.get(t[2])
            st = [p[2] for g in s0['groups'] for p in g['procs'] if o and p[3] == o[2]]
            if not st or st[0] not in (30, 100):
                bad.append('fork of %r (state before %r)' % (o and o[:2], st))
    if bad:
        replay.update(kind='reread touched a running process', what=bad)
        up.violation(replay)
    up.outcomes.add(('reread-only', tuple(sorted(set(p[2] for g in s0['groups'] for p in g['procs'])))))
    chk.dist('reread-over-live-daemon')


def run_update(chk, wd):
    import c15_gen
    up = Update(chk, wd)
    t0 = time.time()
    scs = c15_gen.update_scenarios_exhaustive(chk.tier)
    def guarded(sc, seed):
        try:
            up.scenario(sc, seed)
        except BaseException as e:
            import traceback
            up.violation({'kind': '%s escaped from the implementation while preparing or running `update`' % type(e).__name__,
                          'scenario': sc, 'seed': seed, 'traceback': traceback.format_exc()[-3000:]})
    for i, sc in enumerate(scs):
        guarded(sc, chk.seed + i)
    n_exh = len(scs)
    for i, sc in enumerate(scs):
        if not sc['corrupt'] and not sc.get('moves') and (chk.tier != 'quick' or i % 2 == 0):
            try:
                reread_only(up, sc, chk.seed + 5000 + i)
            except BaseException as e:
                import traceback
                up.violation({'kind': '%s escaped from the implementation during reread over a running daemon' % type(e).__name__,
                              'scenario': sc, 'traceback': traceback.format_exc()[-3000:]})
    nrand = 120 if chk.tier == 'quick' else 2500
    for i in range(nrand):
        guarded(c15_gen.random_update_scenario(chk.rng), chk.seed + 1000 + i)
    up.b.flush()
    chk.note('update: %d real do_update runs in %.1fs (%d scripted scenarios); %d recipe states not reached'
             % (up.n, time.time() - t0, n_exh, up.recipe_miss))
    return up


def finish_update(chk, up, results):
    total = 0
    for (tag, ctype, fn, cases, pre), meta in zip(up.b.batches, up.b.metas):
        bad, errs = results[tag]
        total += len(cases)
        for e in errs:
            chk.violation({'kind': 'model evaluation failed', 'part': tag, 'error': e}, nofail=True)
        for i in bad[:3]:
            m = dict(meta[i])
            m['kind'] = 'model and implementation disagree on supervisorctl update'
            m['coq_case'] = cases[i][-3000:]
            m['explanation'] = ('the RPC sequence / answers / final group table of the real Controller.do_update over the real '
                                'daemon differ from SV.C15.Update.do_update on the same files and process states')
            chk.violation(m, nofail=True)
    if up.known.get(KNOWN_STOPPING):
        chk.known_finding(KNOWN_STOPPING, 'update while a process of a changed/removed group is in STOPPING state: '
                          'stopProcessGroup does not wait for it, removeProcessGroup answers STILL_RUNNING, the fault escapes '
                          'do_update and the remaining groups are not processed; %d such updates explored, all agree with the '
                          'model' % up.known[KNOWN_STOPPING])
    return total


def run(chk):
    proved = chk.prove('props/C15.v', gens=_gens())
    try:
        with vlib.WorkDir('c15') as wd:
            _run(chk, wd, proved)
    except BaseException as e:      # the check always ends through chk.finish(): exit 0 or 1
        import traceback
        chk.violation({'kind': 'check-machinery-or-implementation-exception (%s)' % type(e).__name__,
                       'traceback': traceback.format_exc()[-4000:],
                       'unchecked': 'the check could not complete, so the property is not shown to hold'},
                      nofail=True, name='exception')


def _run(chk, wd, proved):
    rr = run_reread(chk, wd)
    up = run_update(chk, wd)
    batches = rr.rr.batches + rr.ne.batches + up.b.batches
    results = coq_batches(batches, wd)
    total = finish_reread(chk, rr, results)
    total += finish_update(chk, up, results)
    report_known(chk, rr.known)
    if not proved:
        chk.violation({'kind': 'proof obligation no longer checks', 'detail': chk.proof_failure,
                       'file': 'coq/props/C15.v'}, nofail=not chk.violations)
    cov = chk.coverage
    cov['evaluations'] = total
    cov['distinct_nontrivial'] = len(rr.outcomes) + len(up.outcomes)
    cov['traces_validated_against_impl'] = total
    cov['samples'] = rr.samples + up.samples
    cov['exhaustive'] = False
    cov['rule'] = ('reread: every ordered pair of table values of every [program]/[eventlistener]/[fcgi-program]/[group] option '
                   '(harness/c15_gen.py tables) in every legal host section, hand-written structural old/new pairs, random '
                   'multi-edit pairs, corrupt files; update: every (process state x fate x child behaviour) of one group next to '
                   'untouched groups, group kinds, state mixtures, named updates, kill failures, corrupt file, random scenarios. '
                   'distinct = distinct (which lists non-empty, case family) outcomes of reread + distinct (touched kinds, named, '
                   'set of process states in touched groups) outcomes of converged updates + the outside-hypotheses classes')


def replay(chk, path):
    with open(path) as f:
        obj = json.load(f)
    print(json.dumps(obj, indent=1)[:6000])
    run(chk)
