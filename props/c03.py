"""C03 - see coq/props/C03.v and props/life_check.py (shared lifecycle check)."""
import life_check

LEVEL = 'proof'


def run(chk):
    life_check.run_property(chk, 'C03', 'props/C03.v')


def replay(chk, path):
    life_check.replay_property(chk, 'C03', 'props/C03.v', path)
