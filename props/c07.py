"""C07 - child output reaches the right log, complete and in order.

Theorems: coq/props/C07.v over coq/C07/{Strip,ChannelProofs,Fds,FdsProofs}.v and the
C08 channel model.
Correspondence:
  strip     real dispatchers.stripEscapes vs the model on every string of <= 6
            symbols over {ESC, '[', 'm', 'A', '3', 'x'} (+ random)
  chan      one real POutputDispatcher with strip_ansi on, all fragmentations of
            short streams of escape pieces / tag pieces (exact traces)
  world     real Subprocess / ProcessConfig / ProcessGroup / Supervisor objects and
            real ServerOptions methods on a fake kernel seam (harness/c07_seam.py):
            histories of spawns (ok, fork failure, pipe failure), child writes,
            fragmented reads routed through the real get_process_map(), exits with
            data still in the pipe, reaps, unrelated opens/closes; compared with
            coq/C07/World.v after every operation (checksum of the trace; exact
            trace for a sample) and judged in Python by a reference splitter."""
import itertools
import json
import multiprocessing
import os

import vlib
from vlib import zlit, zlist, blit, coq_list

LEVEL = 'proof'
IMPORTS = ['SV.C08.Gen_tokens', 'SV.C08.Stream', 'SV.C08.StreamCheck', 'SV.C07.Strip', 'SV.C07.Fds', 'SV.C07.World']

CF_PLAIN = [(False, 0, 0, False, False), (True, 0, 0, False, False), (False, 0, 0, False, False)]
CF_EV = [(False, 0, 0, True, False), (True, 0, 0, True, False), (False, 0, 0, True, True)]
CF_CAP = [(False, 10, 0, True, False), (True, 5, 0, False, False), (False, 0, 4, True, True)]


def _gens():
    import c08_tokens
    import c07_facts
    return [c08_tokens.generate, c07_facts.generate]


def run(chk):
    proved = chk.prove('props/C07.v', gens=_gens())
    with vlib.WorkDir('c07') as wd:
        _run(chk, wd, proved)


# ------------------------------------------------------------------ terms

def cfg_term(c):
    return '(mkCfg %s %s %s %s %s %s)' % (blit(c[0]), zlit(c[1]), zlit(c[2]), blit(c[3]), blit(c[4]),
                                         blit(len(c) > 5 and bool(c[5])))


CH = {'stdout': 'COut', 'stderr': 'CErr', 'stdin': 'CIn'}


def op_term(o):
    k = o[0]
    if k == 'spawn':
        oc = o[2]
        t = 'ForkOk' if oc == 'ok' else ('ForkFail' if oc == 'forkfail' else '(PipeFail %d%%nat)' % oc[1])
        return '(WSpawn %d%%nat %s)' % (o[1], t)
    if k == 'write':
        return '(WWrite %d%%nat %s %s)' % (o[1], CH[o[2]], vlib.bytes_lit(o[3]))
    if k == 'writegen':
        return '(WWriteGen %d%%nat %s %s %s)' % (o[1], CH[o[2]], zlit(o[3]), zlit(o[4]))
    if k == 'read':
        return '(WRead %d%%nat %s %d%%nat)' % (o[1], CH[o[2]], min(o[3], 3000))
    if k == 'exit':
        return '(WExit %d%%nat)' % o[1]
    if k == 'reap':
        return '(WReap %d%%nat)' % o[1]
    if k == 'reapfault':
        return '(WReapFault %d%%nat %s %s)' % (o[1], CH[o[2]], blit(o[3] == 'EIO'))
    if k == 'reopen':
        return 'WReopen'
    if k == 'clear':
        return '(WClear %d%%nat)' % o[1]
    if k == 'moveaway':
        return '(WMoveAway %d%%nat)' % o[1]
    if k == 'lbusy':
        return None       # harness only
    if k == 'open':
        return 'WOpen'
    if k == 'close':
        return '(WClose %d%%nat)' % o[1]
    raise ValueError(o)


def world_term(job, incap, last):
    cfgs, strip, nopen, ops = job[:4]
    return '(%s, %s, %s, %d%%nat, %s, %s)' % (coq_list([cfg_term(c) for c in cfgs]), blit(strip), blit(incap), nopen,
                                        coq_list([t for t in (op_term(o) for o in ops) if t is not None]), last)


def _json_job(job):
    cfgs, strip, nopen, ops = job[:4]
    out = {'configs': [list(c) for c in cfgs], 'strip_ansi': strip, 'open_at_start': nopen,
           'ops': [[(list(x) if isinstance(x, (bytes, tuple)) else x) for x in o] for o in ops]}
    if len(job) > 4 and job[4]:
        out['supervisord_loglevel'] = job[4].get('loglevel', 'INFO')
        if job[4].get('sections'):
            out['program_sections'] = job[4]['sections']
    return out


def _job_from_json(o):
    ops = []
    for x in o['ops']:
        x = list(x)
        if x[0] == 'write':
            x[3] = bytes(x[3])
        if x[0] == 'spawn' and isinstance(x[2], list):
            x[2] = tuple(x[2])
        ops.append(tuple(x))
    extra = {}
    if o.get('supervisord_loglevel'):
        extra['loglevel'] = o['supervisord_loglevel']
    if o.get('program_sections'):
        extra['sections'] = o['program_sections']
    return ([tuple(c) for c in o['configs']], bool(o['strip_ansi']), int(o['open_at_start']), ops, extra)


# ------------------------------------------------------------------ histories

def payloads(B, E):
    def f(p, i):
        tag = b'%d' % p
        return [b'x' + tag, B, b'c' + tag + E, B[:10], B[10:], b'\x1b[3', b'1mQ' + tag, b'\xff\n', b'\x1b', b'[mK'][i]
    return f


def epilogue(n):
    ops = []
    for p in range(n):
        ops += [('write', p, 'stdout', b'Z%d' % p), ('read', p, 'stdout', 1)]
    for p in range(n):
        ops += [('exit', p), ('reap', p)]
    return ops


def gen_histories(chk, B, E):
    pay = payloads(B, E)
    quick = chk.tier == 'quick'
    jobs = []
    base = [('spawn', 0, 'ok'), ('spawn', 0, 'forkfail'), ('spawn', 0, ('pipefail', 1)),
            ('spawn', 1, 'ok'), ('spawn', 1, 'forkfail'), ('spawn', 1, ('pipefail', 0)),
            ('spawn', 2, 'ok'),
            ('write', 0, 'stdout', None), ('write', 1, 'stderr', None), ('write', 1, 'stdout', None),
            ('read', 0, 'stdout', 1000), ('read', 1, 'stdout', 1),
            ('exit', 0), ('reap', 0), ('exit', 1), ('open',), ('close', 3), ('reap', 1),
            ('reopen',), ('clear', 0), ('clear', 1), ('moveaway', 0)]

    def fill(seq, variant):
        out = []
        for i, o in enumerate(seq):
            if o[0] == 'write':
                pi = {0: [0, 0, 0], 1: [1, 2, 0], 2: [5, 6, 0]}[variant][i % 3]
                o = (o[0], o[1], o[2], pay(o[1], pi))
            out.append(o)
        return out
    # exhaustive short prefixes + epilogue
    maxlen = 3 if quick else 4
    k = 0
    for n in range(1, maxlen + 1):
        # quick: sequences of 3 over the 18 process/descriptor operations, of <= 2 over all 22 (with the
        # administrative ones: reopen, clear, move-away); thorough: 3 over all 22, 4 over 16
        alpha = base if n <= 2 or (n == 3 and not quick) else (base[:18] if n == 3 else base[:16])
        for seq in itertools.product(alpha, repeat=n):
            # skip sequences that never create a descriptor
            if not any(o[0] == 'spawn' for o in seq):
                continue
            k += 1
            variant = k % 3
            cfgs = ([CF_PLAIN, CF_CAP, CF_PLAIN][variant] if k % 7 else CF_EV) if k % 11 else CF_NOLOG
            jobs.append(('exh%d' % n, (cfgs, variant == 2, 3 + (k % 2) * 2, fill(list(seq), variant) + epilogue(3))))
    # the descriptor-reuse scenario of b950ca0 in every order of the two victims
    for a, b in ((0, 1), (1, 0), (0, 2), (2, 0), (1, 2), (2, 1)):
        for oc in ('forkfail', ('pipefail', 1), ('pipefail', 2)):
            ops = [('spawn', a, oc), ('spawn', b, 'ok'), ('write', b, 'stdout', pay(b, 0)), ('read', b, 'stdout', 1000),
                   ('read', a, 'stdout', 1000), ('spawn', a, 'ok'), ('write', a, 'stdout', pay(a, 0)),
                   ('write', b, 'stderr', pay(b, 7)), ('read', a, 'stdout', 1), ('read', b, 'stderr', 1000)] + epilogue(3)
            jobs.append(('reuse', (CF_PLAIN, False, 3, ops)))
            jobs.append(('reuse', (CF_CAP, False, 5, ops)))
    # random long histories
    rng = chk.rng
    for _ in range(2500 if quick else 40000):
        cfgs = rng.choice([CF_PLAIN, CF_CAP, CF_CAP, CF_EV, CF_NOLOG, CF_DRAIN_EV])
        strip = rng.random() < 0.3
        ops = []
        for _ in range(rng.choice([6, 12, 25])):
            r = rng.random()
            p = rng.randrange(3)
            if r < 0.2:
                ops.append(('spawn', p, rng.choice(['ok', 'ok', 'forkfail', ('pipefail', rng.randrange(2))])))
            elif r < 0.5:
                data = b''.join(pay(p, rng.randrange(10)) for _ in range(rng.choice([1, 1, 2, 4])))
                ops.append(('write', p, rng.choice(['stdout', 'stdout', 'stderr']), data))
            elif r < 0.8:
                ops.append(('read', p, rng.choice(['stdout', 'stdout', 'stderr']), rng.choice([1, 2, 5, 13, 30, 1000])))
            elif r < 0.87:
                ops.append(('exit', p))
            elif r < 0.92:
                ops.append(('reap', p))
            elif r < 0.93:
                ops.append(('reapfault', p, rng.choice(['stdout', 'stderr']), rng.choice(['EIO', 'EBADF'])))
            elif r < 0.94:
                ops.append(rng.choice([('reopen',), ('clear', p)]))
            elif r < 0.97:
                ops.append(('open',))
            else:
                ops.append(('close', rng.randrange(3, 12)))
        jobs.append(('random', (cfgs, strip, rng.choice([3, 5]), ops + epilogue(3))))
    return jobs


CF_DRAIN = [(False, 10, 0, False, False), (True, 10, 0, False, False), (False, 0, 4, False, False)]
CF_DRAIN_EV = [(False, 10, 0, True, True), (True, 10, 0, True, False), (False, 0, 4, True, True)]
CF_AUTO = [(False, 10, 0, False, False, False, None, True), (True, 0, 0, False, False, False, None, True),
           (False, 0, 4, True, True, False, None, True)]
CF_NOLOG = [(False, 10, 0, True, False, True), (True, 0, 0, True, False, True), (False, 0, 4, True, True, True)]


def gen_drain(chk, B, E):
    """Data that arrives only at reap time, through the real Subprocess.finish(): for every cut
    point of streams with 0-2 capture sections the part after the cut is still in the pipe when
    the child is reaped (cut 0 = everything)."""
    streams = [b'hello\n', b'ab' + B + b'xyz' + E + b'cd', b'a' + B + b'x' + E + b'm' + B + b'yy' + E + b'z\n',
               b'tail' + B[:7], b'0123456789' * 4 + B + b'Q' * 12 + E, B + b'never closed']
    variants = [(CF_DRAIN, 0, 'stdout', 'stdout'), (CF_DRAIN, 1, 'stderr', 'stdout'), (CF_DRAIN, 2, 'stderr', 'stderr'),
                (CF_PLAIN, 0, 'stdout', 'stdout'),
                # PROCESS_LOG / PROCESS_COMMUNICATION events for bytes flushed at reap (header: name, pid, channel)
                (CF_DRAIN_EV, 0, 'stdout', 'stdout'), (CF_DRAIN_EV, 2, 'stderr', 'stderr'), (CF_EV, 1, 'stderr', 'stdout'),
                # no log file at all: events only
                (CF_NOLOG, 0, 'stdout', 'stdout'),
                # stdout_logfile = stderr_logfile = AUTO (named by create_autochildlogs)
                (CF_AUTO, 0, 'stdout', 'stdout'), (CF_AUTO, 2, 'stderr', 'stderr')]
    jobs = []
    for s in streams:
        for vi, (cfgs, p, wch, rch) in enumerate(variants):
            if chk.tier == 'quick' and len(s) > 60 and vi not in (0, 2, 4, 7):
                continue
            for c in range(0, len(s) + 1):
                ops = [('spawn', p, 'ok')]
                if c > 0:
                    ops += [('write', p, wch, s[:c]), ('read', p, rch, 3000)]
                if c < len(s):
                    ops.append(('write', p, wch, s[c:]))
                # a log reopen / clear request between the last read and the reap
                if (c + len(s)) % 5 == 0:
                    ops.append(('reopen',))
                elif (c + len(s)) % 11 == 0:
                    ops.append(('clear', p))
                ops += [('exit', p), ('reap', p)]
                jobs.append(('drain', (cfgs, False, 3, ops)))
    # three parts: read, read, drain
    s = streams[2]
    for c1 in range(1, len(s), 5):
        for c2 in range(c1 + 1, len(s), 7):
            ops = [('spawn', 0, 'ok'), ('write', 0, 'stdout', s[:c1]), ('read', 0, 'stdout', 3000),
                   ('write', 0, 'stdout', s[c1:c2]), ('read', 0, 'stdout', 3000), ('write', 0, 'stdout', s[c2:]),
                   ('exit', 0), ('reap', 0)]
            jobs.append(('drain', (CF_DRAIN, False, 3, ops)))
    return jobs


def gen_reapfault(chk, B, E):
    """A read error on one channel while finish() drains: every byte written to the *other* channel
    before the exit must still reach that channel's log."""
    jobs = []
    k = 0
    for cfgs, p in ((CF_PLAIN, 0), (CF_DRAIN, 0), (CF_DRAIN, 2), (CF_DRAIN_EV, 2), (CF_PLAIN, 1)):
        for bad in ('stdout', 'stderr'):
            for err in ('EIO', 'EBADF'):
                for pre in (False, True):
                    for out_data, err_data in ((b'out-tail\n', b'err-tail\n'), (b'', b'only stderr'), (b'only stdout', b''),
                                               (b'o' + B + b'sec' + E + b'x', b'e' + B + b'sec' + E + b'y' + B[:5])):
                        k += 1
                        ops = [('spawn', p, 'ok')]
                        if pre:
                            ops += [('write', p, 'stdout', b'first '), ('write', p, 'stderr', b'early '),
                                    ('read', p, 'stdout', 3000), ('read', p, 'stderr', 3000)]
                        if out_data:
                            ops.append(('write', p, 'stdout', out_data))
                        if err_data:
                            ops.append(('write', p, 'stderr', err_data))
                        ops += [('exit', p), ('reapfault', p, bad, err)]
                        # the process is usable afterwards
                        ops += [('spawn', p, 'ok'), ('write', p, 'stdout', b'again'), ('exit', p), ('reap', p)]
                        jobs.append(('reapfault', (cfgs, False, 3 + 2 * (k % 2), ops)))
    return jobs


LOGLEVELS = ['INFO', 'WARN', 'BLAT', 'ERRO', 'DEBG', 'CRIT', 'TRAC']


def gen_eofreuse(chk, B, E):
    """Lowest-free descriptor allocation with B spawned between A's end-of-file and A's reap: A's child
    exits, the main loop reads EOF on A's pipes (the dispatchers stop being monitored), B is spawned, A is
    reaped (finish() closes A's descriptors), then B writes: every byte B writes is in B's log."""
    jobs = []
    for a, b in ((0, 1), (1, 0), (0, 2), (2, 0), (1, 2), (2, 1)):
        for eofs in (('stdout',), ('stderr',), ('stdout', 'stderr'), ()):
            for cfgs in (CF_PLAIN, CF_DRAIN):
                ops = [('spawn', a, 'ok'), ('write', a, 'stdout', b'A says hi\n'), ('read', a, 'stdout', 3000), ('exit', a)]
                ops += [('read', a, ch, 3000) for ch in eofs]
                ops += [('spawn', b, 'ok'), ('write', b, 'stdout', b'B before\n'), ('reap', a),
                        ('write', b, 'stdout', b'B after the reap of A\n'), ('write', b, 'stderr', b'B stderr\n'),
                        ('read', b, 'stdout', 3000), ('read', b, 'stderr', 3000),
                        ('spawn', a, 'ok'), ('write', a, 'stdout', b'A again\n')] + epilogue(3)
                jobs.append(('eofreuse', (cfgs, False, 3, ops)))
    return jobs


def gen_config(chk, B, E):
    """Configuration text -> dispatcher behaviour, with DIFFERENT values on the two channels: [program:x]
    sections parsed by the real ServerOptions.processes_from_section; every per-channel ProcessConfig field
    is compared with the text, then the program is run (both channels write a line and a capture section)
    and judged against what the text configures (judged only)."""
    import itertools
    jobs = []
    k = 0
    for ev in itertools.product([False, True], repeat=2):
        for cap in (('0', '0'), ('10', '0'), ('0', '7'), ('1KB', '12')):
            for nolog in itertools.product([False, True], repeat=2):
                for syslog in itertools.product([False, True], repeat=2):
                    for redirect in (False, True):
                        k += 1
                        mb, bu = (('0', '2MB'), (3, 5)) if k % 2 else (('1MB', '0'), (0, 4))
                        sec = {'redirect': redirect}
                        for i, chan in enumerate(('stdout', 'stderr')):
                            sec[chan] = {'events': ev[i], 'capture': cap[i], 'nolog': nolog[i], 'syslog': syslog[i],
                                         'maxbytes': mb[i], 'backups': bu[i]}
                        units = {'0': 0, '10': 10, '7': 7, '12': 12, '1KB': 1024}
                        cfg = (redirect, units[cap[0]], 0 if redirect else units[cap[1]], ev[0], ev[1] and not redirect)
                        ops = [('spawn', 0, 'ok'),
                               # the output contains what a formatting step could trip over: % %s %d %(x)s 100%
                               ('write', 0, 'stdout', b'OUT 100% %s %d line ' + B + b'oc' + E + b' OUT %(x)s o2 50%\n'),
                               ('write', 0, 'stderr', b'ERR 100% %s %d line ' + B + b'ec' + E + b' ERR %(x)s e2 %\n'),
                               ('read', 0, 'stdout', 3000), ('read', 0, 'stderr', 3000), ('exit', 0), ('reap', 0)]
                        jobs.append(('config', ([cfg], False, 3, ops, {'loglevel': LOGLEVELS[k % 7], 'sections': [sec]})))
    return jobs


CF_LISTEN = [(False, 0, 0, False, False, False, None, False, True), (True, 0, 0, False, False), (False, 0, 4, False, False)]


def gen_moveaway(chk, B, E):
    """External rotation: the log file is renamed away, then SIGUSR2 asks for a reopen -- at every cut
    point of streams with capture sections (so also between BEGIN and END), then more output.  The file
    at the configured path must hold exactly what was logged after the reopen."""
    streams = [b'ab' + B + b'xyz' + E + b'cd\n', b'a' + B + b'x' + E + b'm' + B + b'yy' + E + b'z\n',
               b'0123456789' * 3 + B + b'Q' * 30 + E + b'tail\n']
    jobs = []
    for si, s in enumerate(streams):
        variants = ((CF_DRAIN, 0, 'stdout', 'stdout'), (CF_DRAIN, 2, 'stderr', 'stderr'),
                    (CF_PLAIN, 0, 'stdout', 'stdout'), (CF_DRAIN_EV, 1, 'stdout', 'stdout'))
        if si == 2 and chk.tier == 'quick':
            variants = variants[:1]
        for cfgs, p, wch, rch in variants:
            for c in range(1, len(s)):
                ops = [('spawn', p, 'ok'), ('write', p, wch, s[:c]), ('read', p, rch, 3000), ('moveaway', p), ('reopen',),
                       ('write', p, wch, s[c:])]
                if c % 2:
                    ops.append(('read', p, rch, 3000))
                ops += [('exit', p), ('reap', p)]
                jobs.append(('moveaway', (cfgs, False, 3, ops)))
    return jobs


def gen_listener(chk, B, E):
    """Event listener processes: stdout is a PEventListenerDispatcher with a child log (every byte
    read is logged once, through stripEscapes per read when strip_ansi), stderr an ordinary
    dispatcher.  Reads cut inside the READY / RESULT protocol tokens."""
    jobs = []

    def pieces(data, c):
        return [data[:c], data[c:]] if 0 < c < len(data) else [data]
    ready, result = b'READY\n', b'RESULT 2\nOK'
    for strip in (False, True):
        for c1 in range(0, len(ready)):
            for c2 in range(0, len(result)):
                ops = [('spawn', 0, 'ok')]
                for part in pieces(ready, c1):
                    ops += [('write', 0, 'stdout', part), ('read', 0, 'stdout', 3000)]
                ops.append(('lbusy', 0))
                for part in pieces(result, c2):
                    ops += [('write', 0, 'stdout', part), ('read', 0, 'stdout', 3000)]
                ops += [('write', 0, 'stderr', b'listener stderr\n'), ('write', 0, 'stdout', ready)]
                if (c1 + c2) % 2:
                    ops.append(('read', 0, 'stdout', 3))
                ops += [('exit', 0), ('reap', 0)]
                jobs.append(('listener', (CF_LISTEN, strip, 3, ops)))
        # spurious output (-> UNKNOWN), ANSI escapes in a listener's stdout, fragmented reads
        for data in (b'XREADY\nmore', b'READY\nchatter', b'\x1b[1mREADY\n\x1b[0m', b'REA\x1b[', b'READY\nRESULT x\n'):
            for n in (1, 2, 3, 1000):
                ops = [('spawn', 0, 'ok'), ('write', 0, 'stdout', data)]
                ops += [('read', 0, 'stdout', n)] * (len(data) // n + 1)
                ops += [('exit', 0), ('reap', 0), ('spawn', 0, 'ok'), ('write', 0, 'stdout', ready), ('exit', 0), ('reap', 0)]
                jobs.append(('listener', (CF_LISTEN, strip, 3, ops)))
    return jobs


CF_ROT = [(False, 0, 0, False, False, False, (16, 2)), (True, 0, 0, False, False, False, (16, 1)),
          (False, 10, 0, False, False, False, (16, 0))]


def gen_rotate(chk, B, E):
    """Rotating child logs (judged on the implementation only; rotation itself is C19's model):
    k writes of 10 bytes, each read at once (so each is one log record and the handler rolls over
    after every second one), with a log-reopen request at every position -- before the first
    rollover (control) and after it -- and a respawn.  backups + current file must be the output in order."""
    jobs = []
    for p in (0, 1, 2):
        for k in range(1, 7):
            for pos in range(0, k + 2):
                for again in (False, True):
                    ops = [('spawn', p, 'ok')]
                    for i in range(k):
                        if i == pos:
                            ops.append(('reopen',))
                        ops += [('write', p, 'stdout', b'%d:%06d\n' % (p, i)), ('read', p, 'stdout', 3000)]
                    if pos == k:
                        ops.append(('reopen',))
                    ops += [('write', p, 'stdout', b'bye\n'), ('exit', p), ('reap', p)]
                    if pos == k + 1:
                        ops.append(('reopen',))
                    if again:
                        ops += [('spawn', p, 'ok'), ('write', p, 'stdout', b'second life\n'), ('read', p, 'stdout', 3000),
                                ('reopen',), ('write', p, 'stdout', b'more\n'), ('exit', p), ('reap', p)]
                    jobs.append(('rotate', (CF_ROT, False, 3, ops)))
    return jobs


def gen_bigdrain(chk, B, E):
    """1 byte .. 64 KiB still unread in the stdout and/or stderr pipe when the child is reaped."""
    jobs = []
    sizes = [1, 8191, 8192, 8193, 40000, 65536]
    if chk.tier != 'quick':
        sizes += [2, 4095, 4096, 4097, 16384, 32768, 65535]
    for i, n in enumerate(sizes):
        head = b'x' + B + b'sec' + E
        # capture off, stdout
        jobs.append(('bigdrain', (CF_PLAIN, False, 3, [('spawn', 0, 'ok'), ('writegen', 0, 'stdout', n, i), ('exit', 0), ('reap', 0)])))
        # capture on, stdout, a section read before the burst
        jobs.append(('bigdrain', (CF_DRAIN, False, 3, [('spawn', 0, 'ok'), ('write', 0, 'stdout', head), ('read', 0, 'stdout', 3000),
                                                       ('writegen', 0, 'stdout', n, i + 3), ('exit', 0), ('reap', 0)])))
        # capture on stderr; both pipes hold data at reap
        jobs.append(('bigdrain', (CF_DRAIN, False, 5, [('spawn', 2, 'ok'), ('writegen', 2, 'stdout', n, i + 5),
                                                       ('writegen', 2, 'stderr', max(1, n // 2), i + 9), ('exit', 2), ('reap', 2)])))
        # redirect_stderr: both channels into the one pipe (together <= capacity)
        jobs.append(('bigdrain', (CF_DRAIN, False, 3, [('spawn', 1, 'ok'), ('writegen', 1, 'stdout', n // 2, i + 1),
                                                       ('writegen', 1, 'stderr', n - n // 2, i + 2), ('exit', 1), ('reap', 1)])))
    return jobs


# ------------------------------------------------------------------ single channel / strip

def gen_strip_strings(chk):
    syms = [b'\x1b', b'[', b'm', b'3', b'x'] if chk.tier == 'quick' else [b'\x1b', b'[', b'm', b'A', b'3', b'x']
    out = []
    for n in range(0, 7 if chk.tier == 'quick' else 8):
        for t in itertools.product(syms, repeat=n):
            out.append(b''.join(t))
    rng = chk.rng
    for _ in range(2000):
        out.append(bytes(rng.choice(b'\x1b[[mHfABCDRsuJKhlp;019x\xff\n') for _ in range(rng.randrange(0, 40))))
    return out


def gen_chan(chk, H, B, E):
    """strip_ansi on, one dispatcher: (frags, capmax)"""
    pieces = [b'\x1b[3', b'1m', b'h', b'\x1b', b'[0mK', B, E, B[:12], B[12:]]
    jobs = []
    k = 0
    for n in ((1, 2, 3) if chk.tier == 'quick' else (1, 2, 3, 4)):
        idx = range(len(pieces)) if n <= 3 else range(5)
        for t in itertools.product(idx, repeat=n):
            for mask in range(2 ** (n - 1)):
                k += 1
                frags, cur = [], b''
                m = mask
                for i in t:
                    cur += pieces[i]
                    if m & 1:
                        frags.append(cur)
                        cur = b''
                    m >>= 1
                if cur:
                    frags.append(cur)
                jobs.append((frags + ([b''] if k % 2 else []), 0 if k % 3 else 8))
    return jobs


_RIG = None


def _chan_init(wd):
    global _RIG, _TOK
    import c08_disp as H
    sub = os.path.join(wd, 'c%d' % os.getpid())
    os.makedirs(sub, exist_ok=True)
    _RIG = H.Rig(sub)
    _TOK = H.tokens()


def _chan_job(job):
    import c08_disp as H
    import c07_seam as S
    frags, cm = job
    try:
        tr, info = _RIG.run(frags, cm, channel='stdout', strip=True,
                            loglevel=H.LOGLEVELS[(len(frags) + cm + len(frags[0])) % len(H.LOGLEVELS)])
    except Exception as e:
        return None, H._describe(e)
    logged, secs, _o = H.split_ref(b''.join(frags), _TOK[0], _TOK[1], cm)
    verdict = None
    if info['log'] != S.strip_ref(logged):
        verdict = 'ansi-split' if b'\x1b' in logged else 'wrong'
    return tr, verdict


def _strip_job(s):
    from supervisor.dispatchers import stripEscapes
    return stripEscapes(s)


# ------------------------------------------------------------------ main

def _run(chk, wd, proved):
    import c08_disp as H
    import c07_seam as S
    B, E = H.tokens()
    hjobs = (gen_eofreuse(chk, B, E) + gen_config(chk, B, E) + gen_drain(chk, B, E) + gen_reapfault(chk, B, E)
             + gen_moveaway(chk, B, E) + gen_listener(chk, B, E)
             + gen_rotate(chk, B, E) + gen_bigdrain(chk, B, E)
             + gen_histories(chk, B, E))
    corpus = _load_corpus()
    hjobs = [('corpus', j) for j in corpus] + hjobs
    # the daemon's own loglevel is a dimension of every history: child logs must not depend on it
    hjobs = [(fam, (j if len(j) > 4 else tuple(j) + ({'loglevel': LOGLEVELS[i % 7]},))) for i, (fam, j) in enumerate(hjobs)]
    cjobs = gen_chan(chk, H, B, E)
    sjobs = gen_strip_strings(chk)
    ctx = multiprocessing.get_context('fork')
    with ctx.Pool(vlib.NCPU, initializer=S.worker_init, initargs=(wd,)) as pool:
        hres = pool.map(S.history_job, [j for _, j in hjobs], chunksize=32)
        # the child's descriptors after fork: (FastCGI)Subprocess._prepare_child_fds()
        fdjobs = [(f, r, n, x) for f in (False, True) for r in (False, True) for n in (3, 5) for x in (0, 1, 4)]
        fdres = pool.map(S.childfds_job, fdjobs, chunksize=4)
        # PROCESS_LOG events as an event listener sees them: subscription (type with / without its subtypes, both
        # orders) and dispatch order
        pljobs = [(sel, st) for st in (False, True) for sel in (
            ['ProcessLogEvent'], ['ProcessLogEvent', 'ProcessLogStdoutEvent'], ['ProcessLogStdoutEvent', 'ProcessLogEvent'],
            ['ProcessLogEvent', 'ProcessLogStderrEvent'], ['ProcessLogStderrEvent', 'ProcessLogEvent'],
            ['ProcessLogStdoutEvent', 'ProcessLogStderrEvent'], ['ProcessLogStderrEvent'], ['ProcessLogStdoutEvent'],
            ['ProcessLogStdoutEvent', 'ProcessLogEvent', 'ProcessLogStderrEvent'])]
        plres = pool.map(S.poolorder_job, pljobs, chunksize=1)
    with ctx.Pool(vlib.NCPU, initializer=_chan_init, initargs=(wd,)) as pool:
        cres = pool.map(_chan_job, cjobs, chunksize=64)
        sres = pool.map(_strip_job, sjobs, chunksize=512)

    nruns = 0
    distinct = set()
    known_ansi = 0
    known_plog = 0
    # ---- child descriptors, listener view of PROCESS_LOG events (judged on the implementation)
    for job, why in zip(fdjobs, fdres):
        nruns += 1
        chk.dist('childfds:' + ('fcgi' if job[0] else 'program'))
        if why:
            chk.violation({'kind': 'the forked child\'s descriptors are not the pipes of its channels', 'why': why,
                           'fastcgi': job[0], 'redirect_stderr': job[1], 'open_at_start': job[2], 'unrelated_opened_first': job[3],
                           'how': 'harness/c07_seam.py:childfds_job'})
    for job, why in zip(pljobs, plres):
        nruns += 1
        chk.dist('listenerview')
        if why:
            chk.violation({'kind': 'PROCESS_LOG events do not reach an event listener pool once each and in the order of the log',
                           'why': why, 'pool_events': job[0], 'strip_ansi': job[1], 'how': 'harness/c07_seam.py:poolorder_job'})
    # ---- stripEscapes
    cases = ['(%s, %s)' % (vlib.bytes_lit(s), vlib.bytes_lit(r)) for s, r in zip(sjobs, sres)]
    bad, errs = vlib.coq_compare(IMPORTS, 'bytes * bytes', 'check_strip', cases, wd, tag='strip', shard=1500)
    nruns += len(cases)
    chk.dist('strip:strings', len(cases))
    for e in errs:
        chk.violation({'kind': 'model evaluation failed', 'part': 'strip', 'error': e}, nofail=True)
    for i in bad[:5]:
        chk.violation({'kind': 'model of stripEscapes and implementation disagree', 'input': list(sjobs[i]),
                       'implementation': list(sres[i]),
                       'reference_strip': list(S.strip_ref(sjobs[i]))},
                      nofail=(S.strip_ref(sjobs[i]) == sres[i]))
    for s, r in zip(sjobs, sres):
        distinct.add(('strip', len(s) - len(r), r[:2]))
        if S.strip_ref(s) != r:
            chk.violation({'kind': 'stripEscapes differs from its reference on a whole string', 'input': list(s),
                           'implementation': list(r), 'reference': list(S.strip_ref(s))})
            break
    # ---- one channel with strip_ansi
    ccases, cmeta = [], []
    nchan_bad = 0
    for job, (tr, verdict) in zip(cjobs, cres):
        nruns += 1
        chk.dist('chan:strip')
        if tr is None or verdict == 'wrong':
            nchan_bad += 1
            if nchan_bad > 10:
                continue
            chk.violation({'kind': 'the implementation violates C07 on one channel', 'why': verdict or tr,
                           'frags': [list(f) for f in job[0]], 'capture_maxbytes': job[1], 'strip_ansi': True})
            continue
        if verdict == 'ansi-split':
            known_ansi += 1
        ccases.append('(%s, true, %s, %s)' % (zlit(job[1]), coq_list([vlib.bytes_lit(f) for f in job[0]]), zlist(tr)))
        cmeta.append(job)
    bad, errs = vlib.coq_compare(IMPORTS, 'Z * bool * list bytes * list Z', 'check_chan', ccases, wd, tag='chan', shard=200)
    for e in errs:
        chk.violation({'kind': 'model evaluation failed', 'part': 'chan', 'error': e}, nofail=True)
    for i in bad[:5]:
        chk.violation({'kind': 'model and implementation disagree (one channel, strip_ansi on)',
                       'frags': [list(f) for f in cmeta[i][0]], 'capture_maxbytes': cmeta[i][1]}, nofail=True)
    # ---- histories
    sums, smeta, exact, emeta = [], [], [], []
    nfail = nwrong = 0
    for idx, ((fam, job), (tr, fail, verdicts)) in enumerate(zip(hjobs, hres)):
        nruns += 1
        chk.dist('world:' + fam)
        for o in job[3]:
            chk.dist('op:' + o[0] + (':' + (o[2] if isinstance(o[2], str) else 'pipefail') if o[0] == 'spawn' else ''))
            if o[0] == 'read':
                assert o[3] <= 3000
        if tr is None:
            nfail += 1
            if nfail <= 10:
                chk.violation({'kind': 'the implementation failed on this history', 'why': fail, 'history': _json_job(job)})
            continue
        wrong = [v for v in verdicts if v[2] != 'ansi-split']
        if wrong:
            nwrong += 1
            # shortest histories first in the generators: keep the first ones as replays
            if nwrong <= 10:
                chk.violation({'kind': 'the implementation violates C07 on this history (judged by the reference splitter)',
                               'channels': wrong, 'history': _json_job(job)})
            continue
        if verdicts:
            known_ansi += 1
        distinct.add(('w', H.wsum(tr) % 1000003))
        if fam in ('rotate', 'config'):
            continue      # judged above; rotation (C19) and per-channel NONE from configuration text are not in the C07 model
        sums.append(world_term(job, True, zlit(H.wsum(tr))))
        smeta.append((job, tr))
        if (idx % 25 == 0 or fam in ('reuse', 'corpus')) and fam != 'bigdrain':
            exact.append(world_term(job, True, zlist(tr)))
            emeta.append((job, tr))
    ctype = 'list pcfg * bool * bool * nat * list wop * %s'
    bad, errs = vlib.coq_compare(IMPORTS, ctype % 'Z', 'check_world_sum', sums, wd, tag='wsum', shard=250)
    bad = _retry_incap(chk, bad, errs, smeta, wd, ctype % 'Z', 'check_world_sum', lambda tr: zlit(H.wsum(tr)))
    _report_world(chk, bad, errs, smeta, 'checksum')
    bad, errs = vlib.coq_compare(IMPORTS, ctype % 'list Z', 'check_world', exact, wd, tag='wexact', shard=60)
    bad = _retry_incap(chk, bad, errs, emeta, wd, ctype % 'list Z', 'check_world', zlist)
    _report_world(chk, bad, errs, emeta, 'exact')
    if nfail > 10 or nwrong > 10:
        chk.note('%d histories failed and %d violated C07 in all; the first 10 of each are kept as replays' % (nfail, nwrong))
    if known_ansi:
        chk.known_finding('C07-ansi-split', 'strip_ansi: an escape sequence cut by a read boundary is not stripped from the log '
                                           '(stripEscapes is applied per logged chunk); %d such runs explored, all agree with '
                                           'the model' % known_ansi)
    if not proved:
        chk.violation({'kind': 'proof obligation no longer checks', 'detail': chk.proof_failure,
                       'file': 'coq/props/C07.v'}, nofail=not chk.violations)
    cov = chk.coverage
    cov['evaluations'] = nruns
    cov['traces_validated_against_impl'] = nruns
    cov['distinct_nontrivial'] = len(distinct)
    cov['exhaustive'] = True
    cov['rule'] = ('evaluations = stripEscapes strings + single-channel runs + multi-process histories; exhaustive: every string '
                   'of <= 6 symbols over {ESC,[,m,3,x} (thorough: +A, <= 7) for stripEscapes; every fragmentation of every stream of <= 3 pieces '
                   '(<= 4 over 5 pieces) of escape/tag pieces with strip_ansi on; every operation sequence of length <= %d over an '
                   '22-operation alphabet (3 processes: spawn ok / fork failure / pipe failure, writes, fragmented reads, exit, '
                   'reap, unrelated open/close, log reopen, clearProcessLogs, external move-away of the log; quick tier: length 3 over '
                   'the first 18) followed by a flush-and-reap epilogue; every cut point of 6 streams with 0-2 capture '
                   'sections where the part after the cut is still in the pipe at reap (capture on stdout / through redirect / on '
                   'stderr / off); 1, 8191, 8192, 8193, 40000, 65536 bytes still unread in the stdout and/or stderr pipe at reap '
                   '(pipe capacity 64 KiB; the seam read honours the requested size); the child\'s descriptors 0/1/2 after the real '
                   '_prepare_child_fds() of Subprocess and FastCGISubprocess (redirect on/off); real EventListenerPool with one '
                   'listener: PROCESS_LOG subscriptions with/without subtypes in both orders, buffering once each, dispatch order; '
                   ' a read error (EIO/EBADF) on one channel during the '
                   'drain with output pending on the other; rotating logs (maxbytes 16, backups 2/1/0) with a reopen request at every '
                   'position (judged only); logfile NONE / AUTO; plus the descriptor-reuse scenarios and random '
                   'long histories; distinct_nontrivial = distinct trace checksums of histories (all contain at least one spawn) '
                   'and distinct stripEscapes outcomes' % (3 if chk.tier == 'quick' else 4))
    cov['samples'] = [_json_job(hjobs[len(hjobs) // 3][1]), _json_job(hjobs[-1][1])]


def _retry_incap(chk, bad, errs, meta, wd, ctype, fn, enc):
    """Acceptance rule for C08-proclog: a history that only disagrees because
    PROCESS_LOG events are no longer emitted for captured data is accepted."""
    if not bad or errs:
        return bad
    retry = [world_term(meta[i][0], False, enc(meta[i][1])) for i in bad]
    bad2, errs2 = vlib.coq_compare(IMPORTS, ctype, fn, retry, wd, tag='retry', shard=100)
    if errs2:
        return bad
    if len(bad2) < len(bad):
        chk.note('%d histories agree with the model only with PROCESS_LOG events suppressed in capture mode '
                 '(C08-proclog no longer reproduces)' % (len(bad) - len(bad2)))
    return [bad[i] for i in bad2]


def _report_world(chk, bad, errs, meta, part):
    for e in errs:
        chk.violation({'kind': 'model evaluation failed', 'part': 'world-' + part, 'error': e}, nofail=True)
    for i in bad[:5]:
        job, tr = meta[i]
        chk.violation({'kind': 'model and implementation disagree on a multi-process history', 'part': part,
                       'history': _json_job(job), 'implementation_trace': tr,
                       'explanation': 'the run satisfies the reference splitter per process and channel, so no failing input '
                                      'for the property is known; the Coq model (descriptor allocation, ownership, routing, '
                                      'drain at reap) behaves differently from the implementation'}, nofail=True)


def _load_corpus():
    out = []
    d = os.path.join(vlib.VERIF, 'corpus', 'C07')
    if os.path.isdir(d):
        for f in sorted(os.listdir(d)):
            if f.endswith('.json'):
                with open(os.path.join(d, f)) as fh:
                    o = json.load(fh)
                for c in o.get('histories', []):
                    out.append(_job_from_json(c))
    return out


def replay(chk, path):
    import c08_disp as H
    import c07_seam as S
    with open(path) as f:
        obj = json.load(f)
    print(json.dumps(obj, indent=1)[:3000])
    proved = chk.prove('props/C07.v', gens=_gens())
    h = obj.get('history')
    if not h:
        return run(chk)
    job = _job_from_json(h)
    with vlib.WorkDir('c07r') as wd:
        S.worker_init(wd)
        tr, fail, verdicts = S.history_job(job)
        print('implementation trace:', tr)
        print('failure:', fail, 'judge:', verdicts)
        if tr is None:
            chk.violation({'kind': 'the implementation failed on this history', 'why': fail, 'history': _json_job(job)})
            return
        wrong = [v for v in verdicts if v[2] != 'ansi-split']
        if wrong:
            chk.violation({'kind': 'the implementation violates C07 on this history', 'channels': wrong,
                           'history': _json_job(job)})
            return
        ctype = 'list pcfg * bool * bool * nat * list wop * list Z'
        terms = [world_term(job, True, zlist(tr)), world_term(job, False, zlist(tr))]
        bad, errs = vlib.coq_compare(IMPORTS, ctype, 'check_world', terms, wd, tag='rp')
        _report_world(chk, [0] if len(bad) == 2 else [], errs, [(job, tr)], 'replay')
        if not proved:
            chk.violation({'kind': 'proof obligation no longer checks', 'detail': chk.proof_failure}, nofail=True)
