"""C12 - XML-RPC exposes only the public API; answers are results or documented faults.

Theorems: coq/props/C12.v over coq/C12/{RpcTypes,Gen_rpc,Rpc,RpcProofs}.v;
Gen_rpc.v is regenerated from the working tree by gen/c12_rpc.py on every run.

Correspondence / exploration (real RootRPCInterface, namespaces, traverse,
supervisor_xmlrpc_handler.continue_request/loads/call, DeferredXMLRPCResponse,
multicall, marshalling; stub daemon from harness/c12_world.py):
  names   every pair of attribute names reachable from the two root objects,
          dotted chains of 1/3/4 parts, empty parts, underscore and unicode
          names, in every mood -> Coq model (check_name) decides
  args    every resolvable method x mood x process-state layout x argument
          tuples of the documented types + wrong arities, through the handler's
          dispatch and through the full XML path -> shape, fault table, guard,
          Coq model (check_name)
  multi   random multicall compositions (faults, unknown names, nested
          multicall, missing methodName, deferred calls, mood changes) against
          the same calls issued one after another -> element-for-element
          equality and Coq model of the driver (check_multi)
"""
import json
import os
import re
import sys

import vlib
from vlib import zlit, blit, coq_list

LEVEL = 'proof'
IMPORTS = ['SV.C12.RpcTypes', 'SV.C12.Gen_rpc', 'SV.C12.Rpc']

LOG_METHODS = ('readLog', 'readMainLog', 'readProcessLog', 'readProcessStdoutLog', 'readProcessStderrLog',
               'tailProcessLog', 'tailProcessStdoutLog', 'tailProcessStderrLog')
SHAPES = {'string': str, 'int': int, 'boolean': bool, 'array': list, 'struct': dict}


def _cap_violations(chk, per_kind=3):
    """At most `per_kind` replay files per kind of failure (the driver prints
    the first 20 VIOLATION lines; every kind must be visible among them)."""
    real = chk.violation
    seen = {}

    def violation(obj, nofail=False, name=None):
        k = obj.get('kind') if isinstance(obj, dict) else None
        seen[k] = seen.get(k, 0) + 1
        if seen[k] > per_kind:
            chk.dist('suppressed-violation:%s' % k)
            return None
        return real(obj, nofail=nofail, name=name)
    chk.violation = violation


def run(chk):
    import c12_rpc
    _cap_violations(chk)
    proved = chk.prove('props/C12.v', gens=[c12_rpc.generate])
    with vlib.WorkDir('c12') as wd:
        _run(chk, wd, proved)


# ------------------------------------------------------------------ helpers

def bad_answer(res):
    """Anything a client cannot use as the answer of a call: HTTP error,
    escaped exception, 'bad-content-length' (declared length != body bytes),
    'malformed-xml', 'none' (nothing was sent), 'never-completes', ..."""
    return res is None or res[0] not in ('value', 'fault')


BAD_KIND = ('call with arguments of the documented types did not produce a value or a fault '
            '(HTTP 500 / exception / wrong Content-Length / malformed XML / no response / response that never completes)')


def xml_safe(s):
    return isinstance(s, str) and all(
        (ord(ch) >= 32 or ch in '\t\n') and not (0xD800 <= ord(ch) <= 0xDFFF) and ch not in u'\ufffe\uffff'
        for ch in s)


_PRIV = re.compile(r'/rd/\d+/')


def norm(v):
    if isinstance(v, str):
        return _PRIV.sub('/rd/N/', v) if '/rd/' in v else v     # per-world private log directory of the real-dispatcher layout
    if isinstance(v, (tuple, list)):
        return [norm(x) for x in v]
    if isinstance(v, dict):
        return dict((k, norm(x)) for k, x in v.items())
    return v


def name_bytes(s):
    return list(s.encode('utf-8', 'surrogatepass'))


def obs_term(res):
    k = res[0]
    if k == 'value':
        return 'ObsValue'
    if k == 'fault' and isinstance(res[1], int):
        return '(ObsFault %s)' % zlit(res[1])
    if k == 'http':
        return '(ObsHttp %s)' % zlit(res[1])
    return 'ObsExc'


def name_case(use_mroot, name, nargs, mood, res, changed, reached):
    return '(%s, %s, %s, %s, %s, %s, %s)' % (blit(use_mroot), vlib.zlist(name_bytes(name)), zlit(nargs), zlit(mood),
                                             obs_term(res), blit(changed), blit(reached))


class Pool(object):
    """Worlds reused while untouched, replaced as soon as a call changed
    anything (so every call sees the same initial daemon state)."""

    def __init__(self, logdir, ref):
        self.logdir = logdir
        self.ref = ref
        self.cache = {}
        self.built = 0

    def get(self, variant, mood, slot=0):
        from c12_world import make_world
        key = (variant, mood, slot)
        w = self.cache.get(key)
        if w is None:
            w = make_world(self.logdir, variant, mood)
            self.built += 1
            self.cache[key] = w
            w.pristine = w.snapshot()
        self.ref[0] = w
        return w

    def release(self, variant, mood, slot, w):
        if w.snapshot() != w.pristine or w.reached() is not None:
            del self.cache[(variant, mood, slot)]


def observe(pool, variant, mood, method, params, path):
    """One call on a pristine world.  Returns (answer, polls, changed, reached)."""
    slot = {'direct': 0, 'xml': 1, 'mroot': 2}[path]
    w = pool.get(variant, mood, slot)
    w.reset_reached()
    before = w.snapshot()
    if path == 'direct':
        res, polls = w.call_direct(method, params)
    elif path == 'xml':
        res, polls = w.call_xml(method, params)
    else:
        res, polls = w.traverse_mroot(method, params), 0
        if res[0] == 'value' and callable(res[1]):
            res = ('value', None)    # a deferred element: completion is explored in the multicall part
    changed = w.snapshot() != before
    reached = w.reached() is not None
    pool.release(variant, mood, slot, w)
    return res, polls, changed, reached


# ------------------------------------------------------------ names

def gen_names(chk, facts):
    t_root, t_mroot, universe = facts['t_root'], facts['t_mroot'], facts['universe']
    names = []   # (use_mroot, name, kind)
    for use_mroot, t in ((False, t_root), (True, t_mroot)):
        firsts = sorted(t)
        for a in firsts:
            sub = t[a]
            for b in (sorted(sub) if sub else []):
                names.append((use_mroot, '%s.%s' % (a, b), 'pair'))
            names.append((use_mroot, a, 'one-part'))
            names.append((use_mroot, a + '.', 'empty-part'))
            names.append((use_mroot, '.' + a, 'empty-part'))
        # cross pairs: namespace x every name of the universe (also names the object does not have)
        for a in ('supervisor', 'system', '__class__', '__dict__', '__init__', 'get', 'keys', 'items'):
            for b in universe:
                if not (t.get(a) and b in t[a]):
                    names.append((use_mroot, '%s.%s' % (a, b), 'cross'))
        pub = facts['listed']
        for n in pub:
            ns, m = n.split('.')
            for extra in ('__call__', '__func__', '__self__', '__class__', 'im_func', '__globals__', m):
                names.append((use_mroot, '%s.%s' % (n, extra), 'three-parts'))
            names.append((use_mroot, '%s.%s.__class__.__init__' % (ns, m), 'four-parts'))
            names.append((use_mroot, '%s..%s' % (ns, m), 'empty-part'))
            names.append((use_mroot, '%s._%s' % (ns, m), 'underscore'))
            names.append((use_mroot, '%s.%s' % (ns.upper(), m), 'case'))
            names.append((use_mroot, '%s.%s' % (ns, m.lower()), 'case'))
            names.append((use_mroot, ' %s' % n, 'space'))
            names.append((use_mroot, '%s ' % n, 'space'))
            names.append((use_mroot, u'%s.%s\u00e9' % (ns, m), 'unicode'))
            names.append((use_mroot, u'%s\u2024%s' % (ns, m), 'unicode'))
            names.append((use_mroot, '%s.%s\x00' % (ns, m), 'nul'))
        for n in ('', '.', '..', '...', 'supervisor', 'system', 'supervisor._update', 'supervisor._getAllProcesses',
                  'supervisor._getGroupAndProcess', 'supervisor._readProcessLog', 'supervisor._now',
                  'system._listMethods', 'supervisor.supervisord', 'supervisor.update_text', 'system.namespaces',
                  'supervisor.supervisord.options', 'system.namespaces.supervisor', 'system.namespaces.get',
                  'supervisor.__init__', 'supervisor.__class__', 'supervisor.__dict__', '__class__.__init__',
                  '__class__.mro', '__init__.__globals__', '__init__.__func__', '__dict__.get', '__dict__.clear',
                  '__dict__.pop', '__module__.upper', u'\u00e9.\u00e9', u'\U0001F600.x', 'a.b', 'A.B', '_._', '__.__',
                  'supervisor.\u200bgetState', 'os.system', 'supervisor.os', 'supervisor.getState()', 'supervisor/getState',
                  'supervisor:getState', 'supervisor.getState\n', '\nsupervisor.getState', 'multicall', 'system.multi.call'):
            names.append((False, n, 'special'))
            names.append((True, n, 'special'))
    rng = chk.rng
    alphabet = u'ab_.supervisor.getState.__class__\u00e9\u4e2d\U0001F600 \t.:*'
    for _ in range(400 if chk.tier == 'quick' else 20000):
        n = ''.join(rng.choice(alphabet) for _ in range(rng.randrange(0, 14)))
        names.append((rng.random() < 0.5, n, 'random'))
    # de-duplicate, keeping order
    seen = set()
    out = []
    for x in names:
        if (x[0], x[1]) not in seen:
            seen.add((x[0], x[1]))
            out.append(x)
    return out


def explore_names(chk, pool, facts, cases, meta):
    from c12_world import MOODS
    from supervisor.xmlrpc import Faults
    names = gen_names(chk, facts)
    listed = set(facts['listed'])
    moods_all = [m for _, m in MOODS]
    n_eval = 0
    xml_checked = 0
    for use_mroot, name, kind in names:
        chk.dist('name:' + kind)
        resolvable = name in listed
        moods = moods_all if (resolvable or kind in ('special', 'underscore', 'three-parts')) else [1, -1]
        nargs_list = [0] if not resolvable else [0]
        # extra arities only for names that are refused (their parameters are never
        # looked at); typed tuples for the listed methods are the args part's job
        if not resolvable and (kind in ('special', 'underscore') or (kind == 'pair' and chk.rng.random() < 0.05)):
            nargs_list = [0, 1, 3]
        for mood in moods:
            for nargs in nargs_list:
                params = ('g1:p1',) * nargs
                path = 'mroot' if use_mroot else 'direct'
                res, _, changed, reached = observe(pool, 0, mood, name, params, path)
                n_eval += 1
                cases.append(name_case(use_mroot, name, nargs, mood, res, changed, reached))
                meta.append({'root': 'AttrDict(namespaces)' if use_mroot else 'RootRPCInterface', 'name': name,
                             'params': list(params), 'mood': mood, 'answer': repr(res), 'state_changed': changed,
                             'update_reached': reached})
                # independent of the model: a name that is not listed is refused and executes nothing
                if not resolvable and (res != ('fault', Faults.UNKNOWN_METHOD) or changed or reached):
                    chk.violation({'kind': 'a name outside the public API was not refused cleanly',
                                   'root': meta[-1]['root'], 'method_name': name, 'params': list(params), 'mood': mood,
                                   'answer': repr(res), 'state_changed': changed, 'update_reached': reached})
                # the full XML path must agree with the handler's dispatch
                if not use_mroot and xml_safe(name) and name != '' and (resolvable or mood == 1):
                    res2, _, ch2, re2 = observe(pool, 0, mood, name, params, 'xml')
                    xml_checked += 1
                    r1 = ('http', 500) if res[0] == 'exception' else (res[0], norm(res[1]))
                    if bad_answer(res2):
                        chk.violation({'kind': BAD_KIND, 'method_name': name, 'params': list(params), 'mood': mood,
                                       'path': 'full XML', 'xml': repr(res2), 'direct': repr(res)})
                    elif (r1, changed, reached) != ((res2[0], norm(res2[1])), ch2, re2):
                        chk.violation({'kind': 'XML path and handler dispatch disagree', 'method_name': name,
                                       'params': list(params), 'mood': mood, 'direct': repr(res), 'xml': repr(res2)})
                # the multicall path resolves like traverse on its root (except the recursion name)
                if use_mroot and (mood == 1 or resolvable):
                    if name != 'system.multicall' and xml_safe(name):
                        res3, _, ch3, re3 = observe(pool, 0, mood, 'system.multicall',
                                                    ([{'methodName': name, 'params': list(params)}],), 'xml')
                        el = _element(res3)
                        exp = ('fault', 30) if res[0] == 'exception' else res
                        if bad_answer(res3):
                            chk.violation({'kind': BAD_KIND, 'method_name': 'system.multicall',
                                           'params': repr([{'methodName': name, 'params': list(params)}]), 'mood': mood,
                                           'xml': repr(res3)})
                        elif el is None or el[0] != exp[0] or (el[0] == 'fault' and el[1] != exp[1]):
                            chk.violation({'kind': 'multicall element differs from traverse on the multicall root',
                                           'method_name': name, 'mood': mood, 'multicall': repr(res3), 'traverse': repr(res)})
    chk.dist('names:xml-path-checked', xml_checked)
    return n_eval


def _element(res):
    if res[0] != 'value' or not isinstance(res[1], list) or len(res[1]) != 1:
        return None
    e = res[1][0]
    if isinstance(e, dict) and set(e) == {'faultCode', 'faultString'}:
        return ('fault', e['faultCode'])
    return ('value', e)


# ------------------------------------------------------------- arguments

NAME_POOL = ['g1:p1', 'g1:p2', 'g2:q1', 'solo', 'solo:solo', 'g1:*', 'g2:*', 'solo:*', 'g1', 'g2', 'newgrp', 'p1',
             'nope', 'g1:nope', 'nope:p1', '', ':', '*', 'g1:', ':p1', 'g1:p1:x', 'g1::p1', ' g1:p1', 'G1:P1',
             u'g1:\u00e9', u'\u65e5\u672c:\u8a9e', 'a' * 300, 'g1:p1\n', '\t', '<g1>&"p1"', ']]>', '%s%d',
             '../../etc/passwd', 'g1:*:*', '**', 'system', '__class__', 'supervisor.getState']
SIGNAL_POOL = ['HUP', 'TERM', 'KILL', 'USR1', 'SIGHUP', 'sighup', 'hup', '1', '9', '15', '0', '-1', '64', '65',
               '99999999999', 'bogus', '', '1.5', ' 9', '9 ', u'\u0661', 'SIGRTMIN', 'CHLD', 'STOP', '0x9']
INT_POOL = [0, 1, -1, 2, 5, 13, 14, 100, -5, 2 ** 31 - 1, -2 ** 31, 2 ** 31 - 2, -2 ** 31 + 1, 65536]
GRU, PRO, DIE = u'gr\u00fc', u'pr\u00f6', u'di\u00e9'       # non-ASCII group / process names of layouts 5 and 6
VALID_NAMES = ['g1:p1', 'g1:p2', 'g2:q1', 'solo', 'solo:solo', 'g1:*', 'g2:*', 'g1', 'g2', 'newgrp',
               GRU + ':' + PRO, GRU + ':' + DIE, GRU + ':*', GRU]
VALID_SIGNALS = ['HUP', 'TERM', 'USR1', '1', '15', 'SIGKILL']


# targeted calls tried for every mood and process-state layout before the random tuples
CORPUS = [
    ('supervisor.startProcess', ('g1:p2',)), ('supervisor.startProcess', ('g1:p2', True)),
    ('supervisor.startProcess', ('g1:p2', False)), ('supervisor.startProcess', ('solo',)),
    ('supervisor.startProcess', ('g1:p1',)), ('supervisor.startProcess', ('g1:*',)),
    ('supervisor.stopProcess', ('g1:p1',)), ('supervisor.stopProcess', ('solo',)), ('supervisor.stopProcess', ('g2:q1', False)),
    ('supervisor.stopProcess', ('g1:*',)),
    ('supervisor.startProcessGroup', ('g1',)), ('supervisor.stopProcessGroup', ('g1',)), ('supervisor.startProcessGroup', ('g1', False)),
    ('supervisor.startAllProcesses', ()), ('supervisor.stopAllProcesses', ()), ('supervisor.stopAllProcesses', (False,)),
    ('supervisor.signalProcess', ('g2:q1', 'HUP')), ('supervisor.signalProcess', ('g1:*', 'USR1')),
    ('supervisor.signalProcess', ('g1:p1', 'TERM')), ('supervisor.signalProcess', ('g1:p2', 'HUP')),
    ('supervisor.signalProcess', ('solo', '2')), ('supervisor.signalProcessGroup', ('g2', 'USR2')),
    ('supervisor.signalProcessGroup', ('g1', 'TERM')), ('supervisor.signalAllProcesses', ('15',)),
    ('supervisor.sendProcessStdin', ('g2:q1', 'x')), ('supervisor.sendProcessStdin', ('g1:p1', 'k' * 70000)),
    ('supervisor.sendProcessStdin', ('g1:p2', u'\u00e9\n')), ('supervisor.sendProcessStdin', ('solo', 'x')), ('supervisor.sendProcessStdin', ('g1:p1', u'h\u00e9llo')),
    ('supervisor.sendRemoteCommEvent', ('type', u'd\u00e4ta')),
    ('supervisor.clearProcessLogs', ('g2:q1',)), ('supervisor.clearProcessLog', ('g1:p1',)), ('supervisor.clearAllProcessLogs', ()),
    ('supervisor.readProcessStdoutLog', ('g1:p1', 0, 14)), ('supervisor.readProcessStdoutLog', ('g1:p1', 0, 15)),
    ('supervisor.readProcessStdoutLog', ('g1:p2', 0, 0)), ('supervisor.readProcessLog', ('g1:p2', 2, 2)),
    ('supervisor.tailProcessStdoutLog', ('g1:p2', 0, 100)), ('supervisor.tailProcessLog', ('g1:p1', 0, 16)),
    ('supervisor.tailProcessStderrLog', ('g1:p1', 0, 100)), ('supervisor.readProcessStderrLog', ('g2:q1', 0, 0)),
    ('supervisor.readProcessStderrLog', ('g1:p1', -4, 0)), ('supervisor.readLog', (0, 0)), ('supervisor.readMainLog', (-10, 0)),
    ('supervisor.readLog', (5, -1)), ('supervisor.clearLog', ()),
    # log files that exist but cannot be opened (a directory; EACCES): read* -> FAILED, tail* -> ['', offset, False]
    ('supervisor.readProcessStderrLog', ('g1:p2', 0, 0)), ('supervisor.tailProcessStderrLog', ('g1:p2', 0, 100)),
    ('supervisor.tailProcessStderrLog', ('g1:p2', 7, 0)), ('supervisor.readProcessStdoutLog', ('g2:q1', 0, 0)),
    ('supervisor.readProcessLog', ('g2:q1', 0, 5)), ('supervisor.tailProcessStdoutLog', ('g2:q1', 0, 100)),
    ('supervisor.tailProcessLog', ('g2:q1', 3, 1)), ('supervisor.tailProcessStdoutLog', (GRU + ':' + DIE, 0, 10)),
    ('supervisor.readMainLog', (0, 0)), ('supervisor.readLog', (0, 20)), ('supervisor.reloadConfig', ()),
    ('supervisor.addProcessGroup', ('newgrp',)), ('supervisor.addProcessGroup', ('g1',)),
    ('supervisor.removeProcessGroup', ('g2',)), ('supervisor.removeProcessGroup', ('g1',)), ('supervisor.removeProcessGroup', ('solo',)),
    ('supervisor.getProcessInfo', ('g1:p1',)), ('supervisor.getProcessInfo', ('solo',)), ('supervisor.getAllProcessInfo', ()),
    ('supervisor.getAllConfigInfo', ()), ('supervisor.shutdown', ()), ('supervisor.restart', ()),
    ('system.methodHelp', ('supervisor.startProcess',)), ('system.methodSignature', ('supervisor.startProcess',)),
    ('system.methodSignature', ('supervisor.readMainLog',)),
    ('system.multicall', ([{'methodName': 'supervisor.getState', 'params': []},
                           {'methodName': 'supervisor.startProcess', 'params': ['g1:p2']},
                           {'methodName': 'nope', 'params': []}],)),
    # non-ASCII text in the answer, immediate path: fault strings carrying the name, info structs, UTF-8 log text
    ('supervisor.getProcessInfo', (GRU + ':' + PRO,)), ('supervisor.getProcessInfo', (u'n\u00f6pe:\u65e5\u672c',)),
    ('supervisor.startProcess', (u'n\u00f6pe',)), ('supervisor.stopProcess', (u'n\u00f6pe', False)),
    ('supervisor.addProcessGroup', (GRU,)), ('supervisor.addProcessGroup', (u'n\u00f6pe',)),
    ('supervisor.removeProcessGroup', (GRU,)), ('supervisor.removeProcessGroup', (u'n\u00f6pe',)),
    ('supervisor.startProcess', (GRU + ':' + PRO, False)), ('supervisor.stopProcess', (GRU + ':' + PRO, False)),
    ('supervisor.signalProcess', (GRU + ':' + PRO, u'B\u00d6GUS')), ('supervisor.signalProcessGroup', (GRU, 'HUP')),
    ('supervisor.signalProcess', (GRU + ':*', 'HUP')),
    ('supervisor.clearProcessLogs', (GRU + ':' + DIE,)), ('supervisor.sendProcessStdin', (GRU + ':' + PRO, u'\u00e9')),
    ('supervisor.readLog', (0, 0)), ('supervisor.readLog', (-30, 0)), ('supervisor.readProcessStdoutLog', ('g1:p1', 0, 0)),
    ('supervisor.readProcessStdoutLog', (GRU + ':' + PRO, 0, 0)), ('supervisor.tailProcessStdoutLog', (GRU + ':' + PRO, 0, 100)),
    ('system.methodHelp', (u'supervisor.n\u00f6pe',)),
    # ... deferred path: result arrays with the names, faults raised inside the callback, multicall mixing them
    ('supervisor.startProcess', (GRU + ':' + PRO,)), ('supervisor.startProcess', (GRU + ':' + PRO, True)),
    ('supervisor.startProcess', (GRU + ':' + DIE, True)),          # dies while starting: ABNORMAL_TERMINATION from onwait
    ('supervisor.startProcess', (GRU + ':*',)), ('supervisor.stopProcess', (GRU + ':' + PRO,)),
    ('supervisor.stopProcess', (GRU + ':' + PRO, True)), ('supervisor.stopProcess', (GRU + ':*',)),
    ('supervisor.startProcessGroup', (GRU,)), ('supervisor.startProcessGroup', (GRU, False)),
    ('supervisor.stopProcessGroup', (GRU,)), ('supervisor.stopProcessGroup', (GRU, False)),
    ('supervisor.startProcessGroup', (u'n\u00f6pe',)),
    ('system.multicall', ([{'methodName': 'supervisor.startProcess', 'params': [GRU + ':' + DIE]},
                           {'methodName': 'supervisor.getProcessInfo', 'params': [u'n\u00f6pe']},
                           {'methodName': 'supervisor.stopProcessGroup', 'params': [GRU]},
                           {'methodName': 'supervisor.getAllProcessInfo', 'params': []}],)),
    ('system.multicall', ([{'methodName': 'supervisor.getProcessInfo', 'params': [u'n\u00f6pe']},
                           {'methodName': 'supervisor.readLog', 'params': [0, 0]}],)),
]


def rand_text(rng, safe=True):
    alphabet = u'abcXYZ019 _-:*.<>&"\'%\\/\n\t\u00e9\u00df\u4e2d\u6587\U0001F600\u202e'
    if not safe:
        alphabet += u'\x00\x01\x1b\r\x7f\ufffe'
    return ''.join(rng.choice(alphabet) for _ in range(rng.choice([0, 1, 2, 5, 9, 30])))


def gen_value(rng, pname, ptype, method):
    if ptype == 'boolean':
        return rng.random() < 0.5
    if ptype == 'int':
        k = rng.random()
        if k < 0.55:
            return rng.randrange(0, 24)       # inside the small log files
        return rng.choice(INT_POOL) if k < 0.85 else rng.randrange(-2 ** 31, 2 ** 31)
    if ptype == 'string':
        if pname == 'name':
            if method.startswith('system.'):
                return rng.choice(['supervisor.getState', 'system.multicall', 'supervisor.startProcess', 'nope',
                                   'supervisor._update', '', 'supervisor.readMainLog', rand_text(rng)])
            k = rng.random()
            if k < 0.6:
                return rng.choice(VALID_NAMES)
            return rng.choice(NAME_POOL) if k < 0.9 else rand_text(rng)
        if pname == 'signal':
            k = rng.random()
            if k < 0.5:
                return rng.choice(VALID_SIGNALS)
            return rng.choice(SIGNAL_POOL) if k < 0.9 else rand_text(rng)
        return rand_text(rng)
    if ptype == 'array':     # system.multicall(calls)
        return [{'methodName': rng.choice(['supervisor.getState', 'supervisor.getPID', 'nope.nope', 'system.multicall',
                                          'supervisor.getProcessInfo']),
                 'params': rng.choice([[], ['g1:p1'], ['nope']])} for _ in range(rng.randrange(0, 4))]
    raise ValueError('no generator for documented type %r' % ptype)


_TARGETS = {}


def layout_targets(variant):
    """group:process specs of every process of a layout, plus the group forms."""
    if variant not in _TARGETS:
        from c12_world import VARIANTS, REAL_VARIANTS
        rows = VARIANTS[variant] if variant < len(VARIANTS) else REAL_VARIANTS[variant - len(VARIANTS)]
        out = ['%s:%s' % (r[0], r[1]) for r in rows]
        for g in sorted(set(r[0] for r in rows)):
            out.extend([g, g + ':*'])
        _TARGETS[variant] = out
    return _TARGETS[variant]


def layout_states(variant):
    from c12_world import VARIANTS, REAL_VARIANTS
    rows = VARIANTS[variant] if variant < len(VARIANTS) else REAL_VARIANTS[variant - len(VARIANTS)]
    return dict(('%s:%s' % (r[0], r[1]), r[2]) for r in rows)


def sweep_tuples(names, ptypes, target):
    """Well-typed argument tuples aimed at `target`, one per shape of the optional arguments."""
    defaults = {'wait': [True, False], 'signal': ['HUP', '15'], 'offset': [0], 'length': [10], 'chars': [u'x\u00e9\n'],
                'data': ['d'], 'type': ['t']}
    outs = [[]]
    for n, t in zip(names, ptypes):
        vals = [target] if n == 'name' else defaults.get(n)
        if vals is None:
            return []
        outs = [o + [v] for o in outs for v in vals]
    res = [tuple(o) for o in outs]
    if 'wait' in names:
        res.append(tuple(outs[0][:names.index('wait')]))      # optional argument omitted
    return res


def live_param_names(facts):
    import inspect
    from c12_rpc import build_live
    root, mroot, namespaces, system = build_live()
    out = {}
    for n in facts['listed']:
        ns, m = n.split('.')
        out[n] = [p for p in inspect.signature(getattr(namespaces[ns], m)).parameters]
    return out


def known_utf8(method, res, res2):
    """C12-utf8 (= C16-utf8): read*/tail* on a window that is not valid UTF-8."""
    m = method.split('.')[-1]
    return m in LOG_METHODS and (res == ('exception', 'UnicodeDecodeError') or res == ('exception', 'AttributeError')) \
        and res2 in (None, ('http', 500))


def shape_ok(method, sig, params, value):
    rtype = sig[0]
    v = norm(value)
    t = SHAPES.get(rtype)
    if t is None:
        return False
    ok = isinstance(v, t) and not (t is int and isinstance(v, bool))
    if ok:
        return True
    m = method.split('.')[-1]
    # start/stop/signalProcess on a group spec ('group:*') answer the group method's array
    if m in ('startProcess', 'stopProcess', 'signalProcess') and isinstance(v, list):
        return True
    return False


# trailing parameters a client may omit (mirror of optional_trailing in coq/C12/RpcProofs.v, where
# c12_arity_documented ties the source's arity range to the docstring's @param list)
OPTIONAL_TRAILING = {'supervisor.startProcess': 1, 'supervisor.startProcessGroup': 1, 'supervisor.startAllProcesses': 1,
                     'supervisor.stopProcess': 1, 'supervisor.stopProcessGroup': 1, 'supervisor.stopAllProcesses': 1}


def documented_arity(method, sig):
    n = len(sig) - 1
    return n - OPTIONAL_TRAILING.get(method, 0), n


def explore_arity(chk, pool, facts, counters):
    """Every published method with zero arguments, one too few, one too many
    (well-typed prefixes / a surplus string), directly and as a multicall
    element, in every mood: INCORRECT_PARAMETERS and nothing happens.  The
    expected arity is the DOCUMENTED one (system.methodSignature)."""
    from c12_world import MOODS
    from supervisor.xmlrpc import Faults
    pnames = live_param_names(facts)
    rng = chk.rng
    n = 0
    for method in facts['listed']:
        sig = facts['signatures'][method]
        if sig is None:
            continue
        dmin, dmax = documented_arity(method, sig)
        full = tuple(gen_value(rng, pnames[method][i] if i < len(pnames[method]) else 'x', sig[1 + i], method)
                     for i in range(dmax))
        if 'name' in pnames[method][:1] and method.startswith('supervisor.'):
            full = ('g1:p1',) + full[1:]
        wrong = set([0, dmin - 1, dmax + 1, dmax + 2]) - set(range(dmin, dmax + 1))
        for k in sorted(x for x in wrong if x >= 0):
            params = full[:k] if k <= dmax else full + ('extra',) * (k - dmax)
            for moodname, mood in MOODS:
                for path in ('direct', 'xml', 'multicall'):
                    if path == 'multicall':
                        if method == 'system.multicall':
                            continue
                        res, _, changed, reached = observe(pool, 0, mood, 'system.multicall',
                                                           ([{'methodName': method, 'params': list(params)}],), 'xml')
                        el = _element(res)
                        res = el if el is not None else res
                    else:
                        res, _, changed, reached = observe(pool, 0, mood, method, params, path)
                    n += 1
                    chk.dist('arity-sweep:%s' % path)
                    if res != ('fault', Faults.INCORRECT_PARAMETERS) or changed:
                        chk.violation({'kind': 'a call with a wrong number of arguments was not answered INCORRECT_PARAMETERS',
                                       'method_name': method, 'params': repr(params), 'documented_signature': sig,
                                       'documented_arity': [dmin, dmax], 'mood': moodname, 'path': path,
                                       'answer': repr(res), 'state_changed': changed})
    return n


def explore_args(chk, pool, facts, cases, meta, counters):
    from c12_world import MOODS, N_WORLDS
    from supervisor.xmlrpc import Faults
    table = set(v for k, v in vars(Faults).items() if not k.startswith('_'))
    pnames = live_param_names(facts)
    guard = dict(('%s.%s' % (ns, n), g[0]) for ns, n, _t, _a, _b, g in facts['infos'])
    arity = dict(('%s.%s' % (ns, n), (a, b)) for ns, n, _t, a, b, _g in facts['infos'])
    rng = chk.rng
    per = 5 if chk.tier == 'quick' else 60
    n_eval = 0
    for method in facts['listed']:
        sig = facts['signatures'][method]
        if sig is None:
            chk.violation({'kind': 'method without @return/@param documentation', 'method_name': method})
            continue
        ptypes = sig[1:]
        names = pnames[method]
        amin, amax = arity[method]
        for moodname, mood in MOODS:
            for variant in range(N_WORLDS):
                tuples = [p for m, p in CORPUS if m == method]
                # state sweep: the method aimed at every process (= every process state) of this layout
                if 'name' in names and method.startswith('supervisor.'):
                    for target in layout_targets(variant):
                        tuples.extend(sweep_tuples(names, ptypes, target))
                for _ in range(per):
                    n = rng.randrange(amin, (amax if amax is not None else amin + 2) + 1)
                    tuples.append(tuple(gen_value(rng, names[i], ptypes[i], method) for i in range(n)))
                # wrong arities
                full = tuple(gen_value(rng, names[i], ptypes[i], method) for i in range(len(ptypes)))
                if amin > 0:
                    tuples.append(full[:amin - 1])
                if amax is not None:
                    tuples.append(full + ('extra',))
                    if rng.random() < 0.3:
                        tuples.append(full + ('extra', 1, True))
                for params in tuples:
                    n_eval += 1
                    res, polls, changed, reached = observe(pool, variant, mood, method, params, 'direct')
                    res2 = None
                    if all(xml_safe(p) for p in params if isinstance(p, str)):
                        res2, polls2, ch2, re2 = observe(pool, variant, mood, method, params, 'xml')
                    rec = {'method_name': method, 'params': repr(params), 'mood': moodname, 'variant': variant,
                           'direct': repr(res), 'xml': repr(res2), 'state_changed': changed}
                    chk.dist('args:%s:%s' % (moodname, 'wrong-arity' if not (amin <= len(params) and (amax is None or len(params) <= amax)) else 'arity-ok'))
                    if params and isinstance(params[0], str) and 'name' in names[:1]:
                        st = layout_states(variant).get(params[0])
                        if st is not None:
                            counters.setdefault('_cells', set()).add((method, mood, st))
                    # known finding: undecodable log window
                    if known_utf8(method, res, res2):
                        counters['utf8'] = counters.get('utf8', 0) + 1
                        continue
                    if res2 is not None and res2[0] not in ('value', 'fault'):
                        chk.violation(dict(rec, kind=BAD_KIND))
                        continue
                    if res2 is not None:
                        r1 = ('http', 500) if res[0] == 'exception' else (res[0], norm(res[1]))
                        if (r1, polls, changed) != ((res2[0], norm(res2[1])), polls2, ch2):
                            chk.violation(dict(rec, kind='XML path and handler dispatch disagree'))
                            continue
                    # answers are results of the documented shape or documented faults
                    if res[0] == 'value':
                        counters['values'] = counters.get('values', 0) + 1
                        if not shape_ok(method, sig, params, res[1]):
                            chk.violation(dict(rec, kind='value is not of the documented shape', documented=sig[0]))
                    elif res[0] == 'fault':
                        counters['fault:%s' % res[1]] = counters.get('fault:%s' % res[1], 0) + 1
                        if res[1] not in table:
                            chk.violation(dict(rec, kind='fault code is not a documented constant'))
                        dmin, dmax = documented_arity(method, sig)
                        if res[1] == Faults.INCORRECT_PARAMETERS and dmin <= len(params) <= dmax:
                            # arguments of the documented types and count: a TypeError inside the body was
                            # reported as if the client had called wrongly
                            chk.violation(dict(rec, kind='a well-typed call of the documented arity was answered INCORRECT_PARAMETERS'))
                    else:
                        chk.violation(dict(rec, kind=BAD_KIND))
                        continue
                    if polls:
                        counters['deferred'] = counters.get('deferred', 0) + 1
                    if res2 is not None and any(ord(ch) > 127 for ch in repr(res[1]) + (repr(params) if res[0] == 'fault' else '')):
                        k = 'non-ascii-answer:%s:%s' % ('deferred' if polls else 'immediate', res[0])
                        counters[k] = counters.get(k, 0) + 1
                    # mood guard, independent of the model
                    if mood < 1 and guard[method] != 'GNone' and \
                            (res[0] != 'fault' or res[1] not in (Faults.SHUTDOWN_STATE, Faults.INCORRECT_PARAMETERS) or changed):
                        chk.violation(dict(rec, kind='guarded method ran or changed state while the daemon is not RUNNING'))
                    cases.append(name_case(False, method, len(params), mood, res, changed, reached))
                    meta.append(rec)
    return n_eval


# -------------------------------------------------------------- multicall

def gen_calls(rng, listed):
    pool = [
        ('supervisor.getState', []), ('supervisor.getPID', []), ('supervisor.getAPIVersion', []),
        ('supervisor.getProcessInfo', ['g1:p1']), ('supervisor.getProcessInfo', ['nope']),
        ('supervisor.getAllProcessInfo', []), ('supervisor.readLog', [0, 10]), ('supervisor.readLog', [-1, 5]),
        ('supervisor.startProcess', ['g1:p2']), ('supervisor.startProcess', ['g1:p2', False]),
        ('supervisor.startProcess', ['g1:p1']), ('supervisor.startProcess', ['solo']),
        ('supervisor.stopProcess', ['g1:p1']), ('supervisor.stopProcess', ['g1:p1', False]),
        ('supervisor.stopProcess', ['g1:p2']), ('supervisor.stopProcess', ['solo:solo']),
        ('supervisor.startProcessGroup', ['g1']), ('supervisor.stopProcessGroup', ['g1']),
        ('supervisor.startAllProcesses', []), ('supervisor.stopAllProcesses', []),
        ('supervisor.startAllProcesses', [False]), ('supervisor.stopAllProcesses', [False]),
        ('supervisor.signalProcess', ['g1:p1', 'HUP']), ('supervisor.signalProcess', ['g1:p1', 'bogus']),
        ('supervisor.signalAllProcesses', ['USR1']), ('supervisor.signalProcessGroup', ['g2', '9']),
        ('supervisor.sendProcessStdin', ['g1:p1', 'hi']), ('supervisor.sendRemoteCommEvent', ['t', 'd']),
        ('supervisor.clearProcessLogs', ['g2:q1']), ('supervisor.clearAllProcessLogs', []),
        ('supervisor.addProcessGroup', ['newgrp']), ('supervisor.removeProcessGroup', ['g2']),
        ('supervisor.reloadConfig', []), ('supervisor.shutdown', []), ('supervisor.restart', []),
        ('supervisor.tailProcessStdoutLog', ['g1:p1', 0, 5]),
        ('system.listMethods', []), ('system.methodHelp', ['supervisor.getState']),
        ('system.methodSignature', ['nope']),
        # non-ASCII names in values and fault strings, immediate and deferred
        ('supervisor.startProcess', [GRU + ':' + PRO]), ('supervisor.startProcess', [GRU + ':' + DIE]),
        ('supervisor.stopProcess', [GRU + ':' + PRO]), ('supervisor.startProcessGroup', [GRU]),
        ('supervisor.stopProcessGroup', [GRU]), ('supervisor.getProcessInfo', [GRU + ':' + PRO]),
        ('supervisor.getProcessInfo', [u'n\u00f6pe']), ('supervisor.readLog', [0, 0]),
        ('supervisor.getAllConfigInfo', []), ('supervisor.signalProcess', [GRU + ':' + PRO, u'B\u00d6GUS']),
        # logs that exist but cannot be opened
        ('supervisor.tailProcessStderrLog', ['g1:p2', 0, 100]), ('supervisor.tailProcessStdoutLog', ['g2:q1', 0, 10]),
        ('supervisor.tailProcessLog', ['g2:q1', 5, 5]), ('supervisor.readProcessStderrLog', ['g1:p2', 0, 0]),
        ('supervisor.readProcessStdoutLog', ['g2:q1', 0, 10]), ('supervisor.readLog', [0, 20]),
        # refused / faulting
        ('supervisor._update', ['x']), ('nope.nope', []), ('supervisor', []), ('supervisor.getState.__call__', []),
        ('supervisor.getState', ['extra']), ('supervisor.startProcess', []), ('', []), ('__class__.__init__', []),
        ('system.multicall', [[]]), ('system.multicall', [[{'methodName': 'supervisor.shutdown'}]]),
        (None, []),
    ]
    n = rng.choice([0, 1, 1, 2, 2, 3, 3, 4, 5, 6, 8])
    return [rng.choice(pool) for _ in range(n)]


def explore_multicall(chk, logdir, ref, cases, meta, counters):
    from c12_world import make_world, MOODS, N_WORLDS
    from supervisor.xmlrpc import Faults
    rng = chk.rng
    runs = 400 if chk.tier == 'quick' else 20000
    n_eval = 0
    for k in range(runs):
        variant = rng.randrange(N_WORLDS)
        mood = rng.choice([1, 1, 1, 1, 0, -1])
        calls = gen_calls(rng, None)
        # --- one after another, each as soon as the previous has completed
        w1 = make_world(logdir, variant, mood)
        ref[0] = w1
        seq = []
        script = []
        tags = {}

        def tag(x):
            key = repr(x)
            if key not in tags:
                tags[key] = len(tags) + 1
            return tags[key]
        for name, params in calls:
            if name is None:
                exp = ('fault', Faults.INCORRECT_PARAMETERS)
                pk = 0
            elif name == 'system.multicall':
                exp = ('fault', Faults.INCORRECT_PARAMETERS)      # refused inside a multicall, not executed
                pk = 0
            elif name == '':
                # an empty <methodName> is rejected by the HTTP layer (400); inside a multicall it is just an unknown name
                exp = ('fault', Faults.UNKNOWN_METHOD)
                pk = 0
            else:
                exp, pk = w1.call_xml(name, params)
                if exp[0] not in ('value', 'fault'):
                    chk.violation({'kind': BAD_KIND,
                                   'method_name': name, 'params': repr(params), 'mood': mood, 'variant': variant,
                                   'answer': repr(exp), 'earlier_calls_in_this_world': [[n, p] for n, p in calls[:len(seq)]]})
                    exp = ('fault', Faults.FAILED)      # what a multicall element makes of a crash
                    counters['mc_crash'] = counters.get('mc_crash', 0) + 1
            seq.append(exp)
            script.append((pk, exp))
        snap1 = w1.snapshot()
        # --- the same calls in one system.multicall
        w2 = make_world(logdir, variant, mood)
        ref[0] = w2
        structs = []
        for name, params in calls:
            d = {'params': params}
            if name is not None:
                d['methodName'] = name
            structs.append(d)
        res, polls = w2.call_xml('system.multicall', (structs,))
        snap2 = w2.snapshot()
        n_eval += 1
        rec = {'calls': [[n, p] for n, p in calls], 'mood': mood, 'variant': variant,
               'sequential': [repr(x) for x in seq], 'multicall': repr(res), 'polls': polls}
        chk.dist('multicall:len=%d' % len(calls))
        if any(pk for pk, _ in script):
            chk.dist('multicall:with-deferred')
        if bad_answer(res):
            chk.violation(dict(rec, kind=BAD_KIND, method_name='system.multicall', params=repr(structs)))
            continue
        if res[0] != 'value' or not isinstance(res[1], list) or len(res[1]) != len(calls):
            chk.violation(dict(rec, kind='system.multicall did not answer one element per call'))
            continue
        got = []
        bad = False
        for exp, el in zip(seq, res[1]):
            if isinstance(el, dict) and set(el) == {'faultCode', 'faultString'}:
                g = ('fault', el['faultCode'])
            else:
                g = ('value', el)
            got.append(g)
            if (exp[0], norm(exp[1])) != (g[0], norm(g[1])):
                bad = True
        if bad or snap1 != snap2:
            chk.violation(dict(rec, kind='system.multicall differs from the same calls issued one after another',
                               elements=[repr(g) for g in got], state_equal=(snap1 == snap2)))
            continue
        sc = coq_list(['(SDef %d %s)' % (pk, zlit(tag((e[0], norm(e[1]))))) if pk else '(SImm %s)' % zlit(tag((e[0], norm(e[1]))))
                       for pk, e in script])
        cases.append('(%s, %s, %s)' % (sc, vlib.zlist([tag((g[0], norm(g[1]))) for g in got]), zlit(polls + 1)))
        meta.append(rec)
    return n_eval



# ------------------------------------------------- extension namespace + HTTP framing

def explore_ext(chk, wd, logdir, ref, counters):
    """A third-party namespace registered through the real make_http_servers /
    rpcinterface_factories path: closure and introspection of every listed
    method, single and inside multicall."""
    from c12_world import make_world
    from c12_http import HttpBed, EXT_PUBLIC
    from supervisor.xmlrpc import Faults
    table = set(v for k, v in vars(Faults).items() if not k.startswith('_'))
    n = 0
    for mood in (1, 0, -1):
        w = make_world(logdir, 0, mood)
        ref[0] = w
        bed = HttpBed(w, wd)
        try:
            root = bed.handler.rpcinterface
            ext = root.ext
            listed, _ = w.call_xml('system.listMethods', ())
            base = None
            if bad_answer(listed) or listed[0] != 'value':
                chk.violation({'kind': BAD_KIND, 'method_name': 'system.listMethods', 'params': '()', 'namespaces': 'supervisor+ext+system',
                               'xml': repr(listed)})
                continue
            names = listed[1]
            ext_listed = sorted(x for x in names if x.startswith('ext.'))
            if ext_listed != EXT_PUBLIC or names != sorted(names):
                chk.violation({'kind': 'system.listMethods of an extension namespace is not its public methods',
                               'listed': ext_listed, 'expected': EXT_PUBLIC})
            # closure on the extension namespace: every attribute name of the object and its class
            attrs = sorted(set(dir(ext)) | set(vars(ext)) | set(vars(type(ext))))
            for a in attrs + ['nope', '', 'documented.__call__', 'ping.__self__']:
                name = 'ext.%s' % a
                params = ()
                before = w.snapshot()
                res, _ = w.call_direct(name, params)
                n += 1
                chk.dist('ext:name')
                if name in EXT_PUBLIC:
                    ok = res[0] in ('value', 'fault') and (res[0] == 'value' or res[1] in table)
                else:
                    ok = res == ('fault', Faults.UNKNOWN_METHOD) and w.snapshot() == before
                if not ok:
                    chk.violation({'kind': 'a name outside the public API was not refused cleanly' if name not in EXT_PUBLIC else BAD_KIND,
                                   'root': 'RootRPCInterface with extension namespace', 'method_name': name, 'params': [],
                                   'mood': mood, 'answer': repr(res)})
                if xml_safe(name) and a:
                    r2 = bed.post(name, params)['answer']
                    r1 = ('http', 500) if res[0] == 'exception' else (res[0], norm(res[1]))
                    if (r2[0], norm(r2[1])) != r1 and not (r1[0] == 'value' and callable(res[1])):
                        chk.violation({'kind': BAD_KIND if bad_answer(r2) else 'HTTP channel and handler dispatch disagree',
                                       'method_name': name, 'params': [], 'mood': mood, 'direct': repr(res), 'http': repr(r2)})
            # introspection of EVERY listed method, single ...
            helps, sigs = {}, {}
            for m in names + ['nope.nope', 'ext._secret', 'ext.version', u'ext.pi\u00f1g', '']:
                for which, store, shape in (('system.methodHelp', helps, str), ('system.methodSignature', sigs, list)):
                    r, _ = w.call_xml(which, (m,))
                    n += 1
                    chk.dist('ext:introspect')
                    store[m] = r
                    good = (r[0] == 'value' and isinstance(r[1], shape)) or \
                           (r[0] == 'fault' and r[1] == Faults.SIGNATURE_UNSUPPORTED)
                    if m not in names and r != ('fault', Faults.SIGNATURE_UNSUPPORTED):
                        good = False
                    if which == 'system.methodHelp' and m in names and r[0] != 'value':
                        good = False
                    if not good:
                        chk.violation({'kind': BAD_KIND if bad_answer(r) else 'introspection answer is not of the documented shape',
                                       'method_name': which, 'params': repr((m,)), 'mood': mood, 'xml': repr(r),
                                       'namespaces': 'supervisor+ext+system'})
            # ... and inside one multicall (also through the real channel)
            structs = []
            expect = []
            for m in names:
                structs.append({'methodName': 'system.methodHelp', 'params': [m]})
                expect.append(helps[m])
                structs.append({'methodName': 'system.methodSignature', 'params': [m]})
                expect.append(sigs[m])
            structs.append({'methodName': 'ext.documented', 'params': [u'w\u00f6rld']})
            expect.append(('value', u'h\u00e9llo w\u00f6rld'))
            structs.append({'methodName': 'ext.later', 'params': [3]})
            expect.append(('value', u'done \u00e9'))
            structs.append({'methodName': 'ext.later', 'params': [-2]})
            expect.append(('fault', Faults.FAILED))
            structs.append({'methodName': 'ext._secret', 'params': []})
            expect.append(('fault', Faults.UNKNOWN_METHOD))
            structs.append({'methodName': 'ext.ping', 'params': []})
            expect.append(('value', 'pong'))
            for path in ('handler', 'channel-close', 'channel-keepalive'):
                if path == 'handler':
                    r, _ = w.call_xml('system.multicall', (structs,))
                else:
                    r = bed.post('system.multicall', (structs,), connection='close' if path == 'channel-close' else None,
                                 k=997)['answer']
                n += 1
                chk.dist('ext:multicall')
                got = None
                if r[0] == 'value' and isinstance(r[1], list) and len(r[1]) == len(expect):
                    got = [('fault', e['faultCode']) if isinstance(e, dict) and set(e) == {'faultCode', 'faultString'}
                           else ('value', e) for e in r[1]]
                if got is None or [(g[0], norm(g[1])) for g in got] != [(e[0], norm(e[1])) for e in expect]:
                    firstbad = None
                    if got is not None:
                        for i, (g, e) in enumerate(zip(got, expect)):
                            if (g[0], norm(g[1])) != (e[0], norm(e[1])):
                                firstbad = {'call': structs[i], 'multicall': repr(g), 'single': repr(e)}
                                break
                    chk.violation({'kind': BAD_KIND if bad_answer(r) else 'system.multicall differs from the same calls issued one after another',
                                   'method_name': 'system.multicall', 'path': path, 'mood': mood, 'first_difference': firstbad,
                                   'params': repr(structs)[:3000], 'answer': repr(r)[:600]})
        finally:
            bed.close()
    return n


def explore_raw_xml(chk, logdir, ref):
    """Request encodings other than what Python's xmlrpclib emits, through the
    handler's own unmarshaller (loads): no <params> element, <i4> integers,
    untyped <value>text</value> strings, boolean 0/1, whitespace between tags."""
    from c12_world import make_world

    def req(method, params_xml):
        return "<?xml version='1.0'?>\n<methodCall>\n<methodName>%s</methodName>\n%s</methodCall>\n" % (method, params_xml)

    def P(*vals):
        return '<params>\n%s</params>\n' % ''.join('<param>\n<value>%s</value>\n</param>\n' % v for v in vals)
    cases = [
        ('supervisor.getState', (), ''),                                  # no <params> at all
        ('supervisor.getState', (), '<params></params>'),
        ('supervisor.getState', (), '<params/>'),
        ('supervisor.readLog', (0, 10), P('<i4>0</i4>', '<int>10</int>')),
        ('supervisor.readLog', (-1, 0), P('<i4>-1</i4>', '<i4>0</i4>')),
        ('supervisor.getProcessInfo', ('g1:p1',), P('g1:p1')),            # untyped value = string
        ('supervisor.getProcessInfo', ('',), P('<string></string>')),
        ('supervisor.getProcessInfo', ('',), P('<string/>')),
        ('supervisor.startProcess', ('g1:p2', False), P('<string>g1:p2</string>', '<boolean>0</boolean>')),
        ('supervisor.startProcess', ('g1:p2', True), P('g1:p2', '<boolean>1</boolean>')),
        ('supervisor.signalProcess', ('g1:p1', 'HUP'), P('<string>g1:p1</string>', 'HUP')),
        ('supervisor.sendProcessStdin', ('g1:p1', u'a<b&c\u00e9'), P('<string>g1:p1</string>', u'<string>a&lt;b&amp;c\u00e9</string>')),
        ('system.methodHelp', ('supervisor.getState',), P('<string>supervisor.getState</string>')),
        ('system.multicall', ([{'methodName': 'supervisor.getPID', 'params': []}, {'methodName': 'nope', 'params': []}],),
         P('<array><data><value><struct><member><name>methodName</name><value>supervisor.getPID</value></member>'
           '<member><name>params</name><value><array><data></data></array></value></member></struct></value>'
           '<value><struct><member><name>methodName</name><value><string>nope</string></value></member>'
           '<member><name>params</name><value><array><data/></array></value></member></struct></value></data></array>')),
        ('system.multicall', ([{'methodName': 'supervisor.getPID'}],),    # struct without 'params'
         P('<array><data><value><struct><member><name>methodName</name><value>supervisor.getPID</value></member>'
           '</struct></value></data></array>')),
    ]
    n = 0
    for mood in (1, -1):
        for method, params, px in cases:
            w1 = make_world(logdir, 0, mood)
            ref[0] = w1
            exp, _ = w1.call_xml(method, params)
            w2 = make_world(logdir, 0, mood)
            ref[0] = w2
            got, _ = w2.finish(w2.stack.call(method, raw_xml=req(method, px)))
            n += 1
            chk.dist('raw-xml')
            if bad_answer(got) or (got[0], norm(got[1])) != (exp[0], norm(exp[1])) or w1.snapshot() != w2.snapshot():
                chk.violation({'kind': BAD_KIND if bad_answer(got) else 'equivalent XML-RPC encodings of one call are answered differently',
                               'method_name': method, 'params': repr(params), 'mood': mood, 'request_xml': req(method, px),
                               'xml': repr(got), 'xmlrpclib_encoding_answer': repr(exp)})
    return n


HTTP_CALLS = [
    # (method, params, setup)                                      approximate size of the answer
    ('supervisor.getState', (), None),                                       # ~200 B
    ('supervisor.getProcessInfo', ('nope',), None),                          # fault, ~250 B
    ('supervisor.getProcessInfo', (u'n\u00f6pe',), None),                    # fault with non-ASCII text
    ('supervisor.getAllProcessInfo', (), None),                              # ~3.5 KB
    ('supervisor.readLog', (0, 0), 'mid'),                                   # ~5 KB
    ('supervisor.readLog', (0, 0), 'big'),                                   # ~60 KB
    ('supervisor.readLog', (-4096, 0), 'big'),
    ('supervisor.getAllProcessInfo', (), 'many'),                            # ~60 KB
    ('supervisor.getAllConfigInfo', (), 'many'),
    ('system.listMethods', (), None),
    ('system.methodHelp', ('supervisor.tailProcessStdoutLog',), None),
    # deferred answers
    ('supervisor.startProcess', ('g1:p2',), None),
    ('supervisor.stopProcess', ('g1:p1',), None),
    ('supervisor.startAllProcesses', (), 'many'),                            # deferred AND large
    ('supervisor.stopAllProcesses', (), None),
    ('supervisor.startProcessGroup', (u'gr\u00fc',), None),
    ('supervisor.clearAllProcessLogs', (), 'many'),
    ('system.multicall', ([{'methodName': 'supervisor.readLog', 'params': [0, 0]},
                           {'methodName': 'supervisor.startProcess', 'params': ['g1:p2']},
                           {'methodName': 'supervisor.getAllProcessInfo', 'params': []},
                           {'methodName': 'nope', 'params': []}],), 'big'),
    ('ext.later', (3,), None), ('ext.later', (-1,), None), ('ext.documented', (u'\u00fc' * 3000,), None),
]
FRAMINGS = [('1.1', None), ('1.1', 'close'), ('1.1', 'keep-alive'), ('1.0', None), ('1.0', 'keep-alive')]


def _setup(w, setup):
    if setup == 'mid':
        w.use_big_log('mid.log')
    elif setup == 'big':
        w.use_big_log('big.log')
    elif setup == 'many':
        w.add_processes(110)


def explore_http(chk, wd, logdir, ref, counters):
    """The answer as an HTTP client receives it from the real
    deferring_http_channel: status 200, Content-Length = bytes received, body =
    the value/fault of the handler's dispatch; the connection stays open
    (keep-alive) or is closed only after the last byte."""
    from c12_world import make_world
    from c12_http import HttpBed
    rng = chk.rng
    n = 0
    ks = [1 << 30, 4096, 1500, 700] if chk.tier == 'quick' else [1 << 30, 65536, 4096, 4095, 1500, 700, 512, 211]
    variants = [0, 5, 7] if chk.tier == 'quick' else [0, 1, 3, 5, 6, 7, 9]
    jobs = []
    for method, params, setup in HTTP_CALLS:
        for variant in variants:
            if method.startswith('supervisor.startProcessGroup') and variant not in (5, 6):
                continue
            if variant == variants[0]:
                for fr in FRAMINGS:
                    for k in ks:
                        jobs.append((1, variant, method, params, setup, fr, k))
                for mood in (0, -1, 2):          # the same request while the daemon restarts / shuts down / is FATAL
                    jobs.append((mood, variant, method, params, setup, rng.choice(FRAMINGS), rng.choice(ks)))
                    jobs.append((mood, variant, method, params, setup, ('1.1', 'close'), rng.choice(ks)))
            else:
                jobs.append((1, variant, method, params, setup, rng.choice(FRAMINGS), rng.choice(ks)))
                jobs.append((1, variant, method, params, setup, ('1.1', 'close'), rng.choice(ks)))
    refs = {}
    for mood, variant, method, params, setup, (version, conn), k in jobs:
        key = (mood, variant, method, repr(params), setup)
        if key not in refs:
            # reference: the handler's dispatch on an identical world
            w0 = make_world(logdir, variant, mood)
            ref[0] = w0
            _setup(w0, setup)
            bed0 = HttpBed(w0, wd)
            try:
                direct, _ = w0.call_direct(method, params, max_polls=1000)
            finally:
                bed0.close()
            refs[key] = ('http', 500) if direct[0] == 'exception' else direct
        direct = refs[key]
        w = make_world(logdir, variant, mood)
        ref[0] = w
        _setup(w, setup)
        bed = HttpBed(w, wd)
        try:
            out = bed.post(method, params, version=version, connection=conn, k=k)
            keep = (version == '1.1' and conn != 'close') or (version == '1.0' and conn == 'keep-alive')
            second = None
            if keep and not out['closed'] and out['error'] is None:
                second = bed.post('supervisor.getAPIVersion', (), version=version, connection=conn, k=k, reuse=True)
        finally:
            bed.close()
        n += 1
        size = out.get('received') or 0
        chk.dist('http:%s:%s:%s' % ('HTTP/' + version, conn or 'default',
                                    '<1K' if size < 1024 else ('<8K' if size < 8192 else '>=8K')))
        rec = {'method_name': method, 'params': repr(params)[:300], 'setup': setup, 'variant': variant, 'mood': mood,
               'http_version': version, 'connection_header': conn, 'bytes_accepted_per_send': k,
               'client_received': repr(out['answer'])[:300], 'status': out['status'], 'content_length': out['declared'],
               'body_bytes_received': out['received'], 'connection_closed': out['closed'],
               'handler_dispatch': repr(direct)[:300]}
        a = out['answer']
        if bad_answer(a) and not (a == ('http', 500) and direct == ('http', 500)):
            chk.violation(dict(rec, kind=BAD_KIND))
        elif (a[0], norm(a[1])) != (direct[0], norm(direct[1])):
            chk.violation(dict(rec, kind='HTTP channel and handler dispatch disagree'))
        elif keep and (out['closed'] or second is None or bad_answer(second['answer'])):
            chk.violation(dict(rec, kind='keep-alive connection was closed or unusable after the answer',
                               second_request=repr(second and second['answer'])))
        elif not keep and not out['closed']:
            chk.violation(dict(rec, kind='connection was not closed after a close/HTTP-1.0 request'))
    n += explore_raw_xml(chk, logdir, ref)
    return n


# ------------------------------------------------------ reloadConfig on a real daemon

def explore_reload(chk, wd, ref, counters):
    """supervisor.reloadConfig (and the update steps a client makes after it)
    over a real config file, real ServerOptions / Supervisor / group configs:
    every (old kind, new kind) of the section named 'web', unparsable files."""
    from c12_reload import Daemon, KINDS, UNPARSABLE, HEAD, render
    from c12_world import subscribe_events
    from supervisor.xmlrpc import Faults
    table = set(v for k, v in vars(Faults).items() if not k.startswith('_'))
    n = 0
    kinds = sorted(KINDS)

    def names_of(res):
        return res[1][0] if res[0] == 'value' else None

    def shape_reload(res):
        v = norm(res[1]) if res[0] == 'value' else None
        return (isinstance(v, list) and len(v) == 1 and isinstance(v[0], list) and len(v[0]) == 3 and
                all(isinstance(x, list) and all(isinstance(y, str) for y in x) for x in v[0]))

    follow = [('supervisor.getAllConfigInfo', ()), ('supervisor.removeProcessGroup', ('web',)),
              ('supervisor.addProcessGroup', ('web',)), ('supervisor.addProcessGroup', ('grp',)),
              ('supervisor.getAllProcessInfo', ()), ('supervisor.reloadConfig', ()), ('supervisor.getProcessInfo', ('web',))]
    try:
        for old in kinds:
            for new in kinds:
                d1 = Daemon(wd, render(old, wd))
                d1.write(render(new, wd))
                seq = []
                r = d1.call('supervisor.reloadConfig')
                seq.append(r)
                n += 1
                chk.dist('reload:pair')
                rec = {'method_name': 'supervisor.reloadConfig', 'params': '()', 'active_section_before': KINDS[old][0],
                       'section_in_file_now': KINDS[new][0], 'old_kind': old, 'new_kind': new, 'xml': repr(r)}
                if bad_answer(r):
                    chk.violation(dict(rec, kind=BAD_KIND))
                elif r[0] == 'fault':
                    chk.violation(dict(rec, kind='reloadConfig of a valid configuration file answered a fault'))
                elif not shape_reload(r):
                    chk.violation(dict(rec, kind='value is not of the documented shape', documented='[[added, changed, removed]]'))
                else:
                    added, changed, removed = norm(r[1])[0]
                    A, B = set(KINDS[old][1]) | {'other'}, set(KINDS[new][1]) | {'other'}
                    exp_changed = None
                    if 'web' in A and 'web' in B:
                        if old == new:
                            exp_changed = []
                        elif KINDS[old][2] != KINDS[new][2] or old.split('-')[0] == new.split('-')[0]:
                            exp_changed = ['web']      # another kind of group, or the same kind edited
                    if sorted(added) != sorted(B - A) or sorted(removed) != sorted(A - B) or \
                            (exp_changed is not None and changed != exp_changed) or not set(changed) <= (A & B):
                        chk.violation(dict(rec, kind='reloadConfig does not report the difference between the active groups and the file',
                                           expected={'added': sorted(B - A), 'removed': sorted(A - B), 'changed': exp_changed}))
                # what a client does next (supervisorctl update), each answer a value or a documented fault
                for m, ps in follow:
                    r = d1.call(m, ps)
                    seq.append(r)
                    n += 1
                    if bad_answer(r) or (r[0] == 'fault' and r[1] not in table):
                        chk.violation({'kind': BAD_KIND, 'method_name': m, 'params': repr(ps), 'old_kind': old, 'new_kind': new,
                                       'after': 'supervisor.reloadConfig + ' + ', '.join(x for x, _ in follow[:len(seq) - 2]),
                                       'xml': repr(r)})
                d1.close()
                # the same conversation as one multicall on an identical daemon
                d2 = Daemon(wd, render(old, wd))
                d2.write(render(new, wd))
                structs = [{'methodName': 'supervisor.reloadConfig', 'params': []}] + \
                          [{'methodName': m, 'params': list(ps)} for m, ps in follow]
                r = d2.call('system.multicall', (structs,))
                d2.close()
                n += 1
                chk.dist('reload:multicall')
                got = None
                if r[0] == 'value' and isinstance(r[1], list) and len(r[1]) == len(seq):
                    got = [('fault', e['faultCode']) if isinstance(e, dict) and set(e) == {'faultCode', 'faultString'}
                           else ('value', e) for e in r[1]]
                want = [('fault', 30) if bad_answer(x) else x for x in seq]

                def scrub(v):        # per-daemon values: the clock and the generated child log names
                    if isinstance(v, dict):
                        return dict((k, scrub(x)) for k, x in v.items()
                                    if k not in ('now', 'description', 'logfile', 'stdout_logfile', 'stderr_logfile'))
                    if isinstance(v, (list, tuple)):
                        return [scrub(x) for x in v]
                    return v
                if got is None or [(g[0], scrub(g[1])) for g in got] != [(w[0], scrub(w[1])) for w in want]:
                    chk.violation({'kind': BAD_KIND if bad_answer(r) else 'system.multicall differs from the same calls issued one after another',
                                   'method_name': 'system.multicall', 'params': repr(structs), 'old_kind': old, 'new_kind': new,
                                   'multicall': repr(r)[:1500], 'sequential': [repr(x)[:200] for x in seq]})
        # files the daemon cannot parse: CANT_REREAD, nothing else
        for old in ('program', 'fcgi', 'absent'):
            for label in sorted(UNPARSABLE) + ['file-removed', 'empty-file', 'no-supervisord-section']:
                d1 = Daemon(wd, render(old, wd))
                if label == 'file-removed':
                    d1.remove_file()
                elif label == 'empty-file':
                    d1.write('')
                elif label == 'no-supervisord-section':
                    d1.write('[program:web]\ncommand=/bin/cat\n')
                else:
                    d1.write((HEAD % {'dir': wd}) + UNPARSABLE[label])
                before = d1.active()
                r = d1.call('supervisor.reloadConfig')
                r2 = d1.call('system.multicall', ([{'methodName': 'supervisor.reloadConfig', 'params': []},
                                                    {'methodName': 'supervisor.getAllConfigInfo', 'params': []}],))
                r3 = d1.call('supervisor.getAllProcessInfo')
                after = d1.active()
                d1.close()
                n += 3
                chk.dist('reload:unparsable')
                el = None
                if r2[0] == 'value' and isinstance(r2[1], list) and len(r2[1]) == 2 and isinstance(r2[1][0], dict):
                    el = r2[1][0].get('faultCode')
                if r != ('fault', Faults.CANT_REREAD) or el != Faults.CANT_REREAD or r3[0] != 'value' or before != after:
                    chk.violation({'kind': BAD_KIND if (bad_answer(r) or bad_answer(r2) or bad_answer(r3))
                                   else 'a configuration file that cannot be read was not answered CANT_REREAD',
                                   'method_name': 'supervisor.reloadConfig', 'params': '()', 'file': label,
                                   'file_text': UNPARSABLE.get(label, label), 'active_before': old, 'xml': repr(r),
                                   'in_multicall': repr(r2)[:400], 'getAllProcessInfo_after': repr(r3)[:200],
                                   'active_groups_changed': before != after})
    finally:
        subscribe_events(ref)
    return n


def explore_loads(chk, ref):
    """supervisor_xmlrpc_handler.loads (the handler's own unmarshaller) against
    xmlrpclib.loads on every scalar type and nestings of them."""
    import datetime
    from supervisor.compat import xmlrpclib, as_string
    from supervisor.xmlrpc import supervisor_xmlrpc_handler
    h = supervisor_xmlrpc_handler(None, [])
    rng = chk.rng

    def canon(v):
        if isinstance(v, xmlrpclib.Binary):
            return ('str', as_string(v.data))
        if isinstance(v, xmlrpclib.DateTime):
            return ('dt', tuple(v.timetuple())[:6])
        if isinstance(v, datetime.datetime):
            return ('dt', tuple(v.timetuple())[:6])
        if isinstance(v, bool):
            return ('bool', v)
        if isinstance(v, int):
            return ('int', v)
        if isinstance(v, float):
            return ('float', repr(v))
        if isinstance(v, str):
            return ('str', v)
        if v is None:
            return ('nil',)
        if isinstance(v, (list, tuple)):
            return ('array', [canon(x) for x in v])
        if isinstance(v, dict):
            return ('struct', sorted((k, canon(x)) for k, x in v.items()))
        return ('other', repr(v))
    scalars = [True, False, 0, 1, -1, 7, 2 ** 31 - 1, -2 ** 31, 1.5, -0.25, 1e10, 0.0, -1e-7, '', 'a', ' ', '  x ', 'a<b&c>"\'',
               u'h\u00e9llo \u65e5\u672c \U0001F600', '\n', 'l1\nl2', '\t', '0', '1', 'true', ']]>', '&amp;', None,
               xmlrpclib.Binary(b''), xmlrpclib.Binary(b'plain text'), xmlrpclib.Binary(u'caf\u00e9'.encode('utf-8')),
               xmlrpclib.DateTime('20260102T03:04:05'), xmlrpclib.DateTime('19991231T23:59:59')]

    def rand_value(depth):
        k = rng.random()
        if depth <= 0 or k < 0.5:
            return rng.choice(scalars)
        if k < 0.75:
            return [rand_value(depth - 1) for _ in range(rng.randrange(0, 4))]
        return dict((rng.choice(['a', 'b', '', u'k\u00e9y', 'methodName', 'params']), rand_value(depth - 1))
                    for _ in range(rng.randrange(0, 4)))
    docs = [((v,), 'ns.m') for v in scalars]
    docs += [((v, w), 'supervisor.x') for v in scalars[:12] for w in (True, False, 0, '')]
    docs += [(tuple(rand_value(3) for _ in range(rng.randrange(0, 4))), rng.choice(['a.b', 'system.multicall', u'n\u00e9.m']))
             for _ in range(300 if chk.tier == 'quick' else 5000)]
    raws = []
    for params, name in docs:
        raws.append(xmlrpclib.dumps(params, name, allow_none=True))
    # spellings xmlrpclib.dumps never emits
    def call(v):
        return "<?xml version='1.0'?><methodCall><methodName>a.b</methodName><params><param><value>%s</value></param></params></methodCall>" % v
    raws += [call(x) for x in ('<boolean>0</boolean>', '<boolean>1</boolean>', '<i4>0</i4>', '<i4>-12</i4>', '<int>+5</int>', '<int>007</int>',
                               '<double>-1</double>', '<double>2.50</double>', '<double>1e3</double>', 'untyped', '', ' ', '<string/>',
                               '<string> padded </string>', '<string>&lt;&amp;&gt;&#233;</string>', '<nil/>',
                               '<array><data/></array>', '<array><data><value><boolean>0</boolean></value><value>u</value></data></array>',
                               '<struct></struct>', '<struct><member><name>wait</name><value><boolean>0</boolean></value></member></struct>',
                               '<base64>aGk=</base64>', '<dateTime.iso8601>20260102T03:04:05</dateTime.iso8601>')]
    n = 0
    for xml in raws:
        n += 1
        chk.dist('loads')
        try:
            rp, rm = xmlrpclib.loads(xml)
        except Exception:
            continue                    # not something a conforming client sends
        try:
            gp, gm = h.loads(xml)
            got = (canon(list(gp if gp is not None else ())), gm)
        except Exception as e:
            got = ('exception', type(e).__name__)
        want = (canon(list(rp)), rm)
        if got != want:
            chk.violation({'kind': 'the handler unmarshals a request differently from the XML-RPC reference decoder',
                           'request_xml': xml[:1500], 'handler_loads': repr(got)[:600], 'xmlrpclib_loads': repr(want)[:600]})
    return n

# ------------------------------------------------------------------- main

def _run(chk, wd, proved):
    import c12_rpc
    from c12_world import subscribe_events, write_logs
    rejected = None
    try:
        facts = c12_rpc.facts()
    except Exception as e:
        rejected = repr(e)
        facts = None
    if rejected is not None:
        # The model no longer describes the code.  Still look for a concrete
        # failing input with the model-independent assertions.
        n_before = len(chk.violations)
        try:
            _explore_without_model(chk, wd)
        except Exception as e2:
            chk.note('model-free exploration failed: %r' % (e2,))
        chk.violation({'kind': 'translator rejected the current source', 'detail': rejected,
                       'explanation': 'gen/c12_rpc.py reads traverse(), _update(), multicall(), the Faults table, the '
                                      'namespace classes and docs/api.rst; a shape it does not recognise means the model '
                                      'may no longer describe the code'}, nofail=(len(chk.violations) == n_before))
        return
    logdir = os.path.join(wd, 'logs')
    os.makedirs(logdir)
    write_logs(logdir)
    ref = [None]
    subscribe_events(ref)
    pool = Pool(logdir, ref)
    counters = {}

    import time
    t0 = time.time()
    name_cases, name_meta = [], []
    n_names = explore_names(chk, pool, facts, name_cases, name_meta)
    n_split = len(name_cases)
    t1 = time.time()
    n_args = explore_args(chk, pool, facts, name_cases, name_meta, counters)
    t2 = time.time()
    multi_cases, multi_meta = [], []
    n_multi = explore_multicall(chk, logdir, ref, multi_cases, multi_meta, counters)
    n_ext = explore_ext(chk, wd, logdir, ref, counters) + explore_arity(chk, pool, facts, counters)
    n_http = explore_http(chk, wd, logdir, ref, counters)
    n_http += explore_reload(chk, wd, ref, counters) + explore_loads(chk, ref)
    t3 = time.time()
    chk.note('seconds: names %.1f, args %.1f, multicall+ext+http %.1f' % (t1 - t0, t2 - t1, t3 - t2))
    chk.note('extension-namespace calls %d, HTTP-channel requests %d' % (n_ext, n_http))

    # listMethods through the full XML path is the generated list the theorems speak about
    w = pool.get(0, 1, 1)
    lm, _ = w.call_xml('system.listMethods', ())
    if bad_answer(lm):
        chk.violation({'kind': BAD_KIND, 'method_name': 'system.listMethods', 'params': '()', 'xml': repr(lm)})
    elif lm != ('value', facts['listed']):
        chk.violation({'kind': 'system.listMethods differs from the generated list', 'answer': repr(lm)})

    # identical (name, arity, mood, answer, effect) cases are compared once
    seen, uc, um = set(), [], []
    for c, m in zip(name_cases, name_meta):
        if c not in seen:
            seen.add(c)
            uc.append(c)
            um.append(m)
    chk.note('dispatch cases: %d, distinct: %d' % (len(name_cases), len(uc)))
    name_cases, name_meta = uc, um
    total = 0
    for part, ctype, fn, cases, meta in [
        ('names', 'name_case', 'check_name', name_cases, name_meta),
        ('multi', 'multi_case', 'check_multi', multi_cases, multi_meta),
    ]:
        bad, errs = vlib.coq_compare(IMPORTS, ctype, fn, cases, wd, tag=part, shard=600)
        total += len(cases)
        for e in errs[:3]:
            chk.violation({'kind': 'model evaluation failed', 'part': part, 'error': e}, nofail=True)
        for i in bad[:8]:
            chk.violation({'kind': 'model and implementation disagree', 'part': part, 'case': meta[i],
                           'coq_case': cases[i][:1500],
                           'explanation': 'the Coq dispatch model (about which the C12 theorems are proved) predicts a '
                                          'different answer / effect than the real XML-RPC stack gave for this call'},
                          nofail=_model_only(meta[i]))
    chk.note('seconds: coq comparison %.1f' % (time.time() - t3))
    if counters.get('utf8'):
        chk.known_finding('C12-utf8', 'read*Log/tail*Log on a log window that is not valid UTF-8 answers HTTP 500 '
                                     '(UnicodeDecodeError; same defect as C16-utf8); %d such calls explored' % counters['utf8'])
    if not proved:
        chk.violation({'kind': 'proof obligation no longer checks', 'detail': chk.proof_failure,
                       'file': 'coq/props/C12.v'}, nofail=not chk.violations)
    cov = chk.coverage
    cov['evaluations'] = n_names + n_args + n_multi + n_ext + n_http
    cov['traces_validated_against_impl'] = total
    distinct = set()
    for m in name_meta:
        distinct.add((m.get('answer') or m.get('direct') or '')[:40] + str(m.get('state_changed')))
    cov['distinct_nontrivial'] = len(distinct) + len(set(len(m['calls']) * 100 + m['polls'] for m in multi_meta))
    cov['exhaustive'] = False
    cov['rule'] = ('names: every (attribute, attribute-of-attribute) pair of both root objects (%d name cases incl. moods), '
                   '1/3/4-part chains, empty parts, underscore/unicode/random names; args: %d calls = every listed method x 4 moods x %d '
                   'process-state layouts x typed argument tuples + wrong arities, each through handler dispatch and full XML path; '
                   'multicall: %d random compositions vs. the same calls issued sequentially; distinct = distinct (answer prefix, '
                   'state-changed) pairs plus distinct (length, polls) multicall shapes'
                   % (n_split, n_args, 13, n_multi))
    cov['samples'] = name_meta[5:7] + name_meta[-3:-1] + multi_meta[3:5]
    cells = counters.pop('_cells', set())
    with_name = [m for m in facts['listed'] if m.startswith('supervisor.') and 'name' in live_param_names(facts)[m][:1]
                 and m.split('.')[1] not in ('addProcessGroup', 'removeProcessGroup', 'startProcessGroup',
                                             'stopProcessGroup', 'signalProcessGroup')]
    want = set((m, mood, st) for m in with_name for mood in (2, 1, 0, -1) for st in (0, 10, 20, 30, 40, 100, 200, 1000))
    missing = sorted(want - cells)
    chk.note('method x mood x process-state cells exercised with well-typed arguments: %d of %d' % (len(want) - len(missing), len(want)))
    if missing:
        chk.violation({'kind': 'check-machinery: the state sweep no longer reaches every method x mood x process state',
                       'missing': [list(x) for x in missing[:20]]}, nofail=True)
    for k, v in sorted(counters.items()):
        chk.dist('outcome:' + k, v)
    chk.note('worlds built: %d' % pool.built)


def lite_facts():
    """What the exploration needs, from the live objects only (no AST)."""
    import inspect
    import c12_rpc
    root, mroot, namespaces, system = c12_rpc.build_live()
    t_root, t_mroot, universe = c12_rpc.attribute_tables(root, mroot)
    listed = system.listMethods()
    infos, sigs = [], {}
    for n in listed:
        ns, m = n.split('.')
        f = getattr(namespaces[ns], m)
        ps = list(inspect.signature(f).parameters.values())
        amin = len([p for p in ps if p.default is p.empty])
        infos.append((ns, m, '', amin, len(ps), ('GNone' if ns == 'system' or m == 'sendRemoteCommEvent' else 'GFirst', [], '')))
        try:
            sigs[n] = system.methodSignature(n)
        except Exception:
            sigs[n] = None
    return dict(t_root=t_root, t_mroot=t_mroot, universe=sorted(universe), listed=listed, infos=infos, signatures=sigs)


def _explore_without_model(chk, wd):
    from c12_world import subscribe_events, write_logs
    facts = lite_facts()
    logdir = os.path.join(wd, 'logs')
    os.makedirs(logdir)
    write_logs(logdir)
    ref = [None]
    subscribe_events(ref)
    pool = Pool(logdir, ref)
    counters = {}
    c, m = [], []
    explore_names(chk, pool, facts, c, m)
    explore_args(chk, pool, facts, c, m, counters)
    explore_multicall(chk, logdir, ref, [], [], counters)
    explore_ext(chk, wd, logdir, ref, counters)
    explore_arity(chk, pool, facts, counters)
    explore_http(chk, wd, logdir, ref, counters)
    explore_reload(chk, wd, ref, counters)
    explore_loads(chk, ref)
    chk.coverage['evaluations'] = len(c)
    chk.coverage['rule'] = 'translator rejected the source: model-independent assertions only'


def _model_only(m):
    """A model/implementation disagreement whose implementation side is itself a
    property failure is a failing input; otherwise only the tie broke."""
    a = m.get('answer') or m.get('direct') or ''
    return not ("'http'" in a or "'exception'" in a or 'never-completes' in a)


def replay(chk, path):
    with open(path) as f:
        obj = json.load(f)
    print(json.dumps(obj, indent=1)[:4000])
    run(chk)
