"""C20 - supervisorctl reports what the server said.

Theorems: coq/props/C20.v over coq/C20/{Gen_ctl,Ctl,CtlSpec,CtlProofs}.v.
Correspondence: the real Controller.onecmd (real ClientOptions object, stdout
captured) in-process against a scripted server proxy; Coq evaluates the model
SV.C20.Ctl on the same command line and script and compares printed messages,
exit status and the XML-RPC calls made.  A second Coq pass judges the
implementation's own output with the specification monitor of CtlSpec.v.
"""
import itertools
import json
import os

import vlib

LEVEL = 'proof'
IMPORTS = ['SV.C20.Gen_ctl', 'SV.C20.Ctl', 'SV.C20.CtlSpec']
PREAMBLE = 'Open Scope string_scope.\nOpen Scope Z_scope.\n'

UNKNOWN_CODES = [0, 5, 99, -1]          # not in xmlrpc.Faults
TARGET_ACTIONS = ['start', 'stop', 'signal', 'clear']


def faults():
    from supervisor.xmlrpc import Faults
    d = dict((k, v) for k, v in vars(Faults).items() if not k.startswith('_') and isinstance(v, int))
    return d


def up_ok():
    from supervisor import rpcinterface
    return ['str', rpcinterface.API_VERSION]


# ------------------------------------------------------------------ case building

class Cases(object):
    def __init__(self, chk):
        self.chk = chk
        self.cases = []      # dict(line, script, url, fam, [targets])
        self.seen = set()

    def add(self, line, script, fam, url=None, responder=None, targets=None, tail=None, spec=None):
        key = json.dumps([line, script, url], sort_keys=True) if responder is None else None
        if key is not None:
            if key in self.seen:
                return
            self.seen.add(key)
        self.cases.append({'line': line, 'script': script, 'url': url, 'fam': fam, 'responder': responder,
                           'targets': targets, 'tail': tail, 'spec': spec})


def answer_entries(codes):
    """single-call answers: success + every fault code"""
    return [['unit']] + [['fault', c, 'F%d: text' % c] for c in codes]


def res(name, group, code):
    return [name, group, code, 'D%d %s' % (code, name)]


def group_answers(codes, g, quick):
    """answers to a *ProcessGroup call: fault, and result lists of length 0..2"""
    out = [['fault', c, 'G%d' % c] for c in codes]
    out.append(['results', []])
    out += [['results', [res('p', g, c)]] for c in codes]
    red = reduced(codes)
    pool = red if quick else codes
    out += [['results', [res('p', g, c1), res('q', g, c2)]] for c1 in pool for c2 in pool]
    return out


def reduced(codes):
    F = faults()
    return [F['SUCCESS'], F['ALREADY_STARTED'], F['NOT_RUNNING'], F['BAD_NAME'], F['FAILED'], F['SPAWN_ERROR'],
            F['SHUTDOWN_STATE'], 99]


def at(ans, i):
    """the same answer with texts that name the position of the target it belongs to"""
    if ans[0] == 'fault':
        return ['fault', ans[1], '%s @%d' % (ans[2], i)]
    if ans[0] == 'results':
        return ['results', [[x[0], x[1], x[2], '%s @%d' % (x[3], i)] for x in ans[1]]]
    return ans


def gen_targets(cs, quick):
    """start/stop/signal/clear x names x answers (family 'targets': also judged by the monitor)"""
    F = faults()
    codes = sorted(set(F.values())) + UNKNOWN_CODES
    red = reduced(codes)
    single = answer_entries(codes)
    single_red = [['unit']] + [['fault', c, 'F%d: text' % c] for c in red]
    for act in TARGET_ACTIONS:
        pre = 'signal HUP ' if act == 'signal' else act + ' '

        def answers_for(name, full):
            is_group = act != 'clear' and ':' in name and name.split(':', 1)[1] in ('', '*')
            if is_group:
                g = name.split(':', 1)[0]
                a = group_answers(codes, g, quick)
                if not full:
                    a = [x for x in a if x[0] == 'fault' and x[1] in red or
                         x[0] == 'results' and len(x[1]) <= 1 and all(r[2] in red for r in x[1])]
                return a
            return single if full else single_red
        # one name: every name form
        for n in ['a', 'g:p', 'g:*', 'h:', ':x', 'a:a', 'all:x', 'firewall', 'web:worker:0', 'web:w:*']:   # split at the FIRST colon
            for ans in answers_for(n, True):
                cs.add(pre + n, [up_ok(), ans], 'targets', targets=(act, [n], [ans]))
        # two names: all codes x all codes
        for n1, n2 in ([('a', 'b'), ('g:*', 'b'), ('g:p', 'h:*')] if quick else
                       [('a', 'b'), ('a', 'g:*'), ('g:*', 'b'), ('g:p', 'h:*')]):
            full1 = full2 = True
            if ':*' in n1 + n2 and act != 'clear':
                # group answers are many: full on the group side x reduced on the other
                full1, full2 = (n1.endswith(':*')), (n2.endswith(':*'))
                if full1 and full2:
                    full1 = False
            for a1 in answers_for(n1, full1):
                for a2 in answers_for(n2, full2):
                    b1, b2 = at(a1, 1), at(a2, 2)
                    cs.add(pre + n1 + ' ' + n2, [up_ok(), b1, b2], 'targets', targets=(act, [n1, n2], [b1, b2]))
        # three names
        names = ['a', 'b', 'c']
        if quick:
            for pos in range(3):
                for full_ans in single:
                    for o1 in single_red[:4]:
                        for o2 in single_red[:4]:
                            al = [o1, o2]
                            al.insert(pos, full_ans)
                            al = [at(x, i + 1) for i, x in enumerate(al)]
                            cs.add(pre + ' '.join(names), [up_ok()] + al, 'targets', targets=(act, names, al))
        else:
            for al in itertools.product(single, repeat=3):
                cs.add(pre + ' '.join(names), [up_ok()] + list(al), 'targets', targets=(act, names, list(al)))
        for a1 in single_red:
            for a2 in answers_for('g:*', False):
                for a3 in single_red[:4]:
                    cs.add(pre + 'a g:* b', [up_ok(), a1, a2, a3], 'targets',
                           targets=(act, ['a', 'g:*', 'b'], [a1, a2, a3]))
        # the `all` form: result lists of length 0..3 with mixed statuses
        lists = [[]] + [[res('p', 'g', c)] for c in codes]
        lists += [[res('p', 'g', c1), res('p', 'p', c2)] for c1 in codes for c2 in codes]
        lists += [[res('p', 'g', c1), res('q', 'g', c2), res('r', 'r', c3)] for c1 in red for c2 in red for c3 in red]
        for line in [pre + 'all', pre + 'a all b']:
            for rl in (lists if line.endswith('all') else lists[::7]):
                cs.add(line, [up_ok(), ['results', rl]], 'all')
        for ans in [['fault', c, 'A%d' % c] for c in codes]:
            cs.add(pre + 'all', [up_ok(), ans], 'all')


def gen_simple_names(cs, quick):
    """add / remove / pid x names x answers"""
    F = faults()
    codes = sorted(set(F.values())) + UNKNOWN_CODES
    red = reduced(codes)
    for act in ['add', 'remove', 'pid']:
        ok = [['unit']] if act != 'pid' else [['info', ['a', 'a', 20, 'RUNNING', 'pid 7', 7]],
                                               ['info', ['a', 'a', 0, 'STOPPED', '', 0]]]
        full = ok + [['fault', c, 'F%d' % c] for c in codes]
        redl = ok + [['fault', c, 'F%d' % c] for c in red]
        pre = [up_ok()] if act == 'pid' else []
        for a1 in full:
            cs.add('%s a' % act, pre + [a1], 'names')
            cs.add('%s g:*' % act, pre + [a1], 'names')
            for a2 in full:
                cs.add('%s a b' % act, pre + [a1, a2], 'names')
        pool = redl[:4] if quick else full
        for pos in range(3):
            for fa in full:
                for o1 in pool:
                    for o2 in (redl[:3] if quick else pool):
                        al = [o1, o2]
                        al.insert(pos, fa)
                        cs.add('%s a b c' % act, pre + al, 'names')
    infos = [['x', 'g', 20, 'RUNNING', 'pid 5, uptime 0:00:01', 5], ['y', 'y', 0, 'STOPPED', 'Not started', 0]]
    for line in ['pid', 'pid all', 'pid a all']:
        if line == 'pid':
            cs.add(line, [up_ok(), ['int', 4242]], 'names')
            cs.add(line, [up_ok(), ['int', 0]], 'names')
        else:
            cs.add(line, [up_ok(), ['infos', infos]], 'names')
            cs.add(line, [up_ok(), ['infos', []]], 'names')
        for c in codes:
            cs.add(line, [up_ok(), ['fault', c, 'F%d' % c]], 'names')


def gen_restart(cs, quick):
    F = faults()
    codes = sorted(set(F.values())) + UNKNOWN_CODES
    red = reduced(codes)
    single = answer_entries(codes)
    redl = [['unit']] + [['fault', c, 'F%d' % c] for c in red]
    for a1 in single:
        for a2 in single:
            cs.add('restart a', [up_ok(), up_ok(), a1, up_ok(), a2], 'restart', spec=('restart', ['a'], [a1], [a2]))
    for a1 in redl:
        for a2 in redl:
            for b1 in redl[:5]:
                for b2 in redl[:5]:
                    xs, ys = [at(a1, 1), at(a2, 2)], [at(b1, 3), at(b2, 4)]
                    cs.add('restart a b', [up_ok(), up_ok()] + xs + [up_ok()] + ys, 'restart',
                           spec=('restart', ['a', 'b'], xs, ys))
    for g1 in group_answers(codes, 'g', True):
        for g2 in group_answers(red, 'g', True)[::3]:
            cs.add('restart g:*', [up_ok(), up_ok(), g1, up_ok(), g2], 'restart', spec=('restart', ['g:*'], [g1], [g2]))
    cs.add('restart', [up_ok()], 'restart')
    cs.add('restart all', [up_ok(), up_ok(), ['results', [res('p', 'g', 80)]], up_ok(), ['results', [res('p', 'g', 80)]]], 'restart')
    # upcheck of the inner do_stop / do_start failing
    for bad in [['sock', 111, 'Connection refused'], ['str', '2.0'], ['fault', 1, 'UNKNOWN_METHOD'], ['proto', 401, 'Unauthorized']]:
        cs.add('restart a', [up_ok(), bad], 'restart', responder=OkResponder())
        cs.add('restart a', [up_ok(), up_ok(), ['unit'], bad], 'restart', responder=OkResponder())


INFO_SETS = [
    [],
    [['a', 'a', 20, 'RUNNING', 'pid 1, uptime 0:00:10', 1]],
    [['a', 'a', 0, 'STOPPED', 'Not started', 0]],
    [['p', 'g', 20, 'RUNNING', 'pid 2, uptime 0:00:10', 2], ['q', 'g', 100, 'EXITED', 'Sep 30 06:00 PM', 0],
     ['a', 'a', 10, 'STARTING', '', 3]],
    [['p', 'g', 200, 'FATAL', 'Exited too quickly (process log may have details)', 0],
     ['b', 'b', 30, 'BACKOFF', 'Exited too quickly', 0]],
    [['a-very-long-process-name-indeed-0123456789', 'group-with-a-long-name', 40, 'STOPPING', '', 9],
     ['a', 'a', 1000, 'UNKNOWN', '', 0]],
    [['a', 'b', 20, 'RUNNING', 'x', 1], ['b', 'a', 20, 'RUNNING', 'y', 2], ['a', 'a', 20, 'RUNNING', 'z', 3]],
    # process_name=worker:%(process_num)d : the namespec splits at the first colon only
    [['worker:0', 'web', 20, 'RUNNING', 'pid 8', 8], ['worker:1', 'web', 0, 'STOPPED', 'Not started', 0],
     ['web', 'web', 20, 'RUNNING', 'pid 9', 9]],
]
STATUS_ARGS = ['', 'all', 'a', 'g:*', 'g:p', 'g:q', 'b', 'zz', 'g:', 'g:zz', 'zz:*', 'a g:*', 'a zz', 'zz a',
               'zz yy:*', 'a a', 'g:* g:p', 'a all zz', 'a:a', 'b:a', 'a b g:q', 'web:worker:0', 'web:worker:1 web:*',
               'web:worker:0 web:worker:9', 'web:worker']


def gen_status(cs, quick):
    F = faults()
    codes = sorted(set(F.values())) + UNKNOWN_CODES
    for infos in INFO_SETS:
        for a in STATUS_ARGS:
            cs.add(('status ' + a).strip(), [up_ok(), ['infos', infos]], 'status')
    # every single state x name forms
    for st, nm in [(0, 'STOPPED'), (10, 'STARTING'), (20, 'RUNNING'), (30, 'BACKOFF'), (40, 'STOPPING'),
                   (100, 'EXITED'), (200, 'FATAL'), (1000, 'UNKNOWN'), (7, 'ODD')]:
        for other in (20, 0):
            infos = [['p', 'g', st, nm, 'd', 1], ['a', 'a', other, 'X', 'e', 0]]
            for a in ['', 'g:p', 'a', 'g:* zz', 'zz', 'a g:p']:
                cs.add(('status ' + a).strip(), [up_ok(), ['infos', infos]], 'status')
    for c in codes:
        cs.add('status', [up_ok(), ['fault', c, 'F%d' % c]], 'status')
        cs.add('status a', [up_ok(), ['fault', c, 'F%d' % c]], 'status')
    for url in ['http://localhost:9001', 'unix:///tmp/s.sock', 'HTTP://h:1', 'ftp://x', 'localhost', 'http', '',
                'unix:', 'http:x', '9http://x', 'un-ix://x']:
        for first in [up_ok(), ['sock', 111, 'Connection refused'], ['sock', 2, 'No such file or directory'],
                      ['str', '1.0'], ['fault', 6, 'SHUTDOWN_STATE'], ['proto', 401, 'Unauthorized']]:
            cs.add('open ' + url, [first], 'open', responder=OkResponder())


def gen_single_call(cs, quick):
    """shutdown reload avail reread version update tail maintail: one call x all codes + values"""
    F = faults()
    codes = sorted(set(F.values())) + UNKNOWN_CODES
    transport = [['sock', 111, 'Connection refused'], ['sock', 2, 'No such file or directory'],
                 ['sock', 13, 'Permission denied'], ['sock', 104, 'Connection reset by peer'],
                 ['sock', 110, 'Connection timed out'], ['sock', 32, 'Broken pipe'],
                 ['proto', 401, 'Unauthorized'], ['proto', 500, 'Internal Server Error'], ['proto', 404, 'Not Found']]
    bad_first = [['fault', c, 'F%d' % c] for c in codes] + transport
    cinfos = [['p', 'g', True, True, 999, 999], ['a', 'a', False, False, 1, -5],
              ['a-name-longer-than-thirty-two-characters-x', 'g2', True, False, 10, 20]]
    reloads = [['reload', [], [], []], ['reload', ['n1'], [], []], ['reload', ['b', 'a'], ['c'], ['d', 'a']],
               ['reload', [], ['z', 'y', 'x'], ['y']], ['reload', ['g'], ['g'], ['g']]]
    # actions without upcheck
    for line, oks in [('shutdown', [['unit']]), ('reload', [['unit']]),
                      ('avail', [['cinfos', cinfos], ['cinfos', []]]),
                      ('reread', reloads)]:
        for r in oks + bad_first:
            cs.add(line, [r], 'single')
        cs.add(line + ' x', [['unit']], 'single')
        cs.add(line + '  ', [oks[0]], 'single')
    # actions with upcheck
    for line, oks in [('version', [['str', '4.3.0.dev0']]),
                      ('tail a', [['str', 'log line 1\nlog line 2\n'], ['str', '']]),
                      ('tail -100 a stderr', [['str', 'err']]),
                      ('tail a stdout', [['str', 'o']]),
                      ('tail -0 g:a STDERR', [['str', 'o']]),
                      ('maintail', [['str', 'main log\n']]),
                      ('maintail -300', [['str', 'main log\n']])]:
        for r in oks + bad_first:
            cs.add(line, [up_ok(), r], 'single')
    for line in ['version x', 'tail', 'tail a b c d', 'tail -5', 'tail a b', 'tail a b stdout', 'tail -x a', 'tail - a',
                 'tail -5x a', 'tail --5 a', 'tail -+5 a', 'tail a stderr x', 'tail -5 a b c', 'tail -007 a',
                 'tail -5 a stderr', 'tail -5 -6', 'tail -5 -6 stdout', 'tail a Stdout',
                 'maintail x', 'maintail -x', 'maintail a b', 'maintail -', 'maintail --3', 'maintail -12',
                 'maintail -0', 'maintail -1 -2']:
        cs.add(line, [up_ok(), ['str', 'text']], 'args')
    # update
    upd_ok = ['unit']
    for rl in reloads:
        for a in ['', 'all', 'g', 'a', 'a zz', 'zz yy b', 'n1 all', 'd']:
            cs.add(('update ' + a).strip(), [rl], 'update', responder=OkResponder())
    for r in bad_first:
        cs.add('update', [r], 'update')
        # a fault / transport error at each later call of `update`
        base = [['reload', ['n'], ['c'], ['r', 'r2']], ['results', [res('p', 'r', 80)]], upd_ok,
                ['results', [res('p', 'r2', 30)]], ['results', []], upd_ok, upd_ok, upd_ok]
        for k in range(1, len(base)):
            inj = {0: base[0], k: r}
            cs.add('update', [], 'update', responder=OkResponder(inject=inj))
        s = [base[0], r]
        cs.add('update r', s, 'update')
    for st in sorted(set(F.values())):
        cs.add('update', [['reload', [], [], ['r']], ['results', [res('p', 'r', st), res('q', 'r', 80)]], upd_ok], 'update')


def gen_tail(cs, quick):
    """tail / maintail given by meaning (what, how many bytes) x every answer; judged by the tail monitor"""
    F = faults()
    codes = sorted(set(F.values())) + UNKNOWN_CODES
    answers = [['str', 'line 1\nline 2\n'], ['str', '']] + [['fault', c, 'T%d' % c] for c in codes] + \
              [['sock', 111, 'Connection refused'], ['sock', 104, 'Connection reset by peer'],
               ['proto', 401, 'Unauthorized'], ['proto', 500, 'Internal Server Error']]
    whats = [('proc', 'a', False, ''), ('proc', 'a', False, ' stdout'), ('proc', 'g:p', True, ' stderr'),
             ('proc', 'web:worker:0', False, ''),
             ('proc', 'BAD_NAME', True, ' STDERR'), ('main', None, False, '')]
    sizes = [None, 0, 1, 5, 1600, -5, 10 ** 12, 'f']
    for kind, name, se, chan in whats:
        for n in sizes:
            mod = '' if n is None else (' -f' if n == 'f' else ' -%d' % n)
            line = ('tail%s %s%s' % (mod, name, chan)) if kind == 'proc' else 'maintail' + mod
            nbytes = 1600 if n is None else n
            for ans in (answers if n != 'f' else [['unit']]):
                script = [up_ok(), ans] if n != 'f' else [up_ok()]
                cs.add(line, script, 'tail', tail=(kind, name, se, nbytes, ans))
    # leading zeros and an explicit plus sign mean the same number
    cs.add('tail -007 a', [up_ok(), ['str', 'x']], 'tail', tail=('proc', 'a', False, 7, ['str', 'x']))
    cs.add('tail -+3 a stderr', [up_ok(), ['fault', F['NO_FILE'], 'NO_FILE']], 'tail',
           tail=('proc', 'a', True, 3, ['fault', F['NO_FILE'], 'NO_FILE']))
    cs.add('maintail -000', [up_ok(), ['fault', F['FAILED'], 'FAILED']], 'tail',
           tail=('main', None, False, 0, ['fault', F['FAILED'], 'FAILED']))


def gen_fg(cs, quick):
    """fg up to the point where it becomes interactive (not in the property's list of actions:
    correspondence only)"""
    F = faults()
    codes = sorted(set(F.values())) + UNKNOWN_CODES
    for line in ['fg', 'fg a b', 'fg  a   b c']:
        cs.add(line, [up_ok()], 'fg')
    for st, nm in [(0, 'STOPPED'), (10, 'STARTING'), (30, 'BACKOFF'), (40, 'STOPPING'), (100, 'EXITED'), (200, 'FATAL'),
                   (1000, 'UNKNOWN')]:
        cs.add('fg a', [up_ok(), ['info', ['a', 'a', st, nm, '', 0]]], 'fg')
    for c in codes:
        cs.add('fg g:a', [up_ok(), ['fault', c, 'F%d' % c]], 'fg')
    for bad in [['sock', 111, 'Connection refused'], ['sock', 104, 'reset'], ['proto', 401, 'Unauthorized'], ['str', '9.9']]:
        cs.add('fg a', [bad], 'fg')
        if bad[0] != 'str':
            cs.add('fg a', [up_ok(), bad], 'fg')


def gen_more_forms(cs, quick):
    """remaining command x form combinations: restart all / group x every code, add/remove `all`
    (an ordinary group name there), pid group:*"""
    F = faults()
    codes = sorted(set(F.values())) + UNKNOWN_CODES
    for c1 in codes:
        for c2 in reduced(codes):
            cs.add('restart all', [up_ok(), up_ok(), ['results', [res('p', 'g', c1), res('q', 'q', 80)]],
                                   up_ok(), ['results', [res('p', 'g', c2)]]], 'restart')
        cs.add('restart all', [up_ok(), up_ok(), ['fault', c1, 'F%d' % c1]], 'restart', responder=OkResponder())
        cs.add('restart a all', [up_ok(), up_ok(), ['results', []], up_ok(), ['fault', c1, 'F%d' % c1]], 'restart')
        cs.add('add all', [['fault', c1, 'F%d' % c1]], 'names')
        cs.add('remove all b', [['fault', c1, 'F%d' % c1], ['unit']], 'names')
        cs.add('pid g:* a', [up_ok(), ['fault', c1, 'F%d' % c1], ['info', ['a', 'a', 20, 'RUNNING', '', 9]]], 'names')
    cs.add('add all', [['unit']], 'names')


def gen_server_states(cs, quick):
    """every action x server state at the first call, and transport errors mid-command"""
    lines = ['start a b', 'stop a b', 'restart a', 'signal HUP a b', 'clear a b', 'status', 'status a', 'pid',
             'pid a', 'pid all', 'add a b', 'remove a b', 'update', 'update a', 'reread', 'avail', 'tail a',
             'tail -5 a stderr', 'maintail', 'shutdown', 'reload', 'version', 'start all', 'stop g:*',
             'signal TERM all', 'clear all', 'open http://h:1', 'fg a', 'tail -f a', 'maintail -f', 'tail -0 a']
    states = [
        ('unreachable-refused', [['sock', 111, 'Connection refused']]),
        ('unreachable-nofile', [['sock', 2, 'No such file or directory']]),
        ('unreachable-other', [['sock', 13, 'Permission denied']]),
        ('unreachable-reset', [['sock', 104, 'Connection reset by peer']]),
        ('wrong-api', [['str', '2.0']]),
        ('wrong-api-empty', [['str', '']]),
        ('wrong-api-newer', [['str', '3.1']]),
        ('wrong-api-newer-major', [['str', '4.0']]),
        ('wrong-api-newer-30', [['str', '30.0']]),
        ('wrong-api-longer', [['str', '3.0.1']]),
        ('wrong-api-shorter', [['str', '3']]),
        ('wrong-api-nonnumeric', [['str', 'abc']]),
        ('wrong-api-upper', [['str', 'Z']]),
        ('no-namespace', [['fault', 1, 'UNKNOWN_METHOD']]),
        ('shutting-down', [['fault', 6, 'SHUTDOWN_STATE']]),
        ('fault-unknown-code', [['fault', 12345, 'who knows']]),
        ('auth-401', [['proto', 401, 'Unauthorized'], ['proto', 401, 'Unauthorized']]),
        ('auth-401-then-ok', [['proto', 401, 'Unauthorized']]),
        ('http-500', [['proto', 500, 'Internal Server Error']]),
        ('exhausted', []),
    ]
    for line in lines:
        for name, pre in states:
            if name.startswith('wrong-api') and line.split()[0] in ('update', 'reread', 'avail'):
                continue   # these actions do not call getVersion: a string would be an ill-typed answer
            if name == 'exhausted':
                cs.add(line, [], 'state:' + name)
            else:
                cs.add(line, list(pre), 'state:' + name, responder=OkResponder())
    # errors in the middle: run the line against an all-success responder, then replace
    # the k-th answer by each transport error / odd fault
    inj = [['sock', 104, 'Connection reset by peer'], ['sock', 111, 'Connection refused'], ['sock', 2, 'nf'],
           ['proto', 401, 'Unauthorized'], ['proto', 502, 'Bad Gateway'], ['fault', 6, 'SHUTDOWN_STATE'],
           ['fault', 777, 'odd'], ['fault', 1, 'UNKNOWN_METHOD'], ['fault', 30, 'FAILED: boom']]
    for line in lines + ['start a b c', 'restart a b', 'restart g:* a', 'update a', 'add a b c', 'pid a b c',
                         'stop a g:* b', 'signal HUP a g:* b']:
        for k in range(0, 8):
            for r in inj:
                cs.add(line, [], 'midcommand', responder=OkResponder(inject={k: r}))


class OkResponder(object):
    """Dynamic oracle: answers every call with a well-typed success value, except
    at the call indices listed in `inject`."""
    def __init__(self, inject=None, rng=None, chaos=0.0):
        self.inject = inject or {}
        self.rng = rng
        self.chaos = chaos

    def __call__(self, method, args, idx):
        if idx in self.inject:
            return self.inject[idx]
        rng = self.rng
        if rng is not None and rng.random() < self.chaos:
            k = rng.random()
            F = sorted(set(faults().values())) + UNKNOWN_CODES
            if k < 0.75:
                c = rng.choice(F)
                return ['fault', c, rng.choice(['F%d' % c, 'FAILED: attempted to kill x with sig SIGTERM but it was not running',
                                                 'BAD_NAME: x', ''])]
            if k < 0.9:
                e = rng.choice([111, 2, 13, 104, 110, 32, 0])
                return ['sock', e, 'sock %d' % e]
            return ['proto', rng.choice([401, 401, 500, 403]), 'msg']
        return self.value(method, args)

    def value(self, method, args):
        rng = self.rng
        F = sorted(set(faults().values())) + UNKNOWN_CODES

        def code():
            if rng is None:
                return 80
            return 80 if rng.random() < 0.5 else rng.choice(F)

        def nm():
            return 'p' if rng is None else rng.choice(['p', 'q', 'a', 'g', 'b'])
        if method == 'getVersion':
            if rng is not None and rng.random() < 0.03:
                return ['str', '2.1']
            return up_ok()
        if method in ('getSupervisorVersion', 'readLog', 'readProcessStdoutLog', 'readProcessStderrLog'):
            return ['str', 'some text\n' if rng is None else rng.choice(['', 'x', 'a\nb\n', 'ERROR in the log'])]
        if method == 'getPID':
            return ['int', 321 if rng is None else rng.choice([0, 1, 99999])]
        if method in ('startAllProcesses', 'stopAllProcesses', 'signalAllProcesses', 'clearAllProcessLogs',
                      'startProcessGroup', 'stopProcessGroup', 'signalProcessGroup'):
            g = args[0] if args and method.endswith('Group') else 'g'
            n = 2 if rng is None else rng.randrange(0, 4)
            return ['results', [[nm(), g if rng is None or rng.random() < 0.7 else nm(), code(), 'desc %d' % i]
                                for i in range(n)]]
        if method == 'getAllProcessInfo':
            if rng is None:
                return ['infos', INFO_SETS[3]]
            return ['infos', rng.choice(INFO_SETS)]
        if method == 'getProcessInfo':
            # never RUNNING: `fg` would become interactive (raw_input) on a running process
            return ['info', ['a', 'a', 40, 'STOPPING', 'pid 7', 7 if rng is None else rng.choice([0, 7, 123456])]]
        if method == 'getAllConfigInfo':
            return ['cinfos', [['p', 'g', True, False, 999, 1]]]
        if method == 'reloadConfig':
            if rng is None:
                return ['reload', ['n'], ['c'], ['r']]
            pool = ['a', 'b', 'g', 'n', 'r', 'zz']
            return ['reload'] + [rng.sample(pool, rng.randrange(0, 3)) for _ in range(3)]
        return ['unit']


RANDOM_WORDS = ['a', 'b', 'c', 'g:*', 'g:p', 'g:', 'all', ':x', 'zz', 'h:*', 'a:a', 'HUP', 'stdout', 'stderr', '-5',
                '-f0', '-x', '*', 'g:*:y', 'ALL']
RANDOM_ACTIONS = ['start', 'stop', 'restart', 'signal', 'clear', 'status', 'pid', 'add', 'remove', 'update', 'reread',
                  'avail', 'tail', 'maintail', 'shutdown', 'reload', 'version', 'open', 'quit', 'exit', 'EOF']


def gen_random(cs, chk, n):
    rng = chk.rng
    for _ in range(n):
        k = rng.random()
        act = rng.choice(RANDOM_ACTIONS)
        if k < 0.05:
            act = rng.choice(['starts', 'st', 'foo', '', ':', '!ls', 'start:a', 'Stop', '_x', 'status_', '9'])
        nw = rng.choice([0, 1, 1, 2, 2, 3, 4])
        words = [rng.choice(RANDOM_WORDS) for _ in range(nw)]
        if act == 'open':
            words = [rng.choice(['http://h:9', 'unix:///s', 'bad', 'ftp://x'])][:max(1, nw)]
        sep = rng.choice([' ', ' ', '  ', '\t', ' \t '])
        line = rng.choice(['', '', ' ', '\t']) + act + (sep if words or rng.random() < 0.2 else '') + sep.join(words) + \
            rng.choice(['', '', ' ', '\n'])
        chaos = rng.choice([0.0, 0.1, 0.3, 0.6])
        cs.add(line, [], 'random' if chaos < 0.5 else 'random-hostile', responder=OkResponder(rng=rng, chaos=chaos))


# ------------------------------------------------------------------ running

def run_cases(chk, cases, wd):
    import c20_proxy as H
    enc = H.enc_warning()
    terms, metas = [], []
    mon_terms, mon_metas = [], []
    stat_terms, stat_metas = [], []
    tail_terms, tail_metas = [], []
    rst_terms, rst_metas = [], []
    stl_terms, stl_metas = [], []
    distinct = set()
    F = faults()
    for i, c in enumerate(cases):
        url = c['url'] or H.DEFAULT_URL
        r = H.run_real(c['line'], c['script'], url, c['responder'])
        served = r['served'] + c['script'][len(r['served']):]
        meta = {'line': c['line'], 'script': served, 'url': url, 'family': c['fam'],
                'printed': r['msgs'], 'exitstatus': r['status'], 'calls': r['calls']}
        chk.dist('family:' + c['fam'])
        chk.dist('action:' + (c['line'].split() or ['(empty)'])[0][:12])
        for e in served[:len(r['served'])]:
            chk.dist('answer:' + e[0])
        if r['escaped'] is not None:
            chk.violation(dict(meta, kind='an exception escaped Controller.onecmd (traceback instead of an error line)',
                               exception=r['escaped']))
            continue
        try:
            lines = H.canon_lines(r['msgs'])
            term = H.coq_case(c['line'], served, lines, r['status'], r['calls'], url, enc)
        except ValueError as e:
            chk.violation(dict(meta, kind='output not representable for the model', error=str(e)), nofail=True)
            continue
        # direct judgement, independent of the model: a fault or transport error must not
        # pass silently with status 0
        judge_silent(chk, c, r, served, lines, meta, F)
        judge_update(chk, c, r, served, lines, meta, F)
        judge_simple(chk, c, r, served, lines, meta, F)
        judge_version(chk, c, r, served, lines, meta, F)
        chk._c20_known_names = getattr(chk, '_c20_known_names', 0) + judge_names(chk, c, r, served, lines, meta, F)
        terms.append(term)
        metas.append(meta)
        distinct.add((c['line'].split()[0] if c['line'].split() else '', tuple(l[0] for l in lines), r['status'],
                      len(r['calls'])))
        if c['fam'] == 'status' and len(served) == 2 and served[0] == up_ok() and served[1][0] == 'infos':
            stat_terms.append('(mkstat %s %s %s)' % (H.clist(H.cs(w) for w in c['line'].split()[1:]),
                                                      H.clist(H.coq_pinfo(x) for x in served[1][1]), H.cz(r['status'])))
            stat_metas.append(meta)
            stl_terms.append('(mkstatl %s %s %s)' % (H.clist(H.cs(w) for w in c['line'].split()[1:]),
                                                      H.clist(H.coq_pinfo(x) for x in served[1][1]),
                                                      H.clist(H.coq_line(l) for l in lines)))
            stl_metas.append(meta)
        if c.get('tail') is not None and enc is None:
            kind, name, se, nbytes, ans = c['tail']
            what = 'TailMain' if kind == 'main' else '(TailProc %s %s)' % (H.cs(name), H.cb(se))
            tail_terms.append('(mktail %s %s (%s) %s %s %s)' % (
                what, 'None' if nbytes == 'f' else '(Some %s)' % H.cz(nbytes), H.coq_resp(ans),
                H.clist(H.coq_line(l) for l in lines), H.cz(r['status']), H.clist(H.coq_call(x) for x in r['calls'])))
            tail_metas.append(meta)
        if c['targets'] is not None:
            act, names, answers = c['targets']
            mon_terms.append(monitor_term(H, act, names, answers, lines, r['status'],
                                          'HUP' if act == 'signal' else '', r['calls']))
            mon_metas.append(meta)
        if c.get('spec') is not None and c['spec'][0] == 'restart':
            _k, names, xs, ys = c['spec']
            rst_terms.append('(mkrestart %s %s %s %s %s %s)' % (
                H.clist(H.cs(n) for n in names), H.clist(coq_answer(H, a) for a in xs),
                H.clist(coq_answer(H, a) for a in ys), H.clist(H.coq_line(l) for l in lines), H.cz(r['status']),
                H.clist(H.coq_call(x) for x in r['calls'])))
            rst_metas.append(meta)
    mons = {'targets': (mon_terms, mon_metas), 'status': (stat_terms, stat_metas), 'tail': (tail_terms, tail_metas),
            'restart': (rst_terms, rst_metas), 'status_lines': (stl_terms, stl_metas)}
    return terms, metas, mons, distinct


def direct_failures(chk):
    return getattr(chk, '_c20_direct', 0)


def _direct(chk, obj):
    chk._c20_direct = getattr(chk, '_c20_direct', 0) + 1
    seen = chk.__dict__.setdefault('_c20_direct_seen', set())
    key = (obj.get('kind'), obj.get('line'))
    if key in seen or len(seen) >= 8:
        return
    seen.add(key)
    chk.violation(obj)


def judge_update(chk, c, r, served, lines, meta, F):
    """`update [names]` when every request succeeds: the groups acted on, the result lines, the
    'no such group' lines (exactly the named groups the server does not know) and the exit status,
    judged from the server's answers alone"""
    words = c['line'].split()
    used = served[:len(r['served'])]
    if not words or words[0] != 'update' or not used or used[0][0] != 'reload':
        return
    if any(e[0] in ('fault', 'sock', 'proto') for e in used):
        return
    if any(e[0] == 'results' and any(x[2] == F['FAILED'] for x in e[1]) for e in used):
        return
    added, changed, removed = used[0][1], used[0][2], used[0][3]
    names = set(words[1:])
    if 'all' in names:
        names = set()
    invalid = []
    if names:
        infos = [e for e in used if e[0] == 'infos']
        if not infos:
            return
        groups = set(i[1] for i in infos[0][1]) | set(added)
        invalid = sorted(n for n in names if n not in groups)
    exp = []
    for g in removed:
        if not names or g in names:
            exp += ['%s: stopped' % g, '%s: removed process group' % g]
    for g in changed:
        if not names or g in names:
            exp += ['%s: stopped' % g, '%s: updated process group' % g]
    for g in added:
        if not names or g in names:
            exp += ['%s: added process group' % g]
    texts = [l[1] for l in lines if l[0] == 'text']
    got_err = sorted(x for x in texts if x.startswith('ERROR: no such group: '))
    got = [x for x in texts if not x.startswith('ERROR: no such group: ')]
    exp_err = ['ERROR: no such group: %s' % g for g in invalid]
    exp_status = 1 if invalid else 0
    if got_err != exp_err or got != exp or r['status'] != exp_status or len(texts) != len(lines):
        _direct(chk, dict(meta, kind='update: with every request answered successfully, the result lines, the '
                          '"no such group" lines (named groups unknown to the server) or the exit status are not the '
                          'specified ones', expected_lines=exp_err + exp, expected_status=exp_status))


MALFORMED = ['start', 'stop', 'restart', 'signal', 'signal HUP', 'clear', 'tail', 'tail a b c d', 'tail -5', 'tail a b',
             'tail -x a', 'tail -5x a', 'tail - a', 'maintail x', 'maintail a b', 'maintail -x', 'shutdown now', 'reload x',
             'avail x', 'reread x', 'version x', 'foo', 'starts a', '!ls', ':', 'open ftp://x', 'open x']


def judge_names(chk, c, r, served, lines, meta, F):
    """add / remove / pid <names>: one line per name worded after the answer for THAT name, exit status"""
    words = c['line'].split()
    if c['fam'] != 'names' or not words or words[0] not in ('add', 'remove', 'pid') or len(words) < 2:
        return 0
    act, names = words[0], words[1:]
    if act == 'pid' and 'all' in names:
        return 0
    used = list(served)      # the whole script: one answer per name, whether or not it was asked for
    first_calls = 0
    if act == 'pid':
        if not used or used[0] != up_ok():
            return 0
        used = used[1:]
        first_calls = 1
    if len(used) < len(names) or any(e[0] in ('sock', 'proto') for e in used[:len(names)]):
        return 0
    exp, status, aborted = [], 0, False
    for n, e in zip(names, used):
        if e[0] in ('sock', 'proto'):
            return 0
        if act == 'add':
            if e[0] != 'fault':
                exp.append('%s: added process group' % n)
            elif e[1] == F['SHUTDOWN_STATE']:
                exp.append('ERROR: shutting down'); status = 1
            elif e[1] == F['ALREADY_ADDED']:
                exp.append('ERROR: process group already active')
            elif e[1] == F['BAD_NAME']:
                exp.append('ERROR: no such process/group: %s' % n); status = 1
            else:
                aborted = True
        elif act == 'remove':
            if e[0] != 'fault':
                exp.append('%s: removed process group' % n)
            elif e[1] == F['STILL_RUNNING']:
                exp.append('ERROR: process/group still running: %s' % n); status = 1
            elif e[1] == F['BAD_NAME']:
                exp.append('ERROR: no such process/group: %s' % n); status = 1
            else:
                aborted = True
        else:
            if e[0] == 'info':
                exp.append(str(e[1][5]))
                if e[1][5] == 0:
                    status = 7
            elif e[0] == 'fault' and e[1] == F['BAD_NAME']:
                exp.append('No such process %s' % n); status = 1
            else:
                aborted = True
        if aborted:
            break
    texts = [l[1] for l in lines if l[0] == 'text']
    if aborted:
        # known finding C20-names-fault-aborts: the fault ends the command in the exception net
        if r['status'] == 0 or not any(l[0] == 'err' for l in lines) or texts != exp:
            _direct(chk, dict(meta, kind='%s: a fault without wording for one name: expected the lines so far, an error '
                              'line and a non-zero status' % act, expected_lines=exp))
            return 0
        return 1 if len(exp) + 1 < len(names) else 0
    if texts != exp or len(texts) != len(lines) or r['status'] != status or len(r['calls']) != first_calls + len(names):
        _direct(chk, dict(meta, kind='%s: every name must be sent to the server and get one line worded after the '
                          'server\'s answer for that name; or wrong exit status' % act, expected_lines=exp,
                          expected_status=status, expected_number_of_calls=first_calls + len(names)))
    return 0


UPCHECK_ACTIONS = ('start', 'stop', 'restart', 'signal', 'clear', 'status', 'pid', 'tail', 'maintail', 'version', 'fg')


def judge_version(chk, c, r, served, lines, meta, F):
    """wrong-API server state: the first answer of an action that begins with the version check is a
    version string other than the client's API version - older, newer, longer, non-numeric or empty:
    exactly the 'Sorry ...' line naming both versions, no further request, exit status 5 (status: 4)"""
    words = c['line'].split()
    used = served[:len(r['served'])]
    if not words or words[0] not in UPCHECK_ACTIONS or c['line'].strip() != ' '.join(words) or not used:
        return
    if words[0] == 'version' and len(words) > 1:
        return
    first = used[0]
    api = up_ok()[1]
    if first[0] != 'str' or first[1] == api:
        return
    exp = ['Sorry, this version of supervisorctl expects to talk to a server with API version %s, but the remote '
           'version is %s.' % (api, first[1])]
    texts = [l[1] for l in lines if l[0] == 'text']
    exp_status = 4 if words[0] == 'status' else 5
    if texts != exp or len(lines) != 1 or len(r['calls']) != 1 or r['status'] != exp_status:
        _direct(chk, dict(meta, kind='server reporting API version %r (client expects %r): expected only the "Sorry, this '
                          'version of supervisorctl expects ..." line, no further request and exit status %d'
                          % (first[1], api, exp_status), expected_lines=exp, server_api_version=first[1]))


def judge_simple(chk, c, r, served, lines, meta, F):
    """version / shutdown / reload / reread / avail on a successful answer, and malformed command lines"""
    line = c['line'].strip()
    used = served[:len(r['served'])]
    texts = [l[1] for l in lines if l[0] == 'text']
    exp = None
    if c['fam'] == 'malformed':
        if r['status'] == 0 or not any(l[0] in ('err',) or (l[0] == 'text' and ('rror' in l[1] or 'ERROR' in l[1] or
                                                                           'Unknown syntax' in l[1])) for l in lines):
            _direct(chk, dict(meta, kind='malformed arguments / unknown action accepted: exit status 0 or no error line'))
        return
    if c['fam'] != 'single':
        return
    if line == 'version' and len(used) == 2 and used[0] == up_ok() and used[1][0] == 'str':
        exp = [used[1][1]]
    elif line == 'shutdown' and used == [['unit']]:
        exp = ['Shut down']
    elif line == 'reload' and used == [['unit']]:
        exp = ['Restarted supervisord']
    elif line == 'reread' and len(used) == 1 and used[0][0] == 'reload':
        d = {}
        for names, what in ((used[0][1], 'available'), (used[0][2], 'changed'), (used[0][3], 'disappeared')):
            for n in names:
                d[n] = what
        exp = ['%s: %s' % (n, d[n]) for n in sorted(d)] or ['No config updates to processes']
    elif line == 'avail' and len(used) == 1 and used[0][0] == 'cinfos':
        ok = len(texts) == len(used[0][1]) == len(lines) and r['status'] == 0
        for x, tline in zip(used[0][1], texts):
            ns = x[0] if x[0] == x[1] else '%s:%s' % (x[1], x[0])
            f = tline.split()
            ok = ok and tline.startswith(ns + ' ') and tline.endswith(' %d:%d' % (x[4], x[5])) and \
                ((' in use ' in tline) if x[2] else (' avail ' in tline)) and \
                ((' auto ' in tline) if x[3] else (' manual ' in tline)) and len(f) >= 4
        if not ok:
            _direct(chk, dict(meta, kind='avail: not one line per configured process carrying its namespec, '
                              'in use/avail, auto/manual and priorities'))
        return
    if exp is not None and (texts != exp or len(texts) != len(lines) or r['status'] != 0):
        _direct(chk, dict(meta, kind='%s: a successful answer is not reported as specified (lines / exit status 0)'
                          % line.split()[0], expected_lines=exp))


def judge_silent(chk, c, r, served, lines, meta, F):
    """never-silent and no-spurious-failure, judged directly on the implementation's output"""
    import re
    words = (c['line'].split() or [''])
    act = re.match(r'[A-Za-z0-9_]*', c['line'].strip()).group(0)   # as cmd.Cmd.parseline cuts it
    used = served[:len(r['served'])]
    if c['fam'] in ('names', 'single') and act == words[0] and act in ('add', 'remove', 'shutdown', 'reload') and used and \
            (act in ('add', 'remove') or len(words) == 1):
        okc = {'add': {F['ALREADY_ADDED']}, 'shutdown': {F['SHUTDOWN_STATE']}}.get(act, set())
        if all(e[0] not in ('sock', 'proto') and (e[0] != 'fault' or e[1] in okc) for e in used) and r['status'] != 0:
            _direct(chk, dict(meta, kind='every request of the command succeeded (or hit the action\'s idempotent fault) '
                              'but the exit status is non-zero'))
    ok_codes = {F['SUCCESS']}
    ok_codes |= {'start': {F['ALREADY_STARTED']}, 'stop': {F['NOT_RUNNING']}, 'add': {F['ALREADY_ADDED']},
                 'shutdown': {F['SHUTDOWN_STATE']}, 'restart': {F['ALREADY_STARTED'], F['NOT_RUNNING']}}.get(act, set())
    # a transport error (socket.error / ProtocolError, 401 included) ends the command: nothing may be
    # sent to the server after it (4ba7a04: the action used to be run a second time after a 401)
    for k, e in enumerate(used):
        if e[0] in ('sock', 'proto') and len(r['calls']) > k + 1 and act not in ('open', 'restart'):
            _direct(chk, dict(meta, kind='the command went on calling the server after a transport error / HTTP %s '
                              '(targets processed and reported twice)' % (e[1],), calls_after=r['calls'][k + 1:]))
            break
    bad = [e for e in served[:len(r['served'])] if e[0] in ('sock', 'proto') or (e[0] == 'fault' and e[1] not in ok_codes)]
    if not bad:
        return
    if act in ('open', 'fg'):
        return   # do_open restores the previous exit status by design (TODO in the source); fg is interactive
                 # and outside the property's list of actions (its exit 0 on a fault is a note in known.d)
    has_err = any(l[0] == 'err' or (l[0] == 'text' and ('ERROR' in l[1] or 'error' in l[1].lower() or 'refused connection' in l[1]
                                                      or 'no such file' in l[1] or 'Sorry' in l[1] or 'No such process' in l[1]
                                                      or 'requires authentication' in l[1]
                                                      or any(l[1] == b[2] for b in bad if b[0] == 'fault')))
                  for l in lines)
    if r['status'] == 0 or not has_err:
        _direct(chk, dict(meta, kind='a server fault or transport error passed silently',
                          bad_answers=bad, has_error_line=has_err))


def coq_answer(H, a):
    k = a[0]
    if k == 'unit':
        return 'AnsOk'
    if k == 'fault':
        return 'AnsFault %s %s' % (H.cz(a[1]), H.cs(a[2]))
    if k == 'results':
        return 'AnsResults %s' % H.clist(H.coq_presult(x) for x in a[1])
    raise ValueError(a)


def monitor_term(H, act, names, answers, lines, status, sig, calls):
    def ans(a):
        k = a[0]
        if k == 'unit':
            return 'AnsOk'
        if k == 'fault':
            return 'AnsFault %s %s' % (H.cz(a[1]), H.cs(a[2]))
        if k == 'results':
            return 'AnsResults %s' % H.clist(H.coq_presult(x) for x in a[1])
        raise ValueError(a)
    return '(mkmon %s %s %s %s %s %s %s)' % (
        {'start': 'Start', 'stop': 'Stop', 'signal': 'Signal', 'clear': 'Clear'}[act],
        H.clist(H.cs(n) for n in names), H.clist(ans(a) for a in answers),
        H.clist(H.coq_line(l) for l in lines), H.cz(status), H.cs(sig), H.clist(H.coq_call(x) for x in calls))


def judge_main(chk):
    """One-shot mode: `supervisorctl <action> <args>` = main(): prints what onecmd prints and
    calls sys.exit(Controller.exitstatus).  The real main() (real option parsing) and onecmd are run on
    the same words and script and must agree; the exit code must be an int, 0 only if onecmd's is 0."""
    import c20_proxy as H
    F = faults()
    up = up_ok()
    info = ['infos', INFO_SETS[3]]
    pairs = [
        ('start a b', [up, ['unit'], ['unit']]), ('start a b', [up, ['fault', F['ALREADY_STARTED'], 'x'], ['unit']]),
        ('start a b', [up, ['fault', F['SPAWN_ERROR'], 'x'], ['unit']]), ('start a b', [up, ['fault', 99, 'x'], ['unit']]),
        ('start g:* b', [up, ['fault', F['SHUTDOWN_STATE'], 'S'], ['unit']]), ('start', [up]),
        ('stop a', [up, ['fault', F['NOT_RUNNING'], 'x']]), ('stop all', [up, ['results', [res('p', 'g', F['FAILED'])]]]),
        ('restart a', [up, up, ['unit'], up, ['fault', F['ABNORMAL_TERMINATION'], 'x']]),
        ('signal HUP a', [up, ['fault', F['BAD_SIGNAL'], 'x']]), ('signal', [up]),
        ('clear a b', [up, ['unit'], ['fault', F['FAILED'], 'x']]),
        ('status', [up, info]), ('status zz', [up, info]), ('status a', [up, info]), ('status g:q', [up, info]),
        ('status', [['sock', 111, 'Connection refused']]), ('status', [['sock', 2, 'nf']]), ('status', [['str', '1.0']]),
        ('status', [['proto', 401, 'Unauthorized']]), ('status', [['sock', 104, 'reset']]),
        ('pid', [up, ['int', 77]]), ('pid a', [up, ['info', ['a', 'a', 0, 'STOPPED', '', 0]]]),
        ('pid all', [up, info]), ('pid a', [up, ['fault', F['BAD_NAME'], 'x']]),
        ('add a', [['fault', F['ALREADY_ADDED'], 'x']]), ('add a', [['fault', F['BAD_NAME'], 'x']]),
        ('remove a', [['fault', F['STILL_RUNNING'], 'x']]), ('update', [['reload', [], [], []]]),
        ('update zz', [['reload', ['n'], [], []], info, ['unit']]), ('reread', [['reload', ['a'], ['b'], []]]),
        ('reread', [['fault', F['CANT_REREAD'], 'CANT_REREAD: bad file']]), ('avail', [['cinfos', []]]),
        ('shutdown', [['fault', F['SHUTDOWN_STATE'], 'x']]), ('shutdown', [['sock', 111, 'r']]), ('shutdown', [['unit']]),
        ('reload', [['fault', F['SHUTDOWN_STATE'], 'x']]), ('version', [up, ['str', '4.3.0']]), ('version x', []),
        ('tail a', [up, ['str', 'log\n']]), ('tail -0 a', [up, ['fault', F['BAD_NAME'], 'x']]),
        ('tail -5 a stderr', [up, ['fault', F['NO_FILE'], 'x']]), ('maintail -9', [up, ['fault', F['FAILED'], 'x']]),
        ('maintail', [['proto', 401, 'Unauthorized']]), ('foo', []), ('open ftp://x', []),
    ]
    # an action on the command line together with -i / --interactive (stdin at EOF): the unchanged main()
    # tests options.args first, so the action runs exactly as in one-shot mode and main() exits with its status
    with_i = [('-i', 'stop BAD_NAME', [up, ['fault', F['BAD_NAME'], 'BAD_NAME: BAD_NAME']]),
              ('-i', 'bogusaction', []), ('--interactive', 'start a', [up, ['fault', F['SPAWN_ERROR'], 'x']]),
              ('-i', 'status', [up, info]), ('-i', 'status zz', [up, info]), ('--interactive', 'pid a b', [up, ['info', ['a', 'a', 20, 'R', '', 0]],
                                                                                                           ['fault', F['BAD_NAME'], 'x']]),
              ('-i', 'start a b', [up, ['unit'], ['unit']]), ('-i', 'status', [['sock', 111, 'Connection refused']]),
              ('-i', 'tail -0 a', [up, ['fault', F['NO_FILE'], 'x']]), ('--interactive', 'add a', [['fault', F['BAD_NAME'], 'x']]),
              ('-i', 'version', [['str', '4.0']])]
    n = 0
    main_terms, main_metas = [], []
    for flag, line, script in [(None, l, s) for l, s in pairs] + with_i:
        a = H.run_real(line, script)
        b = H.run_main(([flag] if flag else []) + line.split(), script, stdin_text='')
        n += 1
        chk.dist('family:main' if flag is None else 'family:main-i-with-action')
        try:
            main_terms.append('(mkmain %s %s %s %s %s %s)' % (
                H.cs(H.DEFAULT_URL), H.clist(H.cs(w) for w in line.split()), H.clist(H.coq_resp(x) for x in script),
                H.clist(H.coq_line(l) for l in H.canon_lines(b['msgs'])),
                H.cz(b['exit_code'] if type(b['exit_code']) is int else -1), H.clist(H.coq_call(x) for x in b['calls'])))
            main_metas.append({'line': ((flag + ' ') if flag else '') + line, 'script': script, 'printed': b['msgs'],
                               'exit_code': b['exit_code'], 'calls': b['calls']})
        except ValueError:
            pass
        ok = (b['escaped'] is None and a['escaped'] is None and b['msgs'] == a['msgs'] and b['calls'] == a['calls']
              and type(b['exit_code']) is int and b['exit_code'] == a['status'])
        if not ok:
            _direct(chk, {'kind': 'main() with an action on the command line%s does not run the action once and exit with '
                                  'Controller.exitstatus (lines / status / calls of onecmd for the same command)'
                                  % (' and %s' % flag if flag else ''),
                          'line': ((flag + ' ') if flag else '') + line, 'script': script,
                          'onecmd': {'printed': a['msgs'], 'exitstatus': a['status'], 'calls': a['calls']},
                          'main': {'printed': b['msgs'], 'exit_code': b['exit_code'], 'calls': b['calls'],
                                   'escaped': b['escaped']}})
    # interactive mode (-i, commands read from stdin): same lines, exit status always 0
    import io
    import sys
    from supervisor import supervisorctl
    from supervisor.options import ClientOptions
    for typed, script in [('start a', [up, info, up, ['fault', F['SPAWN_ERROR'], 'x']]),
                          ('stop a b', [up, info, up, ['unit'], ['fault', F['BAD_NAME'], 'x']]),
                          ('status zz', [['sock', 111, 'Connection refused'], ['sock', 111, 'Connection refused']])]:
        srv = H.ScriptedServer(script)

        class Opts(ClientOptions):
            def getServerProxy(self):
                return H._Proxy(srv)
        out = H._Out()
        old = (sys.stdout, sys.stdin)
        code = 'no exit'
        try:
            sys.stdout, sys.stdin = out, io.StringIO(typed + '\n')
            try:
                supervisorctl.main(args=['-s', H.DEFAULT_URL, '-i'], options=Opts())
            except SystemExit as e:
                code = e.code
        finally:
            sys.stdout, sys.stdin = old
        n_first = 2 if script[0] == up else 1
        a = H.run_real('status', script[:n_first])
        b = H.run_real(typed, script[n_first:])
        got = [m for m in out.msgs if m != 'supervisor> ']
        n += 1
        chk.dist('family:main-interactive')
        if code != 0 or got != a['msgs'] + b['msgs'] + ['\n']:
            _direct(chk, {'kind': 'interactive mode: the shell does not print what onecmd prints for the same commands, or '
                                  'does not exit with status 0', 'line': typed, 'script': script,
                          'printed': out.msgs, 'exit_code': code, 'expected': a['msgs'] + b['msgs'] + ['\n']})
    n += judge_plugins(chk, pairs)
    chk._c20_main = (main_terms, main_metas)
    return n


def judge_real_transport(chk):
    """Several targets with names of different lengths over the REAL SupervisorTransport (one persistent
    connection per proxy, Content-Length per request) against a threaded HTTP XML-RPC server: every target
    gets its own result line, worded after the server's answer for it, and the server receives every call."""
    import c20_proxy as H
    F = faults()
    short, long_ = 'a', 'a_much_longer_process_name_0123456789'
    cmds = []
    for x, y in ((short, long_), (long_, short)):
        cmds += [('stop %s %s' % (x, y), 'stopProcess', '%s: stopped'), ('start %s %s' % (x, y), 'startProcess', '%s: started'),
                 ('signal HUP %s %s' % (x, y), 'signalProcess', '%s: signalled'), ('clear %s %s' % (x, y), 'clearProcessLogs', '%s: cleared'),
                 ('add %s %s' % (x, y), 'addProcessGroup', '%s: added process group'),
                 ('remove %s %s' % (x, y), 'removeProcessGroup', '%s: removed process group'),
                 ('pid %s %s' % (x, y), 'getProcessInfo', None)]
    n = 0
    for line, method, tmpl in cmds:
        for fault_on in (None, 'second'):
            names = line.split()[-2:]
            flt = {}
            if fault_on and method in ('stopProcess', 'startProcess', 'signalProcess', 'clearProcessLogs', 'getProcessInfo'):
                flt = {names[1]: (F['BAD_NAME'], 'BAD_NAME: %s' % names[1])}
            elif fault_on:
                continue
            with H.RealHttpServer(flt) as srv:
                r = H.run_real_transport(line, srv)
                got_calls = [(m.split('.', 1)[-1], p[0] if p else None) for m, p in srv.calls if not m.endswith('getVersion')]
            n += 1
            chk.dist('family:real-transport')
            exp_calls = [(method, nm) for nm in names]
            exp = []
            for nm in names:
                if nm in flt:
                    exp.append('No such process %s\n' % nm if method == 'getProcessInfo' else '%s: ERROR (no such process)\n' % nm)
                else:
                    exp.append('77\n' if tmpl is None else (tmpl % nm) + '\n')
            exp_status = 1 if flt else 0
            if r['escaped'] or r['msgs'] != exp or r['status'] != exp_status or got_calls != exp_calls:
                _direct(chk, {'kind': 'real SupervisorTransport against a threaded HTTP server: with several targets of different '
                                      'name lengths every target must get its own result line and the server must receive every call',
                              'line': line, 'script': {'server_faults': flt}, 'printed': r['msgs'], 'exitstatus': r['status'],
                              'escaped': r['escaped'], 'calls_received_by_server': got_calls,
                              'expected_lines': exp, 'expected_status': exp_status, 'expected_calls': exp_calls})
    return n


def judge_plugins(chk, pairs):
    """A client configuration with one and with two extra [ctlplugin:*] sections (real ClientOptions
    realized from a temporary file; factories in harness/c20_plugins.py): built-in actions behave exactly
    as without plugins - also one that a later plugin defines too -, the plugins' own commands are found,
    and a command defined by two plugins resolves to the FIRST plugin in configuration order."""
    import c20_proxy as H
    n = 0
    with vlib.WorkDir('c20cfg') as wd:
        for k in (1, 2):
            cfg = H.plugin_config(wd, k)
            for line, script in pairs:
                a = H.run_real(line, script)
                for mode in ('onecmd', 'main'):
                    if mode == 'onecmd':
                        b = H.run_real_configured(line, script, cfg)
                        same = b['msgs'] == a['msgs'] and b['status'] == a['status'] and b['calls'] == a['calls']
                    else:
                        b = H.run_main(line.split(), script, config_path=cfg)
                        same = b['msgs'] == a['msgs'] and b['exit_code'] == a['status'] and b['calls'] == a['calls']
                    n += 1
                    chk.dist('family:plugins-%d' % k)
                    if not same or b['escaped'] is not None:
                        _direct(chk, {'kind': 'with %d extra ctlplugin section(s) in the client configuration a built-in '
                                              'action no longer behaves as without plugins (%s)' % (k, mode),
                                      'line': line, 'script': script, 'config': open(cfg).read(),
                                      'without_plugins': {'printed': a['msgs'], 'exitstatus': a['status'], 'calls': a['calls']},
                                      'with_plugins': {k2: b.get(k2) for k2 in ('msgs', 'status', 'exit_code', 'calls', 'escaped')}})
            expect = [('xcmd foo bar', ['x:xcmd foo bar\n'], 0), ('shared z', ['x:shared z\n'], 0)]
            if k == 2:
                expect += [('ycmd', ['y:ycmd \n'], 3)]
            else:
                expect += [('ycmd', ['*** Unknown syntax: ycmd\n'], 1)]
            for line, msgs, status in expect:
                b = H.run_real_configured(line, [], cfg)
                m = H.run_main(line.split(), [], config_path=cfg)
                n += 1
                chk.dist('family:plugins-%d' % k)
                if b['msgs'] != msgs or b['status'] != status or b['calls'] or m['msgs'] != msgs or m['exit_code'] != status:
                    _direct(chk, {'kind': 'plugin command resolution with %d extra ctlplugin(s): a command is looked up on the '
                                          'Controller, then on the plugins in configuration order, the FIRST one defining it wins'
                                          % k, 'line': line, 'script': [], 'config': open(cfg).read(),
                                  'expected': {'printed': msgs, 'exitstatus': status},
                                  'onecmd': {'printed': b['msgs'], 'exitstatus': b['status'], 'plugins': b.get('plugins')},
                                  'main': {'printed': m['msgs'], 'exit_code': m['exit_code']}})
    return n


def build_cases(chk):
    cs = Cases(chk)
    quick = chk.tier == 'quick'
    corpus = os.path.join(vlib.VERIF, 'corpus', 'C20')
    if os.path.isdir(corpus):
        for f in sorted(os.listdir(corpus)):
            if f.endswith('.json'):
                with open(os.path.join(corpus, f)) as fh:
                    o = json.load(fh)
                cs.add(o['line'], o['script'], 'corpus', url=o.get('url'))
    gen_targets(cs, quick)
    gen_simple_names(cs, quick)
    gen_restart(cs, quick)
    gen_status(cs, quick)
    gen_single_call(cs, quick)
    for line in MALFORMED:
        cs.add(line, [up_ok()], 'malformed', responder=OkResponder())
    gen_tail(cs, quick)
    gen_fg(cs, quick)
    gen_more_forms(cs, quick)
    gen_server_states(cs, quick)
    n_exh = len(cs.cases)
    gen_random(cs, chk, 2000 if quick else 60000)
    return cs.cases, n_exh


def _generator():
    import importlib.util
    spec = importlib.util.spec_from_file_location('c20_ctl_gen', os.path.join(vlib.VERIF, 'gen', 'c20_ctl.py'))
    mod = importlib.util.module_from_spec(spec)
    spec.loader.exec_module(mod)
    return mod.generate


def run(chk, only=None):
    proved = chk.prove('props/C20.v', gens=[_generator()])
    with vlib.WorkDir('c20') as wd:
        _run(chk, wd, proved, only)


MONITORS = {
    'restart': ('restart_mon_case', 'restart_monitor_ok',
                'restart: the lines, the exit status or the calls are not those of stop followed by start for the answers '
                'the server gave (one result line per target and phase, worded after the answer for that target)'),
    'status_lines': ('status_lines_case', 'status_lines_ok',
                     'status: not exactly one ERROR line per name that matched nothing followed by one line per selected '
                     'process carrying that process\'s namespec, state name and description'),
    'targets': ('mon_case', 'monitor_ok',
                'the implementation violates the C20 specification monitor (exit status / never silent / one expected '
                'result line per target, worded after the answer for THAT target)'),
    'status': ('status_mon_case', 'status_monitor_ok',
               'status exits with a status other than the specified one (3 when a shown process is stopped, else 4 when '
               'a name matched nothing, else 0)'),
    'tail': ('tail_mon_case', 'tail_monitor_ok',
             'tail/maintail: the read call, the printed text or the exit status differ from the specification (last N bytes '
             'of the named log: readProcessStdoutLog/StderrLog/readLog(name, -N, 0), N = 0 the whole log; only -f follows; '
             'NO_FILE / FAILED / BAD_NAME worded as ERROR lines, exit 1)'),
}


def run_monitors(chk, wd, mons):
    """the specification monitors of CtlSpec.v on the implementation's own output;
    returns the (line, script) keys of the rejected runs"""
    import c20_proxy as H
    rejected = set()
    total = 0
    for name in ('targets', 'restart', 'status', 'status_lines', 'tail'):
        terms, metas = mons[name]
        ctype, fn, kind = MONITORS[name]
        total += len(terms)
        bad, errs = H.compare(vlib, IMPORTS, ctype, fn, terms, wd, 'mon_' + name, PREAMBLE)
        for e in errs:
            chk.violation({'kind': '%s monitor evaluation failed' % name, 'error': e}, nofail=True)
        seen_lines = set()
        for i in bad:
            if metas[i]['line'] in seen_lines or len(seen_lines) >= 5:
                continue
            seen_lines.add(metas[i]['line'])
            chk.violation(dict(metas[i], kind=kind, coq_case=terms[i][:3000]))
        rejected |= set(json.dumps([metas[i]['line'], metas[i]['script']]) for i in bad)
    return rejected, total


def _run(chk, wd, proved, only):
    if getattr(chk, 'proof_failure', None) and 'translator' in chk.proof_failure:
        # the tables could not be regenerated, so the model cannot be evaluated against this
        # tree; the specification monitors (hand-written, CtlSpec.v) can still judge the
        # implementation's own output: look for a concrete failing input
        rejected = set()
        ok, _log = vlib.coq_make(['C20/CtlSpec.vo'])
        if ok:
            cs = Cases(chk)
            gen_targets(cs, True)
            gen_status(cs, True)
            gen_tail(cs, True)
            _t, _m, mons, _d = run_cases(chk, cs.cases, wd)
            rejected, total = run_monitors(chk, wd, mons)
            chk.coverage['evaluations'] = total
        chk.violation({'kind': 'translator rejected the current source (fail closed)', 'detail': chk.proof_failure},
                      nofail=not (rejected or direct_failures(chk)))
        return
    if only is not None:
        cases, n_exh = only, len(only)
    else:
        cases, n_exh = build_cases(chk)
    terms, metas, mons, distinct = run_cases(chk, cases, wd)
    n_main = (judge_main(chk) + judge_real_transport(chk)) if only is None else 0
    # 1. model against implementation
    import c20_proxy as H
    bad, errs = H.compare(vlib, IMPORTS, 'ctl_case', 'check_case', terms, wd, 'corr', PREAMBLE)
    for e in errs:
        chk.violation({'kind': 'model evaluation failed', 'error': e}, nofail=True)
    if n_main:
        mt, mm = chk._c20_main
        mb, me = H.compare(vlib, IMPORTS, 'main_case', 'check_main_case', mt, wd, 'main', PREAMBLE)
        for e in me:
            chk.violation({'kind': 'model evaluation failed (main)', 'error': e}, nofail=True)
        for i in mb[:3]:
            chk.violation(dict(mm[i], kind='main(): model (Ctl.main_run) and implementation disagree'),
                          nofail=not direct_failures(chk))
    # 2. specification monitors on the implementation's own output
    rejected, n_mon = run_monitors(chk, wd, mons)
    shown = 0
    shown_lines = set()
    for i in bad:
        m = metas[i]
        if json.dumps([m['line'], m['script']]) in rejected or m['line'] in shown_lines:
            continue    # already reported with a failing input / same command line
        shown_lines.add(m['line'])
        if shown < 5:
            chk.violation(dict(m, kind='model and implementation disagree',
                               coq_case=terms[i][:3000],
                               explanation='the Coq model of supervisorctl (about which the C20 theorems are proved) prints '
                                           'different messages, exits with a different status or makes different RPC calls '
                                           'than the implementation on this command line and server script'),
                          nofail=not (rejected or direct_failures(chk)))
            shown += 1
    known = getattr(chk, '_c20_known_names', 0)
    if known:
        chk.known_finding('C20-names-fault-aborts',
                          'add / remove / pid with several names: a fault the action has no wording for (e.g. SHUTDOWN_STATE '
                          'from removeProcessGroup or getProcessInfo) for one name ends the whole command with one "error: '
                          '<class Fault>" line, exit 1; the remaining names are neither processed nor reported; %d such runs '
                          'explored, all agree with the model' % known)
    if not proved:
        chk.violation({'kind': 'proof obligation no longer checks', 'detail': chk.proof_failure,
                       'file': 'coq/props/C20.v'}, nofail=not [v for v in chk.violations if not v[1]])
    cov = chk.coverage
    cov['evaluations'] = len(terms) + n_mon + n_main
    cov['traces_validated_against_impl'] = len(terms)
    cov['distinct_nontrivial'] = len([d for d in distinct if d[1] or d[2] != 0])
    cov['exhaustive'] = True
    cov['rule'] = ('exhaustive part (%d runs): every xmlrpc.Faults code plus %d unknown codes x start/stop/signal/clear/add/remove/pid '
                   'x name lists up to 3 names (1 and 2 names: all codes x all codes; 3 names: %s), group and `all` forms with mixed '
                   'per-process result lists, restart, status name matching over %d process tables, every one-call action x every code, '
                   'every action x 13 server states at the first call, transport errors and odd faults injected at every call position; '
                   'then %d random command lines against a typed random responder (valid and hostile streams). distinct = distinct '
                   '(action, kinds of printed lines, exit status, number of RPC calls) with at least one printed line or a non-zero '
                   'status' % (n_exh, len(UNKNOWN_CODES),
                               'one position full x 3 representative codes elsewhere' if chk.tier == 'quick' else 'full cube',
                               len(INFO_SETS), len(terms) - n_exh if only is None else 0))
    cov['samples'] = [{k: m[k] for k in ('line', 'script', 'printed', 'exitstatus')} for m in metas[:1] + metas[2000:2002] + metas[-2:]]
    cov['monitor_cases'] = n_mon
    cov['known_finding_runs'] = known


def replay(chk, path):
    with open(path) as f:
        obj = json.load(f)
    print(json.dumps(obj, indent=1)[:4000])
    if 'line' in obj and 'script' in obj:
        case = {'line': obj['line'], 'script': obj['script'], 'url': obj.get('url'), 'fam': 'corpus',
                'responder': None, 'targets': None, 'tail': None}
        run(chk, only=[case])
    else:
        run(chk)
