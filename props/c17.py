"""C17 - with authentication configured, no request is served without valid
credentials.

Theorems: coq/props/C17.v over coq/C17/Auth.v (+ Gen_http.v regenerated from the
AST of make_http_servers / the AUTHORIZATION regex / the authorizer constants).

Correspondence: the REAL servers built by make_http_servers (unix socket under
the work directory + inet on 127.0.0.1), configs read by the real config parser,
driven over the sockets with the medusa asyncore map polled in-process.  For
every raw request the harness records what the dispatch loop saw, whether an
inner handler ran, every access to the supervisord object, the process/RPC call
logs and the bytes returned; Coq evaluates the model on the same request block
with the observed match() answers and the real base64/sha1 results as oracles
and compares decision and effects.  Independently of the model, a monitor
judges every exchange against the property itself (an inner handler ran =>
the raw request contains a Basic credential for exactly the configured user
and an acceptable password; refused => no side effect, no log byte returned).
"""
import base64
import contextlib
import hashlib
import io
import json
import os
import re
import sys

import vlib
from vlib import zlist, coq_list

LEVEL = 'proof'
IMPORTS = ['SV.C17.Gen_http', 'SV.C17.Auth']

CASE_T = 'case'
PARSE_T = 'parse_case'


def _gen():
    import c17_http
    return c17_http.generate()


def slit(s):
    return zlist([ord(ch) for ch in s])


# ----------------------------------------------------------------- requests

PATHS = [
    '/RPC2', '/RPC2/', '/RPC2x', '/RPC2?x=1', '/RPC2#frag', '/%52PC2', '/rpc2', '//RPC2', '/./RPC2',
    '/logtail/g:p', '/logtail/g%3Ap/stdout', '/logtail/g:p/stderr', '/logtail', '/logtail/', '/logtail/nosuch',
    '/LOGTAIL/g:p', '/%6cogtail/g:p', '/logtail/../mainlogtail',
    '/mainlogtail', '/mainlogtail?x', '/MainLogTail', '/mainlogtail/extra', '/%6dainlogtail',
    '/', '/index.html', '/index.html?action=stop&processname=g:p', '/?action=restart&processname=g:p',
    '/index.html?action=clearlog&processname=g:p', '/?action=stopall', '/tail.html?processname=g:p',
    '/ok.html', '/INDEX.HTML', '/index.html;params', '/%69ndex.html',
    '/stylesheets/supervisor.css', '/images/icon.png', '/images/', '/status.html', '/tail.html',
    '/nonexistent', '/../../../../etc/passwd', '/%2e%2e/%2e%2e/etc/passwd', '*', 'http://localhost/RPC2',
    '/a;b?c#d', '/a#\nb', '/\xe9', '/%ff%fe',
]
METHODS = ['GET', 'POST', 'HEAD', 'PUT', 'DELETE', 'OPTIONS', 'get', 'G@T']
VERSIONS = [' HTTP/1.0', ' HTTP/1.1', '', ' HTTP/2.0', ' HTTP/1.1x', ' HTTP/', '  HTTP/1.1']


def b64(s):
    if isinstance(s, str):
        s = s.encode('utf-8')
    return base64.b64encode(s).decode('ascii')


def auth_values(user, plain, stored):
    """(class, list of header lines) - every Authorization class of the property text."""
    good = b64(user + ':' + plain)
    out = [
        ('absent', []),
        ('good', ['Authorization: Basic ' + good]),
        ('good:lowercase-scheme', ['Authorization: basic ' + good]),
        ('good:uppercase-all', ['AUTHORIZATION: BASIC ' + good]),
        ('good:mixed', ['aUtHoRiZaTiOn: bAsIc ' + good]),
        ('good:dotted-I-U+0130', [u'Authorİzation: Basic ' + good]),
        ('good:dotless-i-U+0131', [u'Authorızatıon: Basic ' + good]),
        ('good:two-spaces', ['Authorization: Basic  ' + good]),
        ('good:newlines-in-cookie', ['Authorization: Basic ' + good[:4] + '!' + good[4:]]),
        ('good:then-bad', ['Authorization: Basic ' + good, 'Authorization: Basic ' + b64(user + ':x')]),
        ('bad:then-good', ['Authorization: Basic ' + b64(user + ':x'), 'Authorization: Basic ' + good]),
        ('good:after-unmatched', ['Authorization: Basic', 'Authorization: Basic ' + good]),
        ('scheme:digest', ['Authorization: Digest username="%s"' % user]),
        ('scheme:bearer-good-cookie', ['Authorization: Bearer ' + good]),
        ('scheme:basicx', ['Authorization: Basicx ' + good]),
        ('scheme:basi', ['Authorization: Basi ' + good]),
        ('scheme:long-s', [u'Authorization: Baſic ' + good]),
        ('scheme:kelvin', [u'Authorization: Kasic ' + good]),
        ('scheme:only', ['Authorization: Basic']),
        ('scheme:empty-cookie', ['Authorization: Basic ']),
        ('name:no-space', ['Authorization:Basic ' + good]),
        ('name:space-before-colon', ['Authorization : Basic ' + good]),
        ('name:proxy', ['Proxy-Authorization: Basic ' + good]),
        ('name:prefixed', ['X: Authorization: Basic ' + good]),
        ('fold:tab-good', ['Authorization: Basic ' + good[:7], '\t' + good[7:]]),
        ('fold:space-good', ['Authorization: Basic ' + good[:5], ' ' + good[5:]]),
        ('fold:good-after-blank-value', ['Authorization: Basic ', '\t' + good]),
        ('fold:good-plus-extra-tab', ['Authorization: Basic ' + good, '\tZZ']),
        ('fold:good-plus-extra-space', ['Authorization: Basic ' + good, ' QUJD']),
        ('fold:wrong-then-rest', ['Authorization: Basic ' + b64(user + ':' + plain + 'zz')[:6], '\t' + b64(user + ':' + plain + 'zz')[6:]]),
        ('fold:good-then-other-header-fold', ['Authorization: Basic ' + good, 'X-A: b', '\tc']),
        ('decoy:x-forwarded-authorization', ['X-Forwarded-Authorization: Basic ' + good]),
        ('decoy:www-authorization', ['WWW-Authorization: Basic ' + good]),
        ('decoy:note', ['X-Note: Authorization: Basic ' + good]),
        ('decoy:note-no-blank', ['X-Note:Authorization: Basic ' + good]),
        ('decoy:after-wrong-real', ['Authorization: Basic ' + b64(user + ':nope'), 'Proxy-Authorization: Basic ' + good]),
        ('decoy:before-absent-real', ['Cookie: a=b; Authorization: Basic ' + good, 'Host: x']),
        ('decoy:unicode-name', [u'X\xe9-Authorization: Basic ' + good]),
        ('name:continuation-of-previous', ['X-Foo: bar', '\tAuthorization: Basic ' + good]),
        ('name:leading-space-first-header', [' Authorization: Basic ' + good]),
        ('cookie:lf-inside', ['Authorization: Basic ' + good + '\nX']),
        ('cookie:cr-inside', ['Authorization: Basic ' + good + '\rX']),
        ('b64:garbage', ['Authorization: Basic !!!!']),
        ('b64:bad-padding', ['Authorization: Basic QQ']),
        ('b64:one-char', ['Authorization: Basic Q']),
        ('b64:not-utf8', ['Authorization: Basic ' + b64(b'\xff\xfe:x')]),
        ('b64:truncated-good', ['Authorization: Basic ' + good[:-1]]),
        ('b64:truncated-good-2', ['Authorization: Basic ' + good[:-3]]),
        ('nocolon:user', ['Authorization: Basic ' + b64(user)]),
        ('nocolon:user+password', ['Authorization: Basic ' + b64(user + plain)]),
        ('nocolon:empty', ['Authorization: Basic ' + b64('')]),
        ('empty:user', ['Authorization: Basic ' + b64(':' + plain)]),
        ('empty:password', ['Authorization: Basic ' + b64(user + ':')]),
        ('empty:both', ['Authorization: Basic ' + b64(':')]),
        ('wrong:password-prefix', ['Authorization: Basic ' + b64(user + ':' + plain[:-1])]),
        ('wrong:password-first-char', ['Authorization: Basic ' + b64(user + ':' + plain[:1])]),
        ('wrong:password-extended', ['Authorization: Basic ' + b64(user + ':' + plain + 'x')]),
        ('wrong:password-extended-colon', ['Authorization: Basic ' + b64(user + ':' + plain + ':x')]),
        ('wrong:password-extended-nul', ['Authorization: Basic ' + b64(user + ':' + plain + '\x00')]),
        ('wrong:password-extended-nl', ['Authorization: Basic ' + b64(user + ':' + plain + '\n')]),
        ('wrong:password-leading-space', ['Authorization: Basic ' + b64(user + ': ' + plain)]),
        ('wrong:password-case', ['Authorization: Basic ' + b64(user + ':' + plain.swapcase())]),
        ('wrong:user-prefix', ['Authorization: Basic ' + b64(user[:-1] + ':' + plain)]),
        ('wrong:user-extended', ['Authorization: Basic ' + b64(user + 'x:' + plain)]),
        ('wrong:user-case', ['Authorization: Basic ' + b64(user.swapcase() + ':' + plain)]),
        ('wrong:swapped', ['Authorization: Basic ' + b64(plain + ':' + user)]),
        ('sha:stored-string-as-password', ['Authorization: Basic ' + b64(user + ':' + stored)]),
        ('sha:digest-as-password', ['Authorization: Basic ' + b64(user + ':' + hashlib.sha1(plain.encode()).hexdigest())]),
        ('sha:prefix-only', ['Authorization: Basic ' + b64(user + ':{SHA}')]),
        ('nonascii:decoded', ['Authorization: Basic ' + b64(u'\xfc:\xfc')]),
        ('nonascii:password-suffix', ['Authorization: Basic ' + b64(user + ':' + plain + u'\xe9')]),
        ('nonascii:raw-cookie', [u'Authorization: Basic \xfc€']),
        ('nonascii:raw-scheme', [u'Authorization: B\xe4sic ' + good]),
    ]
    return out


PIPE_CLASSES = ('b64:garbage', 'b64:bad-padding', 'b64:not-utf8', 'nocolon:user', 'absent', 'wrong:password-prefix',
                'scheme:digest', 'wrong:user-extended')

OVERSIZED = [
    ('oversized:cookie-A', lambda u, p: ['Authorization: Basic ' + 'A' * 9000]),
    ('oversized:password-extension', lambda u, p: ['Authorization: Basic ' + b64(u + ':' + p + 'x' * 6000)]),
    ('oversized:user', lambda u, p: ['Authorization: Basic ' + b64('u' * 6000 + ':' + p)]),
    ('oversized:many-headers', lambda u, p: ['X-%d: y' % i for i in range(300)]),
    ('oversized:scheme', lambda u, p: ['Authorization: ' + 'B' * 8000 + ' ' + b64(u + ':' + p)]),
]


def rpc_body(method, *params):
    import xmlrpc.client
    return xmlrpc.client.dumps(tuple(params), method).encode('utf-8')


def build_request(method, path, version, hdr_lines, body=b'', extra=()):
    lines = ['%s %s%s' % (method, path, version)] + list(extra) + list(hdr_lines)
    if body:
        lines.append('Content-Length: %d' % len(body))
    return '\r\n'.join(lines).encode('utf-8') + b'\r\n\r\n' + body


KEY_PATHS = ['/RPC2', '/%52PC2', '/logtail/g:p', '/logtail/g%3Ap/stdout', '/mainlogtail', '/MainLogTail', '/',
             '/index.html?action=stop&processname=g:p', '/tail.html?processname=g:p', '/stylesheets/supervisor.css',
             '/nonexistent', '/%2e%2e/%2e%2e/etc/passwd']


def gen_requests(chk, user, plain, stored, full):
    """List of (tags, raw bytes, pipelined?).  `full`: the whole product and the
    method/version sweep (first configuration); otherwise the key paths."""
    rng = chk.rng
    auths = auth_values(user, plain, stored)
    out = []
    bodies = {
        '/RPC2': [rpc_body('rec.kill', 'g:p'), rpc_body('supervisor.stopProcess', 'g:p'),
                  rpc_body('supervisor.readLog', 0, 0), rpc_body('supervisor.getState')],
    }
    # 1. exhaustive product: every path x every Authorization class
    for path in (PATHS if full else KEY_PATHS):
        for cls, hl in auths:
            if path.startswith('/RPC2') or path in ('/%52PC2',):
                method, body = 'POST', rng.choice(bodies['/RPC2'])
            else:
                method, body = 'GET', b''
            version = ' HTTP/1.1' if rng.random() < 0.5 else ' HTTP/1.0'
            extra = []
            r = rng.random()
            if r < 0.2:
                extra.append('Connection: close')
            elif r < 0.4:
                extra.append('Connection: keep-alive')
            if rng.random() < 0.3:
                extra.append('Host: localhost')
            out.append((('product', path, cls, method, version.strip()),
                        build_request(method, path, version, hl, body, extra), False))
    n_product = len(out)
    # 2. every method x version x a few paths x a few classes
    some_auth = [a for a in auths if a[0] in ('absent', 'good', 'b64:bad-padding', 'nocolon:user',
                                             'wrong:password-prefix')]
    if full:
        for method in METHODS:
            for version in VERSIONS:
                for path in ('/RPC2', '/logtail/g:p', '/', '/stylesheets/supervisor.css', '/nonexistent/x'):
                    for cls, hl in some_auth:
                        body = rpc_body('rec.kill', 'x') if method in ('POST', 'PUT') else b''
                        out.append((('methods', path, cls, method, version.strip()),
                                    build_request(method, path, version, hl, body), False))
    # 3. oversized
    for cls, f in OVERSIZED:
        for path in (('/RPC2', '/mainlogtail') if full else ('/RPC2',)):
            out.append((('oversized', path, cls, 'GET', 'HTTP/1.1'),
                        build_request('GET', path, ' HTTP/1.1', f(user, plain)), False))
    # 4. framing oddities
    good = 'Authorization: Basic ' + b64(user + ':' + plain)
    g = good.encode('utf-8')
    odd = [
        b'\r\n\r\n', b'\r\nGET /mainlogtail HTTP/1.0\r\n\r\n', b'GET /mainlogtail HTTP/1.0\r\n' + g + b'\r\n\r\n',
        b'\r\n\r\nGET /mainlogtail HTTP/1.0\r\n' + g + b'\r\n\r\n',
        b'\r\n\r\nGET /mainlogtail HTTP/1.0\r\n\r\n',
        b'GET\r\n\r\n', b'GET /mainlogtail\r\n\r\n', b'GET /mainlogtail\r\n' + g + b'\r\n\r\n',
        b'GET /mainlogtail HTTP/1.0\n' + g + b'\n\n\r\n\r\n',
        b'GET /mainlogtail HTTP/1.0\r\nAuthorization: Basic \xff\xfe\r\n\r\n',
        b'GET /\xff HTTP/1.0\r\n\r\n', b'\xff\r\n\r\n',
        b'GET /mainlogtail HTTP/1.0\r\n\r' + g + b'\r\n\r\n',
        b'GET /mainlogtail HTTP/1.0\r\n: x\r\n' + g[:10] + b'\r\n\r\n',
        b'GET /mainlogtail HTTP/1.0\r\n' + g,                      # no terminator: nothing may happen
        b'GET /mainlogtail HTTP/1.0\r\n' + g + b'\r\n\r',
    ]
    for raw in odd:
        out.append((('framing', '-', '-', '-', '-'), raw, False))
    # 5. pipelined / smuggled second request (judged by the monitor only)
    inner_good = build_request('GET', '/mainlogtail', ' HTTP/1.1', [good])
    inner_bad = build_request('POST', '/RPC2', ' HTTP/1.1', [], rpc_body('rec.kill', 'smuggled'))
    for cls, hl in auths:
        if cls in PIPE_CLASSES:
            for inner in (inner_bad, inner_good):
                for version in (' HTTP/1.1', ' HTTP/1.0'):
                    raw = build_request('POST', '/RPC2', version, hl, b'',
                                        ['Content-Length: %d' % len(inner), 'Connection: keep-alive']) + inner
                    out.append((('pipelined', '/RPC2', cls, 'POST', version.strip()), raw, True))
    # 5b. keep-alive: a served request followed on the SAME connection by requests without / with wrong credentials
    first = build_request('GET', '/stylesheets/supervisor.css', ' HTTP/1.1', [good, 'Connection: keep-alive'])
    for cls, hl in auths:
        if cls in PIPE_CLASSES or cls in ('empty:password', 'wrong:password-extended'):
            for second in (build_request('GET', '/mainlogtail', ' HTTP/1.1', hl),
                           build_request('POST', '/RPC2', ' HTTP/1.1', hl, rpc_body('rec.kill', 'after-good')),
                           build_request('GET', '/index.html?action=stop&processname=g:p', ' HTTP/1.1', hl)):
                out.append((('keepalive-after-good', '-', cls, '-', 'HTTP/1.1'), first + second, True))
    # 5c. the request delivered in TWO segments, cut at every position of the Authorization line (the last header)
    #     and of the final blank line: what the server acts on must not depend on the cut.  Right credentials, and
    #     the right cookie followed by 1-3 extra characters (not a credential any more).
    if full:
        for cls, cookie in (('good', b64(user + ':' + plain)), ('b64:cookie+1', b64(user + ':' + plain) + 'Z'),
                            ('b64:cookie+2', b64(user + ':' + plain) + 'ZZ'), ('b64:cookie+3', b64(user + ':' + plain) + 'ZZZ'),
                            ('wrong:password-extended', b64(user + ':' + plain + 'x'))):
            raw = build_request('GET', '/stylesheets/supervisor.css', ' HTTP/1.1', ['Host: x', 'Authorization: Basic ' + cookie])
            start = raw.find(b'Authorization')
            for cut in range(start, len(raw)):
                out.append((('segmented', '/stylesheets/supervisor.css', cls, 'GET', 'HTTP/1.1'), raw, False, (cut,)))
            for cut2 in (len(raw) - 3, len(raw) - 1):
                out.append((('segmented', '/stylesheets/supervisor.css', cls, 'GET', 'HTTP/1.1'), raw, False,
                            (len(raw) - 5, cut2)))
    # 6. random structured + hostile mutations
    nrand = (700 if full else 250) if chk.tier == 'quick' else (12000 if full else 4000)
    for _ in range(nrand):
        path = rng.choice(PATHS)
        if rng.random() < 0.3:
            # percent-encode / case-flip random characters of the path
            chars = list(path)
            for i in range(len(chars)):
                r = rng.random()
                if r < 0.1 and ord(chars[i]) < 128:
                    chars[i] = '%%%02x' % ord(chars[i])
                elif r < 0.2:
                    chars[i] = chars[i].swapcase()
            path = ''.join(chars)
        cls, hl = rng.choice(auths)
        method = rng.choice(METHODS[:3]) if rng.random() < 0.8 else rng.choice(METHODS)
        version = rng.choice(VERSIONS[:2]) if rng.random() < 0.8 else rng.choice(VERSIONS)
        body = rng.choice(bodies['/RPC2']) if method == 'POST' else b''
        extra = [rng.choice(['Host: x', 'Connection: close', 'Connection: keep-alive', 'X-A: b', 'Accept: */*'])
                 for _ in range(rng.randrange(0, 3))]
        pos = rng.randrange(0, len(extra) + 1)
        lines = extra[:pos] + list(hl) + extra[pos:]
        raw = build_request(method, path, version, lines, body)
        kind = 'random'
        if rng.random() < 0.3:
            # hostile: mutate a few bytes of the header block
            kind = 'mutated'
            b = bytearray(raw)
            end = raw.find(b'\r\n\r\n')
            for _ in range(rng.randrange(1, 4)):
                i = rng.randrange(0, max(1, end))
                r = rng.random()
                if r < 0.3:
                    b[i] = rng.choice(b' \t\r\n:=%/\x00\x7f')
                elif r < 0.5:
                    b[i] = rng.randrange(256)
                elif r < 0.7:
                    del b[i]
                    end -= 1
                else:
                    b.insert(i, rng.choice(b' \t\r\n:Aa='))
                    end += 1
            raw = bytes(b)
        out.append(((kind, path, cls, method, version.strip()), raw, False))
    return out, n_product


# ------------------------------------------------------------ observation

AUTH_NAME = re.compile('authorization', re.IGNORECASE)


def credential_occurrences(raw):
    """The judge's reading of the property: credentials count only when they
    stand in a header whose NAME is exactly Authorization - a CRLF-terminated
    line that begins with the name (any case; the two Unicode spellings the
    regex engine folds to `i` included) immediately followed by a colon.  A
    header that merely ENDS in `Authorization: Basic ...` (Proxy-Authorization,
    X-Forwarded-Authorization, `X-Note: Authorization: ...`), a continuation
    line or the request line does not count.  Beyond the name the reading is
    deliberately generous: every occurrence of the word basic followed by a
    blank, the rest of the line decoded with the lenient base64 decoder.
    Returns one list of (user, password) candidates per occurrence."""
    occ = []
    text = raw.decode('utf-8', 'replace')
    # obs-fold (RFC 7230 3.2.4): a line that begins with SP or HTAB continues the previous header line;
    # the value the server must see is the unfolded one (the folding character dropped, as join_headers does)
    lines = []
    for line in text.split('\r\n'):
        if line[:1] in (' ', '\t') and lines and lines[-1] != '':
            lines[-1] = lines[-1] + line[1:]
        else:
            lines.append(line)
    for line in lines:
        name, sep, value = line.partition(':')
        if not sep or not AUTH_NAME.fullmatch(name):
            continue
        for m in re.finditer(r'(?i)basic[ \t]', value):
            tok = value[m.end():]
            pairs = []
            for cand in (tok, tok.strip(), tok.split(' ')[0], tok.split('\n')[0]):
                try:
                    d = base64.decodebytes(cand.encode('utf-8')).decode('utf-8')
                except Exception:
                    continue
                if ':' in d:
                    pairs.append(tuple(d.split(':', 1)))
            occ.append(pairs)
    return occ


def lenient_credentials(raw):
    return [p for pairs in credential_occurrences(raw) for p in pairs]


def acceptable(user, stored, u, p):
    if u != user:
        return False
    if stored.startswith('{SHA}'):
        return hashlib.sha1(p.encode('utf-8')).hexdigest() == stored[5:]
    return p == stored


def impl_decode(cookie):
    from supervisor.compat import as_string, as_bytes, decodestring
    try:
        return as_string(decodestring(as_bytes(cookie)))
    except Exception:
        return None


def impl_parse(text):
    """The request block read with the REAL crack_request / join_headers."""
    from supervisor.medusa import http_server
    lines = text.split('\r\n')
    while lines and not lines[0]:
        lines = lines[1:]
    if not lines:
        return 'nolines'
    try:
        command, uri, version = http_server.crack_request(lines[0])
        header = http_server.join_headers(lines[1:])
        http_server.splitquery(uri)
    except Exception:
        return 'crash'
    if command is None:
        return 'bad'
    return (command, uri, version, header)


def observe(tb, which, raw, sink, cuts=()):
    tb.reset()
    with contextlib.redirect_stdout(sink), contextlib.redirect_stderr(sink):
        buf, closed = tb.exchange(which, raw, cuts=cuts)
    import c17_server as S
    status, hd, body = S.parse_response(buf)
    first_req = None
    ms = []
    if tb.observed:
        first_req = tb.observed[0][1]
        for (idx, fields, res) in tb.observed:
            if fields != first_req or (ms and ms[-1] != 'MFalse'):
                break
            ms.append('MTrue' if res is True else 'MFalse' if res is False else 'MRaise')
    return {
        'status': status, 'headers': hd, 'closed': closed, 'buf': buf,
        'inner': list(tb.inner_calls), 'chain': list(tb.chain_calls), 'first_req': first_req, 'ms': ms,
        'access': list(tb.access), 'proc': list(tb.proc_calls), 'rpc': list(tb.rpc_calls),
    }


def decision_term(o):
    """Observed decision as a Coq term, or None when the observation fits no
    decision of the model (itself a finding)."""
    if o['inner']:
        return '(Serve %d)' % o['inner'][0][0], coq_list(['Invoked %d' % o['inner'][0][0]])
    st = o['status']
    if st == 401:
        return 'Refuse401', '[]'
    if st == 400:
        return 'Error400', '[]'
    if st == 404:
        return 'Error404', '[]'
    if st == 500:
        return 'Error500', '[]'
    if st is None and not o['buf']:
        return 'Closed', '[]'
    return None


def run(chk):
    proved = chk.prove('props/C17.v', gens=[_gen])
    with vlib.WorkDir('c17') as wd:
        _run(chk, wd, proved)


def _configs(chk):
    sha = lambda p: '{SHA}' + hashlib.sha1(p.encode('utf-8')).hexdigest()
    cfgs = [
        ('alice', 's3cret', 's3cret'),
        ('alice', 's3cret', sha('s3cret')),
        (u'op\xe9r', u'p\xe4ss:w\xf6rd %1', u'p\xe4ss:w\xf6rd %1'),
    ]
    if chk.tier != 'quick':
        cfgs.append(('root', '{SHA}', '{SHA}'))          # stored entry is just the prefix: digest compare against ''
        cfgs.append(('u', 'x', sha('x').upper().replace('{SHA}'.upper(), '{SHA}')))  # upper-case digest never matches
    return cfgs


class Group(object):
    """One Coq file: cases plus the string constants they share.  Coq's cost
    is dominated by reading literals, so every distinct string (request line,
    header line, cookie, decoded credential ...) is defined once per file and
    the cases refer to the names."""

    def __init__(self, ctype, fn):
        self.ctype, self.fn = ctype, fn
        self.names = {}
        self.defs = []
        self.cases = []
        self.meta = []
        self.weight = 0

    def ref(self, text):
        n = self.names.get(text)
        if n is None:
            n = 'k%d' % len(self.names)
            self.names[text] = n
            self.defs.append('Definition %s : str := %s.' % (n, slit(text)))
            self.weight += len(text) + 8
        return n

    def block(self, text):
        return '(join_crlf %s)' % coq_list([self.ref(l) for l in text.split('\r\n')])

    def add(self, term, meta):
        self.cases.append(term)
        self.meta.append(meta)
        self.weight += 12


class Groups(object):
    def __init__(self, ctype, fn, limit=9000):
        self.ctype, self.fn, self.limit = ctype, fn, limit
        self.groups = [Group(ctype, fn)]

    def current(self):
        g = self.groups[-1]
        if g.weight > self.limit:
            g = Group(self.ctype, self.fn)
            self.groups.append(g)
        return g

    def total(self):
        return sum(len(g.cases) for g in self.groups)


def compare_groups(chk, wd, name, groups):
    """Run every group through vlib.coq_compare (one coqc each, in parallel);
    returns [(meta, coq term)] of disagreeing cases."""
    from concurrent.futures import ThreadPoolExecutor
    gs = [g for g in groups.groups if g.cases]

    def one(ig):
        i, g = ig
        return vlib.coq_compare(IMPORTS, g.ctype, g.fn, g.cases, wd, shard=max(1, len(g.cases)),
                                tag='%s_g%d' % (name, i), preamble='\n'.join(g.defs))
    with ThreadPoolExecutor(max_workers=vlib.NCPU) as ex:
        results = list(ex.map(one, list(enumerate(gs))))
    badcases = []
    for g, (bad, errs) in zip(gs, results):
        for e in errs:
            chk.violation({'kind': 'model evaluation failed', 'part': name, 'error': e}, nofail=True)
        for i in bad:
            badcases.append((g.meta[i], g.cases[i]))
    return badcases


def _run(chk, wd, proved, only=None):
    import c17_server as S
    from supervisor.medusa import auth_handler as AH
    sink = io.StringIO()
    ex_groups = Groups(CASE_T, 'check_case')
    pa_groups = Groups(PARSE_T, 'check_parse')
    li_groups = Groups('str * option (str * str)', 'check_authline')
    seen_cases = set()
    seen_parse = set()
    seen_lines = set()
    distinct = set()
    samples = []
    n_exchanges = 0
    served_status = {}
    gen_info = None
    try:
        gen_info = _gen()
    except Exception:
        pass

    def add_line(line):
        if line in seen_lines or len(line) > 400:
            return
        seen_lines.add(line)
        m = AH.AUTHORIZATION.match(line)
        g = li_groups.current()
        if m and m.end() == len(line):
            lt = '(Some (%s, %s))' % (g.ref(m.group(1)), g.ref(m.group(2)))
        else:
            lt = 'None'
        g.add('(%s, %s)' % (g.ref(line), lt), line)

    for ci, (user, plain, stored) in enumerate(_configs(chk)):
        sub = os.path.join(wd, 'cfg%d' % ci)
        os.makedirs(sub)
        with contextlib.redirect_stdout(sink), contextlib.redirect_stderr(sink):
            tb = S.Testbed(sub, user, stored, tag='c%d' % ci)
        try:
            # the runtime chains against the generated table
            for chain in tb.chains:
                flags = [w for _, w in chain]
                inner_classes = [n for n, _ in chain]
                if not all(flags) or (gen_info is not None and (len(chain) != len(gen_info['dispatch'])
                                                                or inner_classes != gen_info['classes'])):
                    chk.violation({'kind': 'handler chain of the real server has an unwrapped element or differs from '
                                   'the generated table', 'chain': chain, 'config': [user, stored],
                                   'generated': gen_info and gen_info['dispatch']})
            for cfg in tb.configs:
                if cfg['username'] != user or cfg['password'] != stored:
                    chk.violation({'kind': 'config parser altered the credentials', 'parsed': repr(cfg),
                                   'wanted': [user, stored]}, nofail=True)
            reqs, n_product = gen_requests(chk, user, plain, stored, full=(ci == 0))
            if only is not None:
                reqs = only
            for ri, req in enumerate(reqs):
                tags, raw, pipelined = req[:3]
                cuts = req[3] if len(req) > 3 else ()
                if cuts:
                    tags = tuple(tags) + ('request sent in segments cut at byte offsets %s' % list(cuts),)
                if tags[0] == 'product' and tags[2] in ('good', 'absent', 'wrong:password-prefix', 'b64:bad-padding',
                                                        'nocolon:user'):
                    whiches = (0, 1)        # both servers
                else:
                    whiches = ((ri + ci) % 2,)
                for which in whiches:
                    o = observe(tb, which, raw, sink, cuts=cuts)
                    n_exchanges += 1
                    fam = 'unix' if tb.addrs[which][0] == 1 else 'inet'
                    chk.dist('server:' + fam)
                    chk.dist('kind:' + tags[0])
                    chk.dist('auth:' + tags[2].split(':')[0])
                    _judge(chk, user, stored, tags, raw, o, fam)
                    if not pipelined:
                        _must_serve(chk, user, stored, tags, raw, o, fam, plain)
                    if o['inner']:
                        served_status[o['status']] = served_status.get(o['status'], 0) + 1
                        _served_checks(chk, tags, raw, o, S)
                    # ---- model case: the first request block
                    if b'\r\n\r\n' not in raw:
                        chk.dist('block:unterminated')
                        if o['buf'] or o['inner'] or o['first_req'] is not None:
                            chk.violation({'kind': 'unterminated request block was acted upon', 'raw': list(raw),
                                           'status': o['status']}, nofail=not o['inner'])
                        continue
                    block, rest = raw.split(b'\r\n\r\n', 1)
                    if pipelined or (block.strip(b'\r\n') == b'' and rest):
                        chk.dist('block:pipelined-monitor-only')
                        continue
                    try:
                        text = block.decode('utf-8')
                    except UnicodeDecodeError:
                        chk.dist('block:undecodable')
                        if o['inner'] or o['buf']:
                            chk.violation({'kind': 'undecodable request block did not just close the connection',
                                           'raw': list(raw), 'status': o['status'], 'inner': repr(o['inner'])},
                                          nofail=not o['inner'])
                        continue
                    dt = decision_term(o)
                    if dt is None:
                        chk.violation({'kind': 'response fits no decision of the model (no inner handler ran)',
                                       'raw': list(raw), 'config': [user, stored], 'status': o['status'],
                                       'closed': o['closed'], 'server': fam})
                        continue
                    cookie, decoded, pw, pwhex = '', None, '', ''
                    if o['first_req'] is not None:
                        hdr = o['first_req'][3]
                        cookie = AH.get_header(AH.AUTHORIZATION, hdr, 2)
                        if AH.get_header(AH.AUTHORIZATION, hdr):
                            decoded = impl_decode(cookie)
                        if decoded is not None and ':' in decoded:
                            pw = decoded.split(':', 1)[1]
                            if stored.startswith('{SHA}'):
                                pwhex = hashlib.sha1(pw.encode('utf-8')).hexdigest()
                    key = (user, stored, text, tuple(o['ms']), cookie, decoded, dt)
                    distinct.add((dt[0].split()[0].strip('()'), tags[2], tuple(o['ms']), o['status'], fam))
                    m = {'config': [user, stored], 'tags': list(tags), 'server': fam,
                         'raw': list(raw) if len(raw) < 3000 else {'len': len(raw), 'head': list(raw[:300])},
                         'observed': {'status': o['status'], 'inner': repr(o['inner']), 'match': o['ms'],
                                      'closed': o['closed']}}
                    if len(samples) < 4 and (ri % 977 == 1 or tags[0] == 'mutated'):
                        samples.append(m)
                    if key not in seen_cases:
                        seen_cases.add(key)
                        g = ex_groups.current()
                        term = '(%s, %s, %s, %s, (%s, %s), (%s, %s), %s, %s)' % (
                            g.ref(user), g.ref(stored), g.block(text), coq_list(o['ms']),
                            g.ref(cookie), 'None' if decoded is None else '(Some %s)' % g.ref(decoded),
                            g.ref(pw), g.ref(pwhex), dt[0], dt[1])
                        g.add(term, m)
                    # ---- parser case (real crack_request/join_headers on the same block)
                    if text not in seen_parse:
                        seen_parse.add(text)
                        ip = impl_parse(text)
                        g = pa_groups.current()
                        if ip in ('crash', 'bad'):
                            pterm = 'None'
                        elif ip == 'nolines':
                            pterm = '(Some None)'
                        else:
                            pterm = '(Some (Some (%s, %s, %s, %s)))' % (
                                g.ref(ip[0]), g.ref(ip[1]), 'None' if ip[2] is None else '(Some %s)' % g.ref(ip[2]),
                                coq_list([g.ref(h) for h in ip[3]]))
                            # what the dispatch loop saw must be this parse (uri modulo unquoting)
                            fr = o['first_req']
                            if fr is not None and (fr[0], fr[2], fr[3]) != (ip[0], ip[2], ip[3]):
                                chk.violation({'kind': 'request seen by the dispatch loop differs from crack_request/'
                                               'join_headers of the block', 'raw': list(raw), 'seen': repr(fr),
                                               'parsed': repr(ip)}, nofail=True)
                            for line in ip[3]:
                                add_line(line)
                        if (ip in ('crash', 'bad', 'nolines')) != (o['first_req'] is None):
                            chk.violation({'kind': 'dispatch happened / did not happen against the real parse functions',
                                           'raw': list(raw), 'impl_parse': repr(ip), 'seen': repr(o['first_req'])},
                                          nofail=True)
                        g.add('(%s, %s)' % (g.block(text), pterm), {'raw': list(raw[:2000]), 'impl': repr(ip)[:500]})
                        chk.dist('parse:' + (ip if isinstance(ip, str) else 'request'))
        finally:
            with contextlib.redirect_stdout(sink), contextlib.redirect_stderr(sink):
                tb.close()
    # --- the empty-username note (design: `if username:`), observed, not judged
    sub = os.path.join(wd, 'cfg-empty')
    os.makedirs(sub)
    try:
        with contextlib.redirect_stdout(sink), contextlib.redirect_stderr(sink):
            tb = S.Testbed(sub, '', 'x', tag='e')
            o = observe(tb, 1, b'GET /mainlogtail HTTP/1.1\r\n\r\n', sink)
            tb.close()
        chk.note('note (not a violation): username= (empty) with a password: parsed username %r, chain wrapped flags %r, '
                 'an unauthenticated GET /mainlogtail answered %r (authentication is disabled by `if username:`)'
                 % (tb.configs[0]['username'], [w for _, w in tb.chains[0]], o['status']))
    except Exception as e:
        chk.note('empty-username probe could not run: %r' % e)
    # --- known finding C17-colon-user: inputs inside the signature, on purpose
    sub = os.path.join(wd, 'cfg-colon')
    os.makedirs(sub)
    with contextlib.redirect_stdout(sink), contextlib.redirect_stderr(sink):
        tb = S.Testbed(sub, 'ad:min', 'pw', tag='k')
    try:
        hits = 0
        for which in (0, 1):
            for path in ('/', '/RPC2', '/mainlogtail'):
                raw = build_request('GET', path, ' HTTP/1.1', ['Authorization: Basic ' + b64('ad:min:pw')])
                o = observe(tb, which, raw, sink)
                n_exchanges += 1
                chk.dist('kind:known-colon-user')
                if o['inner']:
                    continue                       # served: the defect is gone
                if o['status'] == 401 and not (o['access'] or o['proc'] or o['rpc']):
                    hits += 1
                else:
                    chk.violation({'kind': 'colon-in-username request: neither served nor a clean 401',
                                   'raw': list(raw), 'status': o['status']})
            # and nobody else gets in either
            for cred in ('ad:min', 'ad', 'min:pw', ':pw'):
                raw = build_request('GET', '/mainlogtail', ' HTTP/1.1', ['Authorization: Basic ' + b64(cred)])
                o = observe(tb, which, raw, sink)
                n_exchanges += 1
                if o['inner'] or (o['status'] or 500) < 400:
                    chk.violation({'kind': 'PROPERTY VIOLATED: request without valid credentials served',
                                   'config': ['ad:min', 'pw'], 'raw': list(raw), 'status': o['status']})
        if hits:
            chk.known_finding('C17-colon-user', 'a configured username containing a colon (username=ad:min) can never '
                              'authenticate: the right credentials are answered 401 because the decoded credential is split '
                              'at its first colon; %d such requests explored, all refused cleanly, none served without '
                              'credentials (matches c17_good_credentials_colon_user_refuted)' % hits)
    finally:
        with contextlib.redirect_stdout(sink), contextlib.redirect_stderr(sink):
            tb.close()
    # --- each server section accepts exactly ITS OWN credentials: two sections with
    #     different credentials (distinct users; same user, different passwords; {SHA})
    sha = lambda pw: '{SHA}' + hashlib.sha1(pw.encode('utf-8')).hexdigest()
    scenarios = [
        ('distinct-users', ('localop', 'local-secret', 'local-secret'), ('remote', sha('remote-secret'), 'remote-secret')),
        ('same-user', ('admin', 'unix-only-pw', 'unix-only-pw'), ('admin', 'inet-only-pw', 'inet-only-pw')),
    ]
    for si, (sname, ucfg, icfg) in enumerate(scenarios):
        sub = os.path.join(wd, 'cfg-cross%d' % si)
        os.makedirs(sub)
        with contextlib.redirect_stdout(sink), contextlib.redirect_stderr(sink):
            tb = S.Testbed(sub, ucfg[0], ucfg[1], tag='x%d' % si, inet_creds=(icfg[0], icfg[1]))
        try:
            logins = {'unix': (ucfg[0], ucfg[2]), 'inet': (icfg[0], icfg[2])}
            for which in (0, 1):
                fam = 'unix' if tb.addrs[which][0] == 1 else 'inet'
                cfg = tb.configs[which]
                other = 'inet' if fam == 'unix' else 'unix'
                for path, method, body in (('/RPC2', 'POST', rpc_body('rec.kill', 'g:p')), ('/mainlogtail', 'GET', b''),
                                           ('/stylesheets/supervisor.css', 'GET', b''),
                                           ('/index.html?action=stop&processname=g:p', 'GET', b'')):
                    for who in (fam, other):
                        u, pw = logins[who]
                        raw = build_request(method, path, ' HTTP/1.1', ['Authorization: Basic ' + b64(u + ':' + pw)], body)
                        o = observe(tb, which, raw, sink)
                        n_exchanges += 1
                        chk.dist('kind:cross-section:' + ('own' if who == fam else 'foreign'))
                        tags = ('cross-section', path, sname + ':' + ('own' if who == fam else 'foreign'), method, 'HTTP/1.1')
                        _judge(chk, cfg['username'], cfg['password'], tags, raw, o, fam,
                               extra={'unix_http_server': list(ucfg[:2]), 'inet_http_server': list(icfg[:2])})
                        if who == fam and not o['inner']:
                            chk.violation({'kind': 'PROPERTY VIOLATED: a server section refuses its own configured credentials',
                                           'scenario': sname, 'server': fam, 'section_credentials': [cfg['username'], cfg['password']],
                                           'other_section': list(logins[other]), 'raw': list(raw), 'status': o['status']})
        finally:
            with contextlib.redirect_stdout(sink), contextlib.redirect_stderr(sink):
                tb.close()
    # --- every SHAPE of server sections through the real config parser; each server is judged
    #     against ITS OWN section (None = the section configures no authentication)
    A = ('opsuser', 'ops-secret', 'ops-secret')
    B = ('viewer', sha('view-pw'), 'view-pw')
    E1 = ('alice', '', '')                      # password configured but empty
    E2 = ('bob', '', '')                        # password=%(ENV_X)s with X set to the empty string

    def sect(c, pwtext=None):
        if c is None:
            return {}
        return {'username': c[0].replace('%', '%%'), 'password': (pwtext if pwtext is not None else c[1].replace('%', '%%'))}

    shapes = [
        ('named-inet-only', [('inet_http_server:ops', A)], {}),
        ('unnamed-open+named-protected', [('inet_http_server', None), ('inet_http_server:ops', A)], {}),
        ('unnamed-protected+named-open', [('inet_http_server', A), ('inet_http_server:pub', None)], {}),
        ('unnamed+named-different', [('inet_http_server', A), ('inet_http_server:view', B)], {}),
        ('two-named', [('inet_http_server:ops', A), ('inet_http_server:view', B)], {}),
        ('unix-named+unix-unnamed', [('unix_http_server:ops', B), ('unix_http_server', A)], {}),
        ('mixed-case-users', [('unix_http_server', ('Admin', 'Adm-Pw1', 'Adm-Pw1')),
                              ('inet_http_server:sha', ('OpsUser', sha('View-Pw'), 'View-Pw'))], {}),
        ('upper-case-user', [('inet_http_server', ('ROOT', 'toor', 'toor'))], {}),
        ('empty-password', [('unix_http_server', E1), ('inet_http_server:env', E2)], {'inet_http_server:env': '%(ENV_X)s'}),
    ]
    for si, (sname, secs, pwtexts) in enumerate(shapes):
        sub = os.path.join(wd, 'cfg-shape%d' % si)
        os.makedirs(sub)
        intended = dict((name, c) for name, c in secs)
        try:
            with contextlib.redirect_stdout(sink), contextlib.redirect_stderr(sink):
                tb = S.Testbed(sub, None, None, tag='h%d' % si,
                               sections=[(name, sect(c, pwtexts.get(name))) for name, c in secs],
                               expansions={'ENV_X': ''})
        except Exception as e:
            chk.violation({'kind': 'server sections could not be parsed / servers not built', 'shape': sname,
                           'error': repr(e)}, nofail=True)
            continue
        try:
            if len(tb.configs) != len(secs):
                chk.violation({'kind': 'config parser produced %d servers for %d sections' % (len(tb.configs), len(secs)),
                               'shape': sname, 'config_text': tb.config_text}, nofail=True)
            everyone = [c for _, c in secs if c is not None]
            for which, cfg in enumerate(tb.configs):
                fam = 'unix' if tb.addrs[which][0] == 1 else 'inet'
                mine = intended.get(cfg['section'])
                extra = {'shape': sname, 'config_text': tb.config_text, 'server_section': cfg['section'],
                         'section_credentials': None if mine is None else list(mine[:2])}
                if mine is None:
                    chk.dist('kind:section-shape:open-by-configuration')
                    continue
                logins = [('absent', None)] + [('own' if c is mine else 'foreign', (c[0], c[2])) for c in everyone]
                for variant in (mine[0].lower(), mine[0].upper(), mine[0].swapcase(), mine[0].capitalize()):
                    if variant != mine[0]:
                        logins.append(('own-user-other-case', (variant, mine[2])))
                if mine[2].lower() != mine[2] or mine[2].upper() != mine[2]:
                    logins.append(('own-password-other-case', (mine[0], mine[2].swapcase())))
                logins += [('own-user-empty-password', (mine[0], '')), ('own-user-wrong-password', (mine[0], mine[2] + 'x')),
                           ('empty-both', ('', ''))]
                for path, method, body in (('/RPC2', 'POST', rpc_body('rec.kill', 'g:p')), ('/mainlogtail', 'GET', b''),
                                           ('/stylesheets/supervisor.css', 'GET', b'')):
                    for who, login in logins:
                        hl = [] if login is None else ['Authorization: Basic ' + b64(login[0] + ':' + login[1])]
                        raw = build_request(method, path, ' HTTP/1.1', hl, body)
                        o = observe(tb, which, raw, sink)
                        n_exchanges += 1
                        chk.dist('kind:section-shape:' + who)
                        tags = ('section-shape', path, sname + ':' + who, method, 'HTTP/1.1')
                        _judge(chk, mine[0], mine[1], tags, raw, o, fam, extra=extra)
                        if login is not None and acceptable(mine[0], mine[1], login[0], login[1]) and not o['inner']:
                            chk.violation({'kind': 'PROPERTY VIOLATED: a server section refuses its own configured credentials',
                                           'sections': extra, 'server': fam, 'raw': list(raw), 'status': o['status']})
        finally:
            with contextlib.redirect_stdout(sink), contextlib.redirect_stderr(sink):
                tb.close()
    # --- configuration -> credentials tie through the REAL ServerOptions.read_config: option-name spellings
    #     (.ini option names are case-insensitive) and %(ENV_x)s expansions from the process environment,
    #     from [supervisord] environment= and from both ([supervisord] wins).  The credentials each server
    #     enforces must be the file's.
    shaX = sha('dig-pw')
    tie = [
        ('optname:Capitalised', '[inet_http_server]\nport=127.0.0.1:9001\nUsername=admin\nPassword=s3cret\n', {}, None,
         {'inet_http_server': ('admin', 's3cret', 's3cret')}),
        ('optname:UPPER', '[unix_http_server]\nfile={SOCK0}\nUSERNAME=admin\nPASSWORD=s3cret\n', {}, None,
         {'unix_http_server': ('admin', 's3cret', 's3cret')}),
        ('optname:mixed', '[inet_http_server:a]\nport=127.0.0.1:9001\nusername=admin\nPassWord=%s\n\n'
                          '[unix_http_server]\nfile={SOCK1}\nUserName=viewer\npassword=vpw\n' % shaX, {}, None,
         {'inet_http_server:a': ('admin', shaX, 'dig-pw'), 'unix_http_server': ('viewer', 'vpw', 'vpw')}),
        ('env:process-only', '[inet_http_server]\nport=127.0.0.1:9001\nusername=%(ENV_C17_U)s\npassword=%(ENV_C17_PW)s\n',
         {'C17_U': 'envuser', 'C17_PW': 'env-pw'}, None, {'inet_http_server': ('envuser', 'env-pw', 'env-pw')}),
        ('env:supervisord-only', '[unix_http_server]\nfile={SOCK0}\nusername=%(ENV_C17_U2)s\npassword=%(ENV_C17_PW2)s\n',
         {}, 'C17_U2="cfguser",C17_PW2="cfg-pw"', {'unix_http_server': ('cfguser', 'cfg-pw', 'cfg-pw')}),
        ('env:both-supervisord-wins', '[inet_http_server]\nport=127.0.0.1:9001\nusername=admin\npassword=%(ENV_C17_PW3)s\n\n'
                                      '[unix_http_server]\nfile={SOCK1}\nusername=%(ENV_C17_U3)s\npassword=x\n',
         {'C17_PW3': 'old-pw', 'C17_U3': 'olduser'}, 'C17_PW3="new-pw",C17_U3="newuser"',
         {'inet_http_server': ('admin', 'new-pw', 'new-pw'), 'unix_http_server': ('newuser', 'x', 'x')}),
        ('env:sha-digest', '[inet_http_server]\nport=127.0.0.1:9001\nusername=admin\npassword={SHA}%(ENV_C17_DIG)s\n',
         {'C17_DIG': 'wrong' * 8}, 'C17_DIG="%s"' % shaX[5:], {'inet_http_server': ('admin', shaX, 'dig-pw')}),
    ]
    for ti, (tname, server_text, environ, sd_env, intended) in enumerate(tie):
        sub = os.path.join(wd, 'cfg-tie%d' % ti)
        os.makedirs(sub)
        try:
            configs, text = S.parse_config_file(sub, 'y%d' % ti, server_text, environ, sd_env)
            with contextlib.redirect_stdout(sink), contextlib.redirect_stderr(sink):
                tb = S.Testbed(sub, None, None, tag='y%d' % ti, configs=configs, config_text=text)
        except Exception as e:
            chk.violation({'kind': 'configuration file could not be read / servers not built', 'case': tname,
                           'server_text': server_text, 'environ': environ, 'supervisord_environment': sd_env,
                           'error': repr(e)}, nofail=True)
            continue
        try:
            for which, cfg in enumerate(tb.configs):
                fam = 'unix' if tb.addrs[which][0] == 1 else 'inet'
                mine = intended[cfg['section']]
                extra = {'case': tname, 'config_text': text, 'process_environment': environ,
                         'server_section': cfg['section'], 'section_credentials': list(mine[:2]),
                         'parsed': [cfg['username'], cfg['password']]}
                logins = [('absent', None), ('own', (mine[0], mine[2])), ('wrong-password', (mine[0], mine[2] + 'x')),
                          ('wrong-user', (mine[0] + 'x', mine[2]))]
                for v in environ.values():
                    logins.append(('process-environment-value', (mine[0], v)))
                    logins.append(('process-environment-value', (v, mine[2])))
                for path, method, body in (('/RPC2', 'POST', rpc_body('rec.kill', 'g:p')), ('/mainlogtail', 'GET', b'')):
                    for who, login in logins:
                        hl = [] if login is None else ['Authorization: Basic ' + b64(login[0] + ':' + login[1])]
                        raw = build_request(method, path, ' HTTP/1.1', hl, body)
                        o = observe(tb, which, raw, sink)
                        n_exchanges += 1
                        chk.dist('kind:config-tie:' + tname.split(':')[0])
                        tags = ('config-tie', path, tname + ':' + who, method, 'HTTP/1.1')
                        _judge(chk, mine[0], mine[1], tags, raw, o, fam, extra=extra)
                        if login is not None and acceptable(mine[0], mine[1], login[0], login[1]) and not o['inner']:
                            chk.violation({'kind': 'PROPERTY VIOLATED: the server refuses the credentials its configuration file '
                                           'sets', 'sections': extra, 'server': fam, 'raw': list(raw), 'status': o['status']})
        finally:
            with contextlib.redirect_stdout(sink), contextlib.redirect_stderr(sink):
                tb.close()
    # --- a REAL supervisord process on a unix socket, queried with and without credentials
    n_exchanges += _daemon_probe(chk, os.path.join(wd, 'daemon'))
    # --- extra single-line regex cases (random spellings)
    rng = chk.rng
    alphabet = [u'A', u'a', u'u', u'U', u't', u'h', u'o', u'r', u'i', u'I', u'\u0130', u'\u0131', u'z', u'Z', u'n',
                u':', u' ', u'\t', u'\n', u'\r', u'B', u'b', u's', u'S', u'\u017f', u'c', u'=', u'Q', u'\xe9']
    base = u'Authorization: Basic QQ=='
    for _ in range(1200 if chk.tier == 'quick' else 20000):
        chars = list(base)
        for _ in range(rng.randrange(0, 4)):
            i = rng.randrange(len(chars) + 1)
            r = rng.random()
            if r < 0.4 and i < len(chars):
                chars[i] = rng.choice(alphabet)
            elif r < 0.7:
                chars.insert(i, rng.choice(alphabet))
            elif i < len(chars):
                del chars[i]
        add_line(u''.join(chars))

    total = 0
    for name, groups in (('exchange', ex_groups), ('parse', pa_groups), ('authline', li_groups)):
        badcases = compare_groups(chk, wd, name, groups)
        total += groups.total()
        chk.dist('coq_cases:' + name, groups.total())
        for m, term in badcases[:5]:
            chk.violation({'kind': 'model and implementation disagree', 'part': name, 'case': m,
                           'coq_case': term[:3000],
                           'explanation': 'the Coq model (about which the C17 theorems are proved) gives a different '
                                          'decision/effect than the real server on this request; the property monitor '
                                          'did not find the property itself violated on it'}, nofail=True)
        if badcases:
            chk.note('%d disagreement(s) in part %s' % (len(badcases), name))
    if not proved:
        chk.violation({'kind': 'proof obligation no longer checks', 'detail': chk.proof_failure,
                       'file': 'coq/props/C17.v'}, nofail=not [v for v in chk.violations if not v[1]])
    cov = chk.coverage
    cov['evaluations'] = n_exchanges
    cov['coq_compared_cases'] = total
    cov['distinct_nontrivial'] = len(distinct)
    cov['traces_validated_against_impl'] = ex_groups.total()
    cov['exhaustive'] = False
    cov['served_status_histogram'] = dict((str(k), v) for k, v in served_status.items())
    cov['rule'] = ('first configuration (plain password): the full product of %d paths x %d Authorization classes '
                   '(exhaustive over these two lists) and every method x version x 4 paths x 5 classes; {SHA} and '
                   'non-ASCII/colon-in-password configurations: %d key paths x all classes; every configuration: oversized '
                   'values, framing oddities, pipelined/smuggled second requests (monitor only), random structured requests '
                   'with 30%% byte-level mutations; each request sent over the real unix or inet socket (evaluations = HTTP '
                   'exchanges); distinct = distinct (model decision, Authorization class, match vector, status, socket '
                   'family); duplicates (same block, same observation) are sent to Coq once'
                   % (len(PATHS), len(auth_values('u', 'p', 'p')), len(KEY_PATHS)))
    cov['samples'] = samples or [g.meta[0] for g in ex_groups.groups if g.meta][:2]


def _judge(chk, user, stored, tags, raw, o, fam, extra=None):
    """The property itself, judged on the real exchange without the model."""
    creds = lenient_credentials(raw)
    ok = any(acceptable(user, stored, u, p) for (u, p) in creds)
    if o['inner'] and not ok:
        chk.violation({'sections': extra, 'kind': 'PROPERTY VIOLATED: an inner handler ran for a request without valid credentials',
                       'config': [user, stored], 'server': fam, 'raw': list(raw), 'tags': list(tags),
                       'inner_calls': repr(o['inner']), 'status': o['status'], 'side_effects': {
                           'supervisord_access': o['access'], 'process_calls': repr(o['proc']), 'rpc_calls': repr(o['rpc'])}})
        return
    n_valid = sum(1 for pairs in credential_occurrences(raw) if any(acceptable(user, stored, u, p) for (u, p) in pairs))
    if len(o['inner']) > n_valid:
        chk.violation({'sections': extra, 'kind': 'PROPERTY VIOLATED: more requests were served on this connection than carry '
                       'valid credentials (authentication must be per request, not per connection)',
                       'config': [user, stored], 'server': fam, 'raw': list(raw), 'tags': list(tags),
                       'inner_calls': repr(o['inner']), 'valid_credential_occurrences': n_valid})
    for call in o['inner']:
        ai = call[1]
        if not (isinstance(ai, list) and len(ai) == 2 and acceptable(user, stored, ai[0], ai[1])):
            chk.violation({'sections': extra, 'kind': 'PROPERTY VIOLATED: inner handler invoked with auth_info that is not the configured '
                           'credential', 'config': [user, stored], 'raw': list(raw), 'auth_info': repr(ai), 'server': fam})
    if not o['inner']:
        import c17_server as S
        leaks = []
        if o['access'] or o['proc'] or o['rpc']:
            leaks.append('side effects: access=%r proc=%r rpc=%r' % (o['access'], o['proc'], o['rpc']))
        if S.SECRET_MAIN in o['buf'] or S.SECRET_PROC in o['buf']:
            leaks.append('log bytes in the response')
        if o['status'] is not None and 200 <= o['status'] < 400:
            leaks.append('status %d without authentication' % o['status'])
        if o['status'] == 401 and not o['headers'].get('www-authenticate', '').startswith('Basic realm='):
            leaks.append('401 without a Basic challenge')
        if leaks:
            chk.violation({'sections': extra, 'kind': 'PROPERTY VIOLATED: refused request had an effect', 'what': leaks,
                           'config': [user, stored], 'server': fam, 'raw': list(raw), 'status': o['status']})


def _daemon_probe(chk, dwd):
    import c17_daemon as D
    d = D.Daemon(dwd, 'alice', 's3cret')
    n = 0
    try:
        if not d.start():
            chk.note('real-daemon probe skipped: supervisord did not come up in this environment')
            chk.dist('daemon:unavailable')
            return 0
        good = 'Authorization: Basic ' + b64('alice:s3cret')
        body = rpc_body('supervisor.getState')
        kill = rpc_body('supervisor.stopProcess', 'echo')
        probes = [
            ('absent', build_request('GET', '/mainlogtail', ' HTTP/1.1', []), 401),
            ('absent', build_request('POST', '/RPC2', ' HTTP/1.1', [], kill), 401),
            ('wrong:password-prefix', build_request('POST', '/RPC2', ' HTTP/1.1', ['Authorization: Basic ' + b64('alice:s3cre')], kill), 401),
            ('wrong:user', build_request('GET', '/index.html?action=stop&processname=echo', ' HTTP/1.1',
                                         ['Authorization: Basic ' + b64('alic:s3cret')]), 401),
            ('scheme:bearer', build_request('GET', '/logtail/echo', ' HTTP/1.1', ['Authorization: Bearer ' + b64('alice:s3cret')]), 401),
            ('nocolon', build_request('GET', '/', ' HTTP/1.1', ['Authorization: Basic ' + b64('alice')]), 500),
            ('b64:bad-padding', build_request('GET', '/', ' HTTP/1.1', ['Authorization: Basic QQ']), 400),
            ('good', build_request('POST', '/RPC2', ' HTTP/1.1', [good], body), 200),
            ('good', build_request('GET', '/stylesheets/supervisor.css', ' HTTP/1.1', [good]), 200),
        ]
        for cls, raw, want in probes:
            buf = d.request(raw)
            n += 1
            chk.dist('daemon:' + cls.split(':')[0])
            try:
                st = int(buf.split(b'\r\n', 1)[0].split()[1])
            except Exception:
                st = None
            bad = st != want or (want == 401 and b'WWW-Authenticate: Basic' not in buf)
            if bad:
                chk.violation({'kind': 'PROPERTY VIOLATED (real daemon): unexpected answer', 'class': cls, 'raw': list(raw),
                               'expected_status': want, 'status': st, 'config': ['alice', 's3cret'],
                               'response_head': buf[:300].decode('latin-1')})
        # no refused request had an effect: the program is still running
        rc, out = d.ctl(['status', 'echo'])
        n += 1
        if b'RUNNING' not in out:
            chk.violation({'kind': 'PROPERTY VIOLATED (real daemon): a refused request changed the process state or '
                           'supervisorctl with the configured credentials is not served', 'status_output': out.decode('utf-8', 'replace')})
        rc, out = d.ctl(['-u', 'alice', '-p', 'nope', 'status'])
        n += 1
        if b'RUNNING' in out or b'echo' in out:
            chk.violation({'kind': 'PROPERTY VIOLATED (real daemon): supervisorctl with a wrong password was served',
                           'output': out.decode('utf-8', 'replace')})
    finally:
        d.stop()
    return n


CANON_OK = {
    '/index.html': 200, '/': 200, '/stylesheets/supervisor.css': 200, '/mainlogtail': 200, '/logtail/g:p': 200,
    '/ok.html': 200, '/RPC2': 200, '/tail.html?processname=g:p': 200,
}


MUST_SERVE = ('good', 'good:lowercase-scheme', 'good:uppercase-all', 'good:mixed', 'good:then-bad', 'good:after-unmatched',
              'fold:tab-good', 'fold:space-good', 'fold:good-after-blank-value', 'fold:good-then-other-header-fold')
# well-formed requests without the right credentials: the answer must be 401 with a Basic challenge
MUST_401 = ('absent',)


def _must_serve(chk, user, stored, tags, raw, o, fam, plain=None):
    """`Requests with the right credentials are served`: a request that was
    dispatched (its block parsed, match() did not raise) and whose Authorization
    header - under ANY capitalisation of the header name and of the scheme -
    carries exactly the configured credentials must reach the inner handler."""
    if tags[0] in ('product', 'methods', 'random', 'segmented') and o['first_req'] is not None and 'MRaise' not in o['ms'] \
            and (tags[2] in MUST_401 or tags[2].startswith(('wrong:', 'empty:'))) and not o['inner']:
        if o['status'] != 401 or not o['headers'].get('www-authenticate', '').startswith('Basic realm='):
            chk.violation({'kind': 'PROPERTY VIOLATED: a request without valid credentials was not answered 401 with a Basic '
                           'challenge', 'config': [user, stored], 'server': fam, 'raw': list(raw), 'tags': list(tags),
                           'status': o['status'], 'www_authenticate': o['headers'].get('www-authenticate'),
                           'match_answers': o['ms']})
    if tags[0] not in ('product', 'methods', 'random', 'segmented') or tags[2] not in MUST_SERVE:
        return
    if o['first_req'] is None or 'MRaise' in o['ms'] or 'MTrue' not in o['ms'] or ':' in user:
        return
    if plain is not None and not acceptable(user, stored, user, plain):
        # configurations whose stored entry no password satisfies (a bare '{SHA}' prefix, an upper-case digest): the
        # password the generator sends is not "the right credentials"; such requests are judged by _judge only
        return
    if not o['inner']:
        chk.violation({'kind': 'PROPERTY VIOLATED: a request with the right credentials was refused',
                       'config': [user, stored], 'server': fam, 'raw': list(raw), 'tags': list(tags),
                       'status': o['status'],
                       'note': 'HTTP header names and the scheme word are case-insensitive'})


def _served_checks(chk, tags, raw, o, S):
    """Right credentials are really served (HTTP level) on the canonical paths."""
    if tags[0] != 'product' or tags[2] != 'good':
        return
    want = CANON_OK.get(tags[1])
    if 'tail' in tags[1] and 'tail.html' not in tags[1] and (tags[4] != 'HTTP/1.1' or b'Connection: close' in raw):
        # outside chunked mode a tail stream is held back by the globbing
        # producer until 64 KB accumulate (see notes/C16b): no bytes expected
        want = None
    if want is not None and o['status'] != want:
        chk.violation({'kind': 'request with the right credentials was not served', 'path': tags[1],
                       'status': o['status'], 'raw': list(raw)})
    if tags[1] == '/mainlogtail' and want is not None and S.SECRET_MAIN not in o['buf']:
        chk.violation({'kind': 'authorized /mainlogtail did not deliver the log', 'raw': list(raw)}, nofail=True)


def replay(chk, path):
    with open(path) as f:
        obj = json.load(f)
    print(json.dumps(obj, indent=1)[:3000])
    raw = None
    if isinstance(obj.get('raw'), list):
        raw = bytes(obj['raw'])
    elif isinstance(obj.get('case'), dict) and isinstance(obj['case'].get('raw'), list):
        raw = bytes(obj['case']['raw'])
    proved = chk.prove('props/C17.v', gens=[_gen])
    with vlib.WorkDir('c17r') as wd:
        if raw is None:
            _run(chk, wd, proved)
        else:
            _run(chk, wd, proved, only=[(('replay', '-', '-', '-', '-'), raw, False)])
