"""C18 - a child runs the command only in the environment it was promised.

Theorems: coq/props/C18.v over coq/C18/{Child,ChildSpec,ChildProofs}.v.
Correspondence: the REAL Subprocess._spawn_as_child / FastCGISubprocess, the real
ServerOptions wrappers and the real drop_privileges run against a recording
kernel (harness/c18_seam.py); every decision path of every oracle (which call
sites fail, with which kind of exception) over a configuration grid is
enumerated completely and Coq compares the model's call log and ending with
the observed ones.
"""
import itertools
import json
import os
import sys

import vlib
from vlib import zlit, blit, coq_opt, coq_list

LEVEL = 'proof'
IMPORTS = ['SV.C18.Child', 'SV.C18.ChildCheck']

EPERM, ENOENT = 1, 2
KINDS2 = [('os', EPERM), ('other', 'exc')]
KINDS4 = [('os', ENOENT), ('os', 99999), ('other', 'exc'), ('other', 'base')]


# ------------------------------------------------------------ Coq terms

def s_lit(s):
    assert all(32 <= ord(ch) < 127 for ch in s), s
    return '"%s"%%string' % s.replace('"', '""')


def env_lit(d):
    if d is None:
        return 'None'
    return '(Some %s)' % env_items(d.items())


def env_items(items):
    return coq_list(['(%s, %s)' % (s_lit(k), s_lit(v)) for k, v in items])


def kind_term(r):
    if r is None:
        return 'None'
    if r[0] == 'os':
        return '(Some (EOS %s))' % zlit(r[1])
    return '(Some EOther)'


def kind_bare(r):
    return '(EOS %s)' % zlit(r[1]) if r[0] == 'os' else 'EOther'


def site_term(s):
    if s.startswith('dup2:'):
        return '(SDup2 %s)' % zlit(int(s[5:]))
    if s.startswith('close:'):
        return '(SClose %s)' % zlit(int(s[6:]))
    return {'setpgrp': 'SSetpgrp', 'setgroups': 'SSetgroups', 'setgid': 'SSetgid', 'setuid': 'SSetuid',
            'chdir': 'SChdir', 'umask': 'SUmask', 'execve': 'SExecve', 'write_msg': 'SWriteMsg',
            'write_final': 'SWriteFinal'}[s]


def cfg_term(c):
    return '(Build_config %s %s %s %s %s %s %s %s %s %s %s %s %s)' % (
        s_lit(c['name']), coq_opt(zlit(c['uid']) if c['uid'] is not None else None),
        coq_opt(s_lit(c['directory']) if c['directory'] is not None else None),
        coq_opt(zlit(c['umask']) if c['umask'] is not None else None),
        env_lit(c['environment']),
        coq_opt(s_lit(c['serverurl']) if c['serverurl'] is not None else None),
        coq_opt(s_lit(c['options_serverurl']) if c['options_serverurl'] is not None else None),
        blit(c['redirect_stderr']), zlit(c['minfds']), blit(c['fcgi']),
        coq_opt(s_lit(c['group']) if c['group'] is not None else None),
        s_lit(c['file']), coq_list([s_lit(a) for a in c['argv']]))


def world_term(w):
    pw = w.get('pw')
    return '(Build_world %s %s %s %s %s)' % (
        env_items(sorted(w['environ'].items())), zlit(w['curuid']),
        coq_opt('(%s, %s, %s)' % (s_lit(pw[0]), zlit(pw[1]), zlit(pw[2])) if pw else None),
        vlib.zlist(w.get('groups', [])), blit(w.get('has_setgroups', True)))


class Unmodelled(Exception):
    pass


def call_term(entry, cfg):
    import c18_seam as S
    k = entry[0]
    if k == 'setpgrp':
        return 'Setpgrp'
    if k == 'dup2':
        fdname = S.fdname_of(cfg['pipes']) if cfg.get('pipes') else S.FDNAME
        if entry[1] not in fdname:
            raise Unmodelled('dup2 from unknown descriptor %r' % (entry,))
        return '(Dup2 %s %s)' % (fdname[entry[1]], zlit(entry[2]))
    if k == 'close':
        return '(Close %s)' % zlit(entry[1])
    if k == 'setgroups':
        return '(Setgroups %s)' % vlib.zlist(list(entry[1]))
    if k == 'setgid':
        return '(Setgid %s)' % zlit(entry[1])
    if k == 'setuid':
        return '(Setuid %s)' % zlit(entry[1])
    if k == 'chdir':
        return '(Chdir %s)' % s_lit(entry[1])
    if k == 'umask':
        return '(Umask %s)' % zlit(entry[1])
    if k == 'execve':
        return '(Execve %s %s %s)' % (s_lit(entry[1]), coq_list([s_lit(a) for a in entry[2]]), env_items(entry[3]))
    if k == 'write':
        term, problem = S.classify_msg(entry[2], cfg)
        if problem:
            raise Unmodelled(problem)
        return '(Write %s %s)' % (zlit(entry[1]), term)
    if k == 'exit':
        return '(Exit %s)' % zlit(entry[1])
    raise Unmodelled('unknown call %r' % (entry,))


def log_term(log, cfg):
    return coq_list(['(%s, %s)' % (call_term(e, cfg), kind_term(r)) for e, r in log])


def compact_log(log, cfg):
    """(list centry term, the execve call term or None)"""
    out, ex = [], None
    for e, r in log:
        if e[0] == 'execve':
            ex = call_term(e, cfg)
            out.append('xo' if r is None else ('xf %s' % zlit(r[1]) if r[0] == 'os' else 'xx'))
        else:
            c = call_term(e, cfg)
            out.append('o %s' % c if r is None else ('f %s %s' % (c, zlit(r[1])) if r[0] == 'os' else 'x %s' % c))
    return coq_list(out), ex


def sites_of_log(log):
    out = []
    for e, r in log:
        k = e[0]
        if k == 'exit':
            continue
        if k == 'dup2':
            out.append(('dup2:%d' % e[2], r))
        elif k == 'close':
            out.append(('close:%d' % e[1], r))
        elif k == 'write':
            import c18_seam as S
            out.append(('write_final' if e[2] == S.NOT_SPAWNED else 'write_msg', r))
        else:
            out.append((k, r))
    return out


def ending_term(e):
    if e == 'exec':
        return 'EExec'
    if e == 'exit':
        return 'EExit'
    if e == 'returned':
        return 'EReturned'
    if isinstance(e, tuple) and e[0] == 'raised':
        return '(ERaised %s)' % kind_bare(e[1])
    raise Unmodelled('ending %r' % (e,))


# ------------------------------------------- the property, judged in Python
# (used only to classify a disagreement: does the implementation's own trace
# break C18?)

def judge(cfg, world, log, ending, exit_returns):
    """Return None if the observed trace satisfies C18, else a description."""
    names = [e[0][0] for e in log]
    if not exit_returns:
        if ending not in ('exec', 'exit'):
            return 'the child came back into supervisord code: %r' % (ending,)
        if ending == 'exit' and (not log or log[-1][0] != ('exit', 127)):
            return 'the run does not end with _exit(127)'
    # the reason of a failed switch of user / chdir / exec is written to fd 2
    for i, (e, r) in enumerate(log):
        want_msg = None
        if r is not None and r[0] == 'os' and e[0] in ('setgroups', 'setgid', 'setuid'):
            want_msg = b"couldn't setuid to"
        elif r is not None and r[0] == 'os' and e[0] == 'chdir':
            want_msg = b"couldn't chdir to"
        elif r is not None and e[0] in ('umask', 'execve'):
            want_msg = b"couldn't exec"
        if want_msg is not None:
            nxt = log[i + 1][0] if i + 1 < len(log) else None
            # the WHOLE line must reach descriptor 2: the reason (errno name / exception) is at its end
            import errno as _errno
            if nxt and nxt[0] == 'write' and nxt[1] == 2 and want_msg in nxt[2]:
                full = None
                if e[0] == 'chdir':
                    full = ("supervisor: couldn't chdir to %s: %s\n" % (e[1], _errno.errorcode.get(r[1], r[1]))).encode()
                elif e[0] in ('umask', 'execve') and r[0] == 'os':
                    full = ("supervisor: couldn't exec %s: %s\n" % (cfg['argv'][0], _errno.errorcode.get(r[1], r[1]))).encode()
                if (full is not None and nxt[2] != full) or not nxt[2].endswith(b'\n'):
                    return ('%s failed with %r but only %d bytes of the %s-byte reason line reach descriptor 2: the reason '
                            'at its end is cut off (...%r)' % (e[0], r, len(nxt[2]), len(full) if full else '?', nxt[2][-40:]))
            if not (nxt and nxt[0] == 'write' and nxt[1] == 2 and want_msg in nxt[2]):
                return ('%s failed with %r but the reason is not written to descriptor 2 (next call: %r)'
                        % (e[0], r, nxt and nxt[:2]))
    for i, (e, r) in enumerate(log):
        if e[0] != 'execve':
            continue
        before = log[:i]
        for (b, br) in before:
            if br is not None and not (b[0] == 'close' and br[0] == 'os'):
                return 'execve attempted after the failure of %r' % (b,)
        want = ['setpgrp', 'dup2', 'dup2', 'dup2'] + ['close'] * max(0, cfg['minfds'] - 3)
        if cfg['uid'] is not None and world['curuid'] != cfg['uid']:
            if world['curuid'] != 0 or not world.get('pw'):
                return 'execve although the user could not be switched'
            want += (['setgroups'] if world.get('has_setgroups', True) else []) + ['setgid', 'setuid']
        if cfg['directory'] is not None:
            want.append('chdir')
        if cfg['umask'] is not None:
            want.append('umask')
        if names[:i] != want:
            return 'calls before execve are %r, expected %r' % (names[:i], want)
        d = {b[0] + (':%d' % b[2] if b[0] == 'dup2' else ''): b for b, _ in before}
        import c18_seam as S
        # the descriptor table of the child, whatever numbers the pipe ends have (they depend on which of 0/1/2
        # supervisord had closed): each dup2 copies what the source refers to AT THAT MOMENT
        pipes = cfg.get('pipes') or S.PIPES
        table = {}
        for b, br in before:
            if b[0] == 'dup2' and br is None:
                table[b[2]] = table.get(b[1], b[1])
        want_fds = {0: S.FCGI_FD if cfg['fcgi'] else pipes['child_stdin'], 1: pipes['child_stdout'],
                    2: pipes['child_stdout'] if cfg['redirect_stderr'] else pipes['child_stderr']}
        for fdn in (0, 1, 2):
            if table.get(fdn, fdn) != want_fds[fdn]:
                return ('descriptor %d of the child refers to what was descriptor %r, not to the pipe end %r (pipe '
                        'numbers %r)' % (fdn, table.get(fdn, fdn), want_fds[fdn], pipes))
        if [b[1] for b, _ in before if b[0] == 'close'] != list(range(3, cfg['minfds'])):
            return 'wrong descriptors closed'
        if 'setuid' in d and (d['setuid'][1] != cfg['uid'] or d['setgid'][1] != world['pw'][2]):
            return 'switched to the wrong identity'
        if 'setgroups' in d and tuple(d['setgroups'][1]) != (world['pw'][2],) + tuple(world.get('groups', [])):
            return ('supplementary groups set to %r, the configured user has %r (primary gid first)'
                    % (list(d['setgroups'][1]), [world['pw'][2]] + list(world.get('groups', []))))
        if 'chdir' in d and d['chdir'][1] != cfg['directory']:
            return 'wrong directory'
        if 'umask' in d and d['umask'][1] != cfg['umask']:
            return 'wrong umask'
        env = dict(world['environ'])
        env['SUPERVISOR_ENABLED'] = '1'
        url = cfg['serverurl'] if cfg['serverurl'] is not None else cfg['options_serverurl']
        if url:
            env['SUPERVISOR_SERVER_URL'] = url
        env['SUPERVISOR_PROCESS_NAME'] = cfg['name']
        if cfg['group'] is not None:
            env['SUPERVISOR_GROUP_NAME'] = cfg['group']
        env.update(cfg['environment'] or {})
        if dict(e[3]) != env or e[1] != cfg['file'] or list(e[2]) != list(cfg['argv']):
            return 'execve with the wrong command or environment'
    return None


# ------------------------------------------------------- configuration grid

ENVIRON = {'PATH': '/bin', 'A': '0', 'HOME': '/root'}
ENV_CHOICES = [None, {}, {'A': '1', 'B': 'two'},
               {'SUPERVISOR_PROCESS_NAME': 'evil', 'SUPERVISOR_ENABLED': '0', 'PATH': '/x', 'SUPERVISOR_SERVER_URL': 'http://e'}]
URL_CHOICES = [(None, None), (None, 'unix:///o.sock'), ('', None), ('', 'unix:///o.sock'),
               ('http://c:9001', None), ('http://c:9001', 'unix:///o.sock')]
USERS = {
    'none': (None, dict(curuid=0, pw=None, groups=[])),
    'same': (1000, dict(curuid=1000, pw=('bob', 1000, 100), groups=[7])),
    'root': (1000, dict(curuid=0, pw=('bob', 1000, 100), groups=[7, 8])),
    'nonroot': (1000, dict(curuid=500, pw=('bob', 1000, 100), groups=[7])),
    'unknown': (1000, dict(curuid=0, pw=None, groups=[])),
    'root_nosetgroups': (1000, dict(curuid=0, pw=('bob', 1000, 100), groups=[7], has_setgroups=False)),
}
# configured-but-falsy values: user=root (uid 0), as root and as somebody else
USERS_F = {
    'uid0_as_root': (0, dict(curuid=0, pw=('root', 0, 0), groups=[0])),
    'uid0_as_other': (0, dict(curuid=500, pw=('root', 0, 0), groups=[0])),
}
USERS.update(USERS_F)


def mk(user, directory, umask, env, urls, redirect, minfds, fcgi, group):
    """directory: False (not configured) | True ('/the/dir') | a string (also '');
    umask: False | True (027) | an int (also 0); group: False | True ('grp') | a string (also '')."""
    uid, wpart = USERS[user]
    cfg = dict(name='prog', uid=uid, file='/bin/prog', argv=['prog', '-x'],
               directory=(None if directory is False else ('/the/dir' if directory is True else directory)),
               umask=(None if umask is False else (0o27 if umask is True else umask)),
               environment=env, serverurl=urls[0], options_serverurl=urls[1],
               redirect_stderr=redirect, minfds=minfds, fcgi=fcgi,
               group=(None if group is False else ('grp' if group is True else group)))
    world = dict(environ=ENVIRON, has_setgroups=True)
    world.update(wpart)
    return cfg, world


def grids(tier):
    """[(label, cfg, world, kinds, exit_returns)] - the finite space enumerated completely."""
    out = []
    B = (False, True)
    rich = (ENV_CHOICES[3], URL_CHOICES[1], True)
    # A: every failure structure
    for user in [u for u in USERS if u not in USERS_F]:
        for d, u, red, fcgi in itertools.product(B, B, B, B):
            for minfds in (3, 4, 6):
                cfg, w = mk(user, d, u, rich[0], rich[1], red, minfds, fcgi, rich[2])
                out.append(('A', cfg, w, KINDS2, False))
                if minfds <= 4:
                    out.append(('A_exit_returns', cfg, w, KINDS2, True))
    # B: everything that feeds the environment of execve
    users_b = ('none', 'root') if tier == 'quick' else tuple(u for u in USERS if u not in USERS_F)
    for env, urls, group, fcgi, user, du in itertools.product(ENV_CHOICES, URL_CHOICES, B, B, users_b, B):
        cfg, w = mk(user, du, du, env, urls, fcgi, 3, fcgi, group)
        out.append(('B', cfg, w, KINDS2, False))
    # F: configured-but-falsy values in every optional dimension (the code tests `is None` for uid,
    # directory, umask, environment and config.serverurl, truthiness for the final serverurl and the group object)
    for user in ('none', 'root', 'uid0_as_root', 'uid0_as_other'):
        for d, u, minfds, fcgi in itertools.product((False, '', True), (False, 0, True), (0, 3), B):
            cfg, w = mk(user, d, u, rich[0], rich[1], fcgi, minfds, fcgi, rich[2])
            out.append(('F_structure', cfg, w, KINDS2, False))
    for env, urls, group, d, u in itertools.product((None, {}), ((None, None), ('', None), ('', 'unix:///o.sock'), (None, '')),
                                                    (False, '', True), (False, ''), (False, 0)):
        cfg, w = mk('none', d, u, env, urls, False, 3, False, group)
        out.append(('F_environment', cfg, w, KINDS2, False))
    # N: every numbering of the pipe ends that make_pipes can obtain (supervisord running with any subset of 0/1/2 closed)
    import c18_seam as S_
    for closed in ([], [0], [1], [2], [0, 1], [0, 2], [1, 2], [0, 1, 2]):
        for red, fcgi in itertools.product(B, B):
            cfg, w = mk('none', True, True, ENV_CHOICES[2], URL_CHOICES[1], red, 3, fcgi, True)
            cfg['pipes'] = S_.alloc_pipes(closed)
            out.append(('N_numbering', cfg, w, KINDS2, False))
    # E: transient-looking errnos at the dup2 calls (and everywhere else): any failing dup2 ends in exit 127, no exec
    import errno as errno_
    for user, red, fcgi in itertools.product(('none', 'root'), B, B):
        cfg, w = mk(user, True, False, ENV_CHOICES[1], URL_CHOICES[0], red, 4, fcgi, True)
        out.append(('E_errnos', cfg, w, [('os', errno_.EINTR), ('os', errno_.EBUSY), ('os', errno_.EAGAIN)], False))
    # L: diagnostics longer than PIPE_BUF (a 5000-character directory / command path): the whole line, with the
    # reason at its end, must be written
    import errno as errno2_
    for fcgi in B:
        cfg, w = mk('none', 'd' * 5000, False, None, URL_CHOICES[0], False, 3, fcgi, False)
        cfg['file'] = '/' + 'c' * 5000
        cfg['argv'] = ['/' + 'c' * 5000, '-x']
        out.append(('L_long', cfg, w, [('os', errno2_.ENAMETOOLONG), ('other', 'exc')], False))
    # C: more kinds of exception (second errno, unknown errno, BaseException)
    for d, u, fcgi in itertools.product(B, B, B):
        cfg, w = mk('root', d, u, ENV_CHOICES[2], URL_CHOICES[4], not fcgi, 4, fcgi, True)
        out.append(('C', cfg, w, KINDS4, False))
    cfg, w = mk('root', True, True, ENV_CHOICES[2], URL_CHOICES[4], False, 4, False, True)
    out.append(('C_exit_returns', cfg, w, KINDS4, True))
    if tier == 'thorough':
        # the full product of every dimension for minfds in {3, 4}
        for user in [u for u in USERS if u not in USERS_F]:
            for d, u, red, fcgi, group in itertools.product(B, B, B, B, B):
                for env, urls in itertools.product(ENV_CHOICES, URL_CHOICES):
                    for minfds in (3, 4):
                        cfg, w = mk(user, d, u, env, urls, red, minfds, fcgi, group)
                        out.append(('full', cfg, w, KINDS2, False))
    return out


# ----------------------------------------------------------------- the run

def run(chk):
    proved = chk.prove('props/C18.v')
    with vlib.WorkDir('c18') as wd:
        _run(chk, wd, proved)


def _run(chk, wd, proved):
    import c18_seam as S
    _orig_violation = chk.violation

    def _capped(obj, nofail=False, name=None):      # a broken tree can fail on every case: keep the first 30 replays
        if len(chk.violations) < 30:
            return _orig_violation(obj, nofail=nofail, name=name)
    chk.violation = _capped
    cov = chk.coverage
    groups, gmeta = [], []
    batch_no = [0]
    distinct = set()
    n_cfg = 0
    n_child = 0
    for (label, cfg, world, kinds, er) in grids(chk.tier):
        n_cfg += 1
        paths, pmeta = [], []
        exec_term = None
        for trail, (log, ending, k) in S.all_paths(lambda o: S.run_child(cfg, world, o, er), kinds):
            chk.dist('grid:' + label)
            nfail = len([1 for _, d in trail if d is not None])
            chk.dist('failing_sites:%d' % min(nfail, 4))
            for s, d in trail:
                if d is not None:
                    chk.dist('fault:%s:%s' % (s.split(':')[0], d[0] if d[0] == 'os' else d[1]))
            chk.dist('ending:%s' % (ending if isinstance(ending, str) else ending[0]))
            if k.unexpected:
                chk.violation({'kind': 'the child path uses a system call the model does not know', 'calls': k.unexpected,
                               'cfg': cfg, 'world': _w(world), 'oracle': trail})
                continue
            verdict = judge(cfg, world, log, ending, er)
            try:
                if sites_of_log(log) != [(s_, d_) for s_, d_ in trail]:
                    raise Unmodelled('sites consulted %r are not the sites of the logged calls' % (trail,))
                lterm, ex = compact_log(log, cfg)
                if ex is not None:
                    if exec_term not in (None, ex):
                        raise Unmodelled('two different execve calls for one configuration')
                    exec_term = ex
                term = '(%s, %s, %s)' % (blit(er), lterm, ending_term(ending))
            except Unmodelled as e:
                chk.violation({'kind': 'C18 fails on the implementation' if verdict else 'observable outside the model',
                               'what': verdict, 'detail': str(e), 'cfg': cfg, 'world': _w(world),
                               'oracle': trail, 'log': _log(log), 'ending': ending, 'exit_returns': er},
                              nofail=verdict is None)
                continue
            if verdict is not None:
                chk.violation({'kind': 'C18 fails on the implementation', 'what': verdict, 'cfg': cfg, 'world': _w(world),
                               'oracle': trail, 'log': _log(log), 'ending': ending, 'exit_returns': er})
            paths.append(term)
            pmeta.append((trail, log, ending))
            distinct.add((tuple((e[0], None if r is None else r[0]) for e, r in log), str(ending)))
        n_child += len(paths)
        # split big groups so that one Coq file stays small
        if sum(len(g[4]) for g in gmeta) > 150000:
            flush_child(chk, wd, groups, gmeta, 'child%d' % batch_no[0])
            batch_no[0] += 1
            del groups[:]
            del gmeta[:]
        for k0 in range(0, len(paths), 250):
            groups.append('(%s, %s, %s, %s)' % (cfg_term(cfg), world_term(world), exec_term or 'Setpgrp',
                                                coq_list(paths[k0:k0 + 250])))
            gmeta.append((label, cfg, world, er, paths[k0:k0 + 250], pmeta[k0:k0 + 250]))
    flush_child(chk, wd, groups, gmeta, 'child%d' % batch_no[0])
    # ---- drop_privileges by itself
    dcases, dmeta = [], []
    for wname, (uid, wpart) in sorted(USERS.items()):
        world = dict(environ=ENVIRON, has_setgroups=True)
        world.update(wpart)
        users = [None, 1000, 'bob', 'nosuch', 4711]
        for user in users:
            w = dict(world)
            pw = w.get('pw')
            # the passwd entry "found for the user"
            found = pw if pw and (user == pw[0] or user == pw[1]) else None
            for trail, (log, ending, k) in S.all_paths(lambda o: S.run_drop(w, user, o), KINDS2 + [('os', ENOENT)]):
                if ending[0] == 'value':
                    rv = ending[1]
                    table = {None: 'None', 'No user specified to setuid to!': '(Some RNoUser)',
                             "Can't find username %r" % (user,): '(Some RNoName)',
                             "Can't find uid %r" % (user,): '(Some RNoUid)',
                             "Can't drop privilege as nonroot user": '(Some RNonRoot)',
                             'Could not set groups of effective user': '(Some RSetgroups)',
                             'Could not set group id of effective user': '(Some RSetgid)',
                             'Could not set user id of effective user': '(Some RSetuid)'}
                    if rv not in table:
                        chk.violation({'kind': 'drop_privileges returned an unknown message', 'value': repr(rv)}, nofail=True)
                        continue
                    rterm = '(DValue %s)' % table[rv]
                else:
                    rterm = '(DRaised %s)' % kind_bare(ending[1])
                wm = dict(w, pw=found)
                uterm = 'None' if user is None else ('(Some ByName)' if isinstance(user, str) else '(Some (ById %s))' % zlit(user))
                dcases.append('(%s, %s, %s, %s, %s)' % (
                    world_term(wm), uterm,
                    coq_list(['(%s, %s)' % (site_term(s), kind_term(d)) for s, d in trail]),
                    log_term(log, {}), rterm))
                dmeta.append((wname, user, trail, log, ending))
                chk.dist('drop:%s' % (rterm.split()[0].strip('()')))
                # the law the theorem states, judged on the implementation
                if ending == ('value', None) and user is not None:
                    ids = [e for e, r in log]
                    ok = (w['curuid'] == found[1] and ids == []) or \
                         (w['curuid'] == 0 and ids[-2:] == [('setgid', found[2]), ('setuid', found[1])])
                    if not ok:
                        chk.violation({'kind': 'drop_privileges returned None without switching identity',
                                       'world': _w(w), 'user': user, 'oracle': trail, 'log': _log(log)})
    bad, errs = vlib.coq_compare(IMPORTS, 'drop_case', 'check_drop', dcases, wd, tag='drop')
    for e in errs:
        chk.violation({'kind': 'model evaluation failed', 'part': 'drop_privileges', 'error': e}, nofail=True)
    for i in bad[:5]:
        chk.violation({'kind': 'model and implementation disagree', 'part': 'drop_privileges',
                       'case': repr(dmeta[i]), 'coq_case': dcases[i][:2000]}, nofail=True)
    # ---- parse-time environment merge through the real config parser
    pcases, pmeta = parse_env_cases(chk, wd)
    bad, errs = vlib.coq_compare(IMPORTS, 'envt * envt * envt', 'check_parse_env', pcases, wd, tag='penv')
    for e in errs:
        chk.violation({'kind': 'model evaluation failed', 'part': 'parse_env', 'error': e}, nofail=True)
    for i in bad[:5]:
        chk.violation({'kind': 'model and implementation disagree', 'part': 'parse-time environment merge',
                       'case': repr(pmeta[i])}, nofail=True)
    n_cfg_child = config_child_stream(chk, S, wd)
    # the real fork/exec of the configured command, in both tiers (skipped gracefully when fork is unavailable)
    smoke = '; '.join(fork_smoke(chk, wd, v) for v in ('full', 'falsy'))

    if not proved:
        chk.violation({'kind': 'proof obligation no longer checks', 'detail': chk.proof_failure,
                       'file': 'coq/props/C18.v'}, nofail=not chk.violations)
    cov['evaluations'] = n_child + len(dcases) + len(pcases) + 2 * n_cfg_child
    cov['distinct_nontrivial'] = len(distinct)
    cov['traces_validated_against_impl'] = n_child + len(dcases) + len(pcases) + 2 * n_cfg_child
    cov['exhaustive'] = True
    cov['rule'] = ('%d configurations x every decision path of every oracle (at each call site reached: succeed, '
                   'OSError, other exception; grid C also a second and an unknown errno and a BaseException), each path '
                   'also evaluated in the model with every unreached site failing; %d child runs, %d drop_privileges '
                   'runs, %d parsed configurations; %d processes of numprocs programs from real config text (%%(ENV_X)s, %%(here)s, '
                   'process_num; file loaded by absolute, relative and bare path) through the real parser, get_execv_args and '
                   'child path; distinct = distinct (call, outcome kind) logs with ending; every one contains at least the '
                   'descriptor set-up'
                   % (n_cfg, n_child, len(dcases), len(pcases), n_cfg_child))
    cov['samples'] = [{'cfg': g[1], 'oracle': g[5][j][0], 'log': _log(g[5][j][1]), 'ending': g[5][j][2]}
                      for g, j in ((gmeta[0], 0), (gmeta[len(gmeta) // 2], 3), (gmeta[-1], 7)) if j < len(g[5])] if gmeta else []
    if smoke is not None:
        cov['notes'].append('real fork smoke test: %s' % smoke)



# ---- configuration text -> what each process is exec'd with (numprocs, %(ENV_X)s, %(here)s)

CONF_ENVIRON = {'APP_ROOT': '/srv/app', 'PATH': '/usr/bin:/bin', 'HOME': '/root'}
CONF_TEMPLATES = [
    # (environment=, directory=)  - the PATH="/opt/bin:%(ENV_PATH)s" idiom: a variable of supervisord's own
    # environment is shadowed and referenced; other options see supervisord's environment overlaid with the
    # process's own environment= (documented: ENV_ expansions are extended per process)
    ('APP_ROOT="%(ENV_APP_ROOT)s/inst%(process_num)d",PATH="/opt/bin:%(ENV_PATH)s"', '%(ENV_APP_ROOT)s/%(process_num)d'),
    ('CONF="%(here)s/etc",N="%(process_num)d",APP_ROOT="%(ENV_APP_ROOT)s/x"', '%(here)s/tmp'),
    ('PATH="%(ENV_PATH)s:/extra/%(program_name)s"', '%(ENV_HOME)s'),
    (None, '%(here)s'),
    # blanks inside the quotes belong to the value
    ('SEP=" ",PROMPT="sup> ",LEAD="  two",MID="a b"', '%(here)s'),
    # a literal directory, also configured (or not) as [supervisord] directory: the child must chdir all the same
    (None, '@RUN@'),
]


def config_child_stream(chk, S, wd):
    """Real config text -> real ServerOptions -> every process of a numprocs program through the real child
    path; the same file loaded by absolute path, by a relative path with a directory part and by its bare name."""
    from supervisor.options import ServerOptions
    groups_terms, gmeta = [], []
    confdir = os.path.join(wd, 'cfgtie', 'etc')
    os.makedirs(confdir, exist_ok=True)
    conf = os.path.join(confdir, 'supervisord.conf')
    here = os.path.abspath(confdir)
    loads = [('absolute', conf, None), ('relative', os.path.join('etc', 'supervisord.conf'), os.path.dirname(confdir)),
             ('bare', 'supervisord.conf', confdir)]
    n_proc = 0
    rundir = os.path.join(wd, 'cfgtie', 'run')
    os.makedirs(rundir, exist_ok=True)
    variants = []
    for (envt, dirt) in CONF_TEMPLATES:
        for numprocs, start in ((1, 0), (2, 0), (3, 5)):
            if dirt == '@RUN@':
                if numprocs == 2:
                    variants += [(envt, rundir, numprocs, start, sd) for sd in (None, rundir, wd)]
            else:
                variants.append((envt, dirt, numprocs, start, None))
    variants = [v + ('none', None, False) for v in variants]
    # which server URL the child is told: the program's own serverurl, else the unix socket, else the inet
    # server, else nothing (SUPERVISOR_SERVER_URL absent)
    for servers in ('none', 'unix', 'inet', 'both'):
        for purl in (None, 'AUTO', 'http://explicit.example:9'):
            variants.append((CONF_TEMPLATES[0][0], '%(here)s', 2, 0, None, servers, purl, False))
    # a program adopted by a [group:g] section: %(group_name)s is g, also for the child's SUPERVISOR_GROUP_NAME
    variants.append(('G="%(group_name)s",P="%(program_name)s"', '%(here)s/%(group_name)s', 2, 0, None, 'unix', None, True))
    variants.append((None, '%(here)s/%(group_name)s/%(program_name)s', 1, 0, None, 'none', None, True))
    sock = os.path.join(wd, 'cfgtie', 'sup.sock')
    for (envt, dirt, numprocs, start, supdir, servers, purl, grouped) in variants:
        if True:
            gname = 'g' if grouped else 'w'
            want_fallback = {'none': None, 'unix': 'unix://%s' % sock, 'inet': 'http://127.0.0.1:9009',
                             'both': 'unix://%s' % sock}[servers]
            want_purl = None if purl in (None, 'AUTO') else purl
            lines = ['[supervisord]', 'logfile=%s/s.log' % wd, 'pidfile=%s/s.pid' % wd, 'childlogdir=%s' % wd] + \
                    (['directory=%s' % supdir] if supdir else []) + \
                    (['[inet_http_server]', 'port=127.0.0.1:9009'] if servers in ('inet', 'both') else []) + \
                    (['[unix_http_server]', 'file=%s' % sock] if servers in ('unix', 'both') else []) + \
                    (['[group:g]', 'programs=w'] if grouped else []) + [
                     '[program:w]', 'command=/bin/cat -u', 'numprocs=%d' % numprocs, 'numprocs_start=%d' % start,
                     'process_name=%(program_name)s_%(process_num)d', 'stdout_logfile=NONE', 'stderr_logfile=NONE',
                     'directory=%s' % dirt]
            if envt is not None:
                lines.append('environment=%s' % envt)
            if purl is not None:
                lines.append('serverurl=%s' % purl)
            text = '\n'.join(lines) + '\n'
            with open(conf, 'w') as f:
                f.write(text)
            for (mode, path, cwd) in loads:
                chk.dist('config_child:%s' % mode)
                o = ServerOptions()
                o.environ_expansions = dict(('ENV_' + k, v) for k, v in CONF_ENVIRON.items())   # supervisord's own environment
                back = os.getcwd()
                try:
                    if cwd is not None:
                        os.chdir(cwd)
                    o.realize(args=['-c', path, '-n'])
                finally:
                    os.chdir(back)
                o.minfds = 3
                if [g_.name for g_ in o.process_group_configs] != [gname]:
                    chk.violation({'kind': 'unexpected group names from the parser', 'names': [g_.name for g_ in o.process_group_configs],
                                   'config': text})
                    continue
                pconfigs = sorted(o.process_group_configs[0].process_configs, key=lambda pc: pc.name)
                if [pc.name for pc in pconfigs] != ['w_%d' % n for n in range(start, start + numprocs)]:
                    chk.violation({'kind': 'unexpected process names from the parser', 'names': [pc.name for pc in pconfigs]})
                    continue
                for n, pc in zip(range(start, start + numprocs), pconfigs):
                    n_proc += 1
                    # the reference: every process expands against supervisord's environment, never a sibling's
                    base = dict(('ENV_' + k, v) for k, v in CONF_ENVIRON.items())
                    base.update({'here': here, 'program_name': 'w', 'group_name': gname, 'process_num': n, 'numprocs': numprocs})
                    want_env = {}
                    if envt is not None:
                        for item in envt.split('",'):
                            k, v = item.split('="', 1)
                            want_env[k] = (v[:-1] if v.endswith('"') else v) % base
                    own = dict(base)
                    own.update(('ENV_' + k, v) for k, v in want_env.items())
                    want_dir = dirt % own
                    world = dict(environ=dict(CONF_ENVIRON), curuid=0, pw=None, groups=[], has_setgroups=True)
                    cfg = dict(name=pc.name, uid=None, file='/bin/cat', argv=['/bin/cat', '-u'], directory=want_dir, umask=None,
                               environment=want_env, serverurl=want_purl, options_serverurl=want_fallback,
                               redirect_stderr=False, minfds=3, fcgi=False, group=gname)
                    paths = []
                    for decisions in ([], [None, None, None, None, ('os', ENOENT)]):
                        orc = S.PathOracle(decisions)
                        log, ending, k, filename, argv = S.run_child_parsed(pc, o.process_group_configs[0].name, world, orc)
                        problem = None
                        if k.unexpected:
                            problem = 'unmodelled system call %r' % (k.unexpected,)
                        elif dict(pc.environment or {}) != want_env or pc.directory != want_dir:
                            problem = ('process %s is configured with environment %r and directory %r; the configuration '
                                       'means %r and %r' % (pc.name, dict(pc.environment or {}), pc.directory, want_env, want_dir))
                        elif not decisions and ending != 'exec':
                            problem = 'no call fails, yet the configured command is not executed (ending %r)' % (ending,)
                        else:
                            problem = judge(cfg, world, log, ending, False)
                        if problem:
                            chk.violation({'kind': 'C18 fails on the implementation (configuration -> child)', 'what': problem,
                                           'config': text, 'loaded_as': path, 'cwd': cwd, 'process': pc.name,
                                           'supervisord_environment': CONF_ENVIRON, 'log': _log(log), 'ending': ending})
                            break
                        try:
                            lterm, ex = compact_log(log, cfg)
                            paths.append(('(false, %s, %s)' % (lterm, ending_term(ending)), ex, (orc.trail, log, ending)))
                        except Unmodelled as e:
                            chk.violation({'kind': 'observable outside the model', 'detail': str(e), 'config': text,
                                           'process': pc.name}, nofail=True)
                    if paths:
                        ex = [p_[1] for p_ in paths if p_[1]]
                        groups_terms.append('(%s, %s, %s, %s)' % (cfg_term(cfg), world_term(world), ex[0] if ex else 'Setpgrp',
                                                                 coq_list([p_[0] for p_ in paths])))
                        gmeta.append(('config_child', cfg, world, False, [p_[0] for p_ in paths], [p_[2] for p_ in paths]))
    flush_child(chk, wd, groups_terms, gmeta, 'cfgtie')
    return n_proc


def flush_child(chk, wd, groups, gmeta, tag):
    """Let Coq compare one batch of configuration groups; narrow a bad group down to single cases."""
    if not groups:
        return
    bad, errs = vlib.coq_compare(IMPORTS, 'child_group', 'check_group', groups, wd, tag=tag, shard=4,
                                 preamble='Open Scope Z_scope.')
    for e in errs:
        chk.violation({'kind': 'model evaluation failed', 'part': 'child', 'error': e}, nofail=True)
    for gi in bad[:3]:
        label, cfg, world, er, paths, pmeta = gmeta[gi]
        flat = ['(%s, %s, %s, %s, %s, %s)' % (
            blit(er), cfg_term(cfg), world_term(world),
            coq_list(['(%s, %s)' % (site_term(s_), kind_term(d_)) for s_, d_ in tr]), log_term(lg, cfg), ending_term(en))
            for (tr, lg, en) in pmeta]
        bad2, errs2 = vlib.coq_compare(IMPORTS, 'child_case', 'check_child', flat, wd, tag='%sflat%d' % (tag, gi))
        for i in (bad2[:3] or [0]):
            trail, log, ending = pmeta[i]
            chk.violation({'kind': 'model and implementation disagree', 'part': 'child', 'grid': label, 'cfg': cfg,
                           'world': _w(world), 'oracle': trail, 'log': _log(log), 'ending': ending, 'exit_returns': er,
                           'coq_case': flat[i][:3000],
                           'explanation': 'the Coq model of _spawn_as_child (about which the C18 theorems are proved) '
                                          'produces a different call log or ending than the real code for this oracle; '
                                          "the implementation's own trace satisfies the C18 monitor"},
                          nofail=True)


def _w(world):
    return dict(world, environ=dict(world['environ']))


def _log(log):
    out = []
    for e, r in log:
        out.append([[x.decode('latin-1') if isinstance(x, bytes) else x for x in e], r])
    return out


def parse_env_cases(chk, wd):
    """[supervisord] environment x [program] environment through the real parser."""
    from supervisor.options import ServerOptions
    choices = [None, {'A': '1'}, {'A': 'sup', 'B': 'sup2'}, {'C': 'x', 'A': 'p'}]
    cases, meta = [], []
    for senv, penv in itertools.product(choices, choices):
        def fmt(d):
            return ','.join('%s="%s"' % kv for kv in d.items())
        text = '[supervisord]\n' + ('environment=%s\n' % fmt(senv) if senv is not None else '')
        text += '[program:p]\ncommand=/bin/cat\n' + ('environment=%s\n' % fmt(penv) if penv is not None else '')
        path = os.path.join(wd, 'penv.conf')
        with open(path, 'w') as f:
            f.write(text)
        o = ServerOptions()
        o.realize(args=['-c', path, '-n'])
        got = o.process_group_configs[0].process_configs[0].environment
        cases.append('(%s, %s, %s)' % (env_items((senv or {}).items()), env_items((penv or {}).items()),
                                       env_items(sorted(got.items()))))
        meta.append((senv, penv, got))
        chk.dist('parse_env')
        # the property, judged on the implementation: [program:x] overrides [supervisord]
        want = dict(senv or {})
        want.update(penv or {})
        if dict(got) != want:
            chk.violation({'kind': 'C18 fails on the implementation', 'what': 'configured environment of the program is not '
                           '[supervisord] environment overlaid with [program:x] environment', 'supervisord': senv,
                           'program': penv, 'got': dict(got), 'config': text})
    return cases, meta


CHILD_REPORT = r'''
import os, sys, json
fds = {}
for n in sorted(os.listdir('/proc/self/fd'), key=int):
    try:
        fds[n] = os.readlink('/proc/self/fd/' + n)
    except OSError:
        pass
um = os.umask(0); os.umask(um)
json.dump({'fds': fds, 'pgid': os.getpgrp(), 'pid': os.getpid(), 'cwd': os.getcwd(), 'umask': um,
           'env': dict(os.environ)}, sys.stdout)
'''


def fork_smoke(chk, wd, variant='full'):
    """One real forked child through the real Subprocess.spawn() (real get_execv_args, real fork,
    real execve of the configured command): it reports its descriptors, process group, cwd, umask and
    environment.  variant 'full': directory, umask 037, environment, group, separate stderr;
    variant 'falsy': umask 000, no directory, no environment, no group, redirect_stderr."""
    import select
    import time
    try:
        from supervisor.options import ServerOptions, ProcessConfig
        from supervisor.process import Subprocess
        import logging
        full = (variant == 'full')
        script = os.path.join(wd, 'report_%s.py' % variant)
        with open(script, 'w') as f:
            f.write(CHILD_REPORT)
        d = os.path.join(wd, 'cwd_' + variant)
        os.mkdir(d)
        options = ServerOptions()
        options.minfds = 64

        class L(object):
            def __getattr__(self, n):
                return lambda *a, **k: None
        options.logger = L()
        options.serverurl = 'unix:///smoke.sock'
        options.loglevel = 20
        options.strip_ansi = False
        params = dict(
            name='smoke', uid=None, command='%s %s' % (vlib.PY, script), directory=d if full else None,
            umask=0o37 if full else 0,
            priority=999, autostart=True, autorestart=False, startsecs=0, startretries=0,
            stdout_logfile=None, stdout_capture_maxbytes=0, stdout_events_enabled=False, stdout_syslog=False,
            stdout_logfile_backups=0, stdout_logfile_maxbytes=0,
            stderr_logfile=None, stderr_capture_maxbytes=0, stderr_logfile_backups=0, stderr_logfile_maxbytes=0,
            stderr_events_enabled=False, stderr_syslog=False,
            stopsignal=15, stopwaitsecs=1, stopasgroup=False, killasgroup=False, exitcodes=(0,),
            redirect_stderr=not full,
            environment={'C18': 'yes', 'SUPERVISOR_ENABLED': 'overridden'} if full else None, serverurl=None)
        pconfig = ProcessConfig(options, **params)
        proc = Subprocess(pconfig)

        class G(object):
            class config(object):
                name = 'smokegroup'
        proc.group = G() if full else None
        extra = os.open(os.devnull, os.O_RDONLY)        # a descriptor the child must not inherit (< minfds)
        os.dup2(extra, 20)
        os.close(extra)
        pid = proc.spawn()
        if not pid:
            return 'skipped: spawn failed (%r)' % (proc.spawnerr,)
        out = b''
        fd = proc.pipes['stdout']
        deadline = time.time() + 20
        while time.time() < deadline:
            r, _, _ = select.select([fd], [], [], 0.5)
            if r:
                try:
                    chunk = os.read(fd, 65536)
                except OSError:
                    continue
                if not chunk:
                    break
                out += chunk
        os.waitpid(pid, 0)
        for p in set(proc.pipes.values()):
            if p is not None:
                try:
                    os.close(p)
                except OSError:
                    pass
        try:
            os.close(20)
        except OSError:
            pass
        rep = json.loads(out.decode())
        problems = []
        open_fds = sorted(int(n) for n in rep['fds'] if rep['fds'][n] and not rep['fds'][n].startswith('/proc/'))
        if [n for n in open_fds if 3 <= n < 64]:
            problems.append('descriptors below minfds left open: %r' % rep['fds'])
        for n in ('0', '1', '2'):
            if not rep['fds'].get(n, '').startswith('pipe:'):
                problems.append('descriptor %s is not a pipe' % n)
        if (rep['fds'].get('1') == rep['fds'].get('2')) != (not full):
            problems.append('stderr %s the stdout pipe with redirect_stderr=%r' % (
                'shares' if full else 'does not share', not full))
        if rep['pgid'] != rep['pid']:
            problems.append('child is not a process group leader')
        if os.path.realpath(rep['cwd']) != os.path.realpath(d if full else os.getcwd()):
            problems.append('cwd %r' % rep['cwd'])
        if rep['umask'] != (0o37 if full else 0):
            problems.append('umask %o' % rep['umask'])
        want = dict(os.environ)
        if full:
            want.update({'SUPERVISOR_ENABLED': 'overridden', 'SUPERVISOR_SERVER_URL': 'unix:///smoke.sock',
                         'SUPERVISOR_PROCESS_NAME': 'smoke', 'SUPERVISOR_GROUP_NAME': 'smokegroup', 'C18': 'yes'})
        else:
            want.update({'SUPERVISOR_ENABLED': '1', 'SUPERVISOR_SERVER_URL': 'unix:///smoke.sock',
                         'SUPERVISOR_PROCESS_NAME': 'smoke'})
            want.pop('SUPERVISOR_GROUP_NAME', None)
        got = dict(rep['env'])
        for k in ('LC_CTYPE',):     # CPython may add it at start-up
            if k not in want:
                got.pop(k, None)
        if got != want:
            diff = {k: (want.get(k), got.get(k)) for k in set(want) | set(got) if want.get(k) != got.get(k)}
            problems.append('environment differs: %r' % diff)
        if problems:
            chk.violation({'kind': 'real forked child does not run in the promised environment', 'problems': problems,
                           'variant': variant, 'report': rep})
            return 'FAILED ' + '; '.join(problems)
        chk.dist('fork_smoke')
        return 'ok (%s): the configured command ran with pgid=pid, fds 0-2 pipes, nothing open in 3..63, cwd, umask and environment as promised' % variant
    except (OSError, ImportError, ValueError, TypeError, AttributeError) as e:
        return 'skipped: %r' % (e,)


def replay(chk, path):
    with open(path) as f:
        obj = json.load(f)
    print(json.dumps(obj, indent=1)[:6000])
    if 'cfg' in obj and 'oracle' in obj and 'world' in obj:
        import c18_seam as S
        table = [(s, tuple(d) if d is not None else None) for s, d in obj['oracle']]
        o = S.PathOracle([d for _, d in table])
        log, ending, k = S.run_child(obj['cfg'], obj['world'], o, obj.get('exit_returns', False))
        print('replayed on the current tree: ending=%r' % (ending,))
        for e in log:
            print('  ', e)
        v = judge(obj['cfg'], obj['world'], log, ending, obj.get('exit_returns', False))
        print('C18 monitor on this trace:', v or 'satisfied')
        if v:
            chk.violation(obj)
        return
    run(chk)
