"""C16, streaming half: /logtail and /mainlogtail streams, chunked coding.

Hook: props/c16.py calls `c16b.run_part(chk, workdir)` after its own work (see
notes/C16b.md).  `run(chk)` lets the part run on its own (`./check C16B`) during
development; the evidence of record is C16's.

Theorems: coq/props/C16b.v over coq/C16/TailF.v, Chunked.v, StreamProofs.v.
Correspondence (all compared inside coqc):
  tail    real tail_f_producer on real files through scripted histories
          (append, rotate = rename+create, remove+create, truncate,
          truncate+regrow, unlink, writes to the rotated file), polled after
          every step, against TailF.run;
  stream  the real /logtail and /mainlogtail responses of the real server over
          a unix socket (handler -> done() -> producer chain -> channel) for
          HTTP/1.1, burst by burst, against Chunked.bursts (TailF + encoder);
  decode  every received stream plus generated and damaged streams, cut into
          random segments, through the REAL http_client.HTTPHandler
          (async_chat.handle_read), against Chunked.client_feed (buffer-wise
          model) and the byte-wise machine the theorems are about; an
          independent decoder in the harness judges the real client directly;
  hex     '%x' against print_hex.
"""
import json
import os

import vlib
from vlib import zlit, bytes_lit, coq_list, coq_opt

IMPORTS = ['SV.C16.TailF', 'SV.C16.Chunked', 'SV.C16.Channel', 'SV.C16.LogRead', 'SV.C16.RpcFiles']
LEVEL = 'proof'


def prove_extra(chk, prop_rel):
    """chk.prove for a second property file of the same check: merge instead of
    overwrite."""
    cov = chk.coverage
    keep = dict((k, cov.get(k)) for k in ('obligations', 'discharged', 'theorems', 'axioms_used', 'model_files', 'checker_cmd'))
    pf = getattr(chk, 'proof_failure', None)
    ok = chk.prove(prop_rel)
    if keep['theorems']:
        cov['obligations'] = (keep['obligations'] or 0) + cov['obligations']
        cov['discharged'] = (keep['discharged'] or 0) + cov['discharged']
        cov['theorems'] = keep['theorems'] + cov['theorems']
        cov['axioms_used'] = sorted(set((keep['axioms_used'] or []) + (cov.get('axioms_used') or [])))
        cov['model_files'] = sorted(set((keep['model_files'] or []) + (cov.get('model_files') or [])))
        cov['checker_cmd'] = (keep['checker_cmd'] or '') + ' ; ' + cov['checker_cmd']
    failure = chk.proof_failure
    if pf and not failure:
        chk.proof_failure = pf
    return ok, failure


# ------------------------------------------------------------- histories

ALPHA = b'abcdefghijklmnopqrstuvwxyz0123456789\n\r \xc3\xa9\x00\xff'


def rbytes_ascii(rng, n):
    return bytes(rng.choice(b'abcdefghijklmnopqrstuvwxyz0123456789\n ') for _ in range(n))


def rbytes(rng, n):
    return bytes(rng.choice(ALPHA) for _ in range(n))


def gen_ops(rng, hostile):
    k = rng.random()
    n = rng.choice([0, 1, 2, 3, 7, 20])
    if not hostile:
        if k < 0.55:
            return [('append', rbytes(rng, rng.choice([1, 2, 5, 30])))]
        if k < 0.65:
            return []                                           # nothing happened
        if k < 0.75:
            return [('rotate', rbytes(rng, rng.choice([0, 0, 0, 7, 7, 40, 1100])))]
        if k < 0.82:
            return [('remove_create', rbytes(rng, rng.choice([0, 0, 0, 7, 7, 40, 1100])))]
        if k < 0.9:
            return [('truncate', 0)]
        return [('append', rbytes(rng, 3)), ('append', rbytes(rng, 2))]
    # hostile: several things between two polls
    ops = []
    for _ in range(rng.randrange(1, 4)):
        k = rng.random()
        if k < 0.25:
            ops.append(('append', rbytes(rng, n)))
        elif k < 0.4:
            ops.append(('rotate', rbytes(rng, rng.choice([0, 0, 3, 40]))))
        elif k < 0.5:
            ops.append(('remove_create', rbytes(rng, rng.choice([0, 2, 50]))))
        elif k < 0.6:
            ops.append(('truncate', rng.choice([0, 1, 2, 5])))
        elif k < 0.75:
            ops.append(('truncate_regrow', rbytes(rng, rng.choice([0, 1, 5, 60]))))
        elif k < 0.82:
            ops.append(('unlink',))
        elif k < 0.9:
            ops.append(('recreate', rbytes(rng, rng.choice([0, 4]))))
        else:
            ops.append(('append_old', rbytes(rng, 3)))
    # appends need the path
    return ops


# request-header variants of a tail request; HTTP/1.1 without `close` must be chunked
CHUNKED_VARIANTS = [(), ('Connection: keep-alive',), ('Connection: Keep-Alive',), ('connection: KEEP-ALIVE',),
                    ('Connection: keep-alive, TE', 'TE: trailers'), ('Host: localhost', 'Connection: keep-alive', 'Accept: */*'),
                    ('Connection: TE',), ('Proxy-Connection: keep-alive',)]
REQUEST_VARIANTS = ([('1.1', hv, True) for hv in CHUNKED_VARIANTS] +
                    [('1.1', ('Connection: close',), False), ('1.1', ('Connection: Close',), False),
                     ('1.0', (), False), ('1.0', ('Connection: keep-alive',), False), ('1.0', ('Connection: Keep-Alive',), False)])

SCRIPTED = [
    # (initial, steps, head)
    (b'', [[('append', b'a')], [('append', b'bc')], [], [('append', b'd')]], 1024),
    (b'0123456789', [[], [('append', b'x')]], 4),
    (b'0123', [[], [('append', b'x')]], 4),
    (b'012', [[], [('append', b'x')]], 4),
    (b'abc', [[], [('rotate', b'')], [('append', b'new')]], 1024),
    (b'abc', [[], [('append', b'def'), ('rotate', b'')], [('append', b'new')]], 1024),        # tail of old file lost
    (b'abc', [[], [('rotate', b'XYZWV')], [('append', b'!')]], 1024),                         # rotated and already larger
    (b'abc', [[], [('remove_create', b'')], [('append', b'n')]], 1024),
    # the new file already holds more than `head` (1024) bytes at the first poll after the rotation / re-creation:
    # all of it must be delivered, from its first byte
    (b'abc', [[], [('rotate', bytes(range(32, 127)) * 16)], [('append', b'!')]], 1024),
    (b'abc' * 500, [[], [('remove_create', bytes(range(48, 100)) * 40)], [('append', b'more')], []], 1024),
    (b'', [[], [('rotate', b'x' * 1024)], [('rotate', b'y' * 1025), ('append', b'z')]], 1024),
    (b'abcdef', [[], [('truncate', 2)], [], [('append', b'gh')]], 1024),
    (b'abcdef', [[], [('truncate', 0)], [('append', b'gh')]], 1024),
    (b'abc', [[], [('truncate_regrow', b'xyzw')], []], 1024),                                  # truncated + regrown beyond sz
    (b'abc', [[], [('truncate_regrow', b'xyz')], [('append', b'!')]], 1024),                   # regrown to exactly sz
    (b'abc', [[], [('truncate_regrow', b'x')], [], [('append', b'y')]], 1024),
    (b'abc', [[], [('unlink',)], [('append_old', b'zz')], [('recreate', b'fresh')], [('append', b'!')]], 1024),
    (b'abc', [[], [('rotate', b'')], [('append_old', b'late')], [('append', b'n')]], 1024),
]


def hist_term(states):
    return coq_list(['(%s, %s)' % (coq_opt(None if pid is None else zlit(pid)), table_term(tbl))
                     for pid, tbl in states])


def table_term(tbl):
    return coq_list(['(%s, %s)' % (zlit(i), bytes_lit(c)) for i, c in sorted(tbl.items())])


def out_term(o):
    if o[0] == 'data':
        return '(Data %s)' % bytes_lit(o[1])
    if o[0] == 'notice':
        return 'Notice'
    return 'NotDone'


# ------------------------------------------------------------- the part

def run(chk):
    with vlib.WorkDir('c16b') as wd:
        run_part(chk, wd)


def run_part(chk, workdir):
    import c16b_stream as H
    import c17_server as S17
    proved, failure = prove_extra(chk, 'props/C16b.v')
    wd = os.path.join(workdir, 'c16b')
    os.makedirs(wd, exist_ok=True)
    rng = chk.rng
    quick = chk.tier == 'quick'
    stats = {}
    known = {'regrow': 0, 'rotation_tail': 0, 'http10': 0}

    def count(k, n=1):
        stats[k] = stats.get(k, 0) + n
        chk.dist('c16b:' + k, n)

    # ---- 1. tail_f_producer on real files
    tail_cases, tail_meta = [], []
    histories = [(i, s, h, 'scripted') for (i, s, h) in SCRIPTED]
    for k in range(120 if quick else 2500):
        hostile = rng.random() < 0.4
        initial = rbytes(rng, rng.choice([0, 1, 3, 10, 50]))
        head = rng.choice([1024, 1024, 0, 1, 4, 10])
        steps = [[]] + [gen_ops(rng, hostile) for _ in range(rng.randrange(1, 7))]
        histories.append((initial, steps, head, 'hostile' if hostile else 'plain'))
    distinct = set()
    for initial, steps, head, kind in histories:
        try:
            id0, table0, trace = H.drive_producer(wd, initial, steps, head)
        except Exception as e:
            # an op on a missing path etc.: skip the rest of this history
            count('tail:skipped')
            continue
        count('tail:' + kind)
        for _, _, o in trace:
            count('tail-out:' + o[0])
        notice_ok = all(o[1] == '==> File truncated <==\n' for _, _, o in trace if o[0] == 'notice')
        if not notice_ok:
            chk.violation({'kind': 'unexpected truncation notice text', 'history': repr((initial, steps))}, nofail=True)
        tail_cases.append('(%s, %s, %s, %s, %s)' % (
            zlit(id0), table_term(table0), zlit(head),
            hist_term([(pid, tbl) for pid, tbl, _ in trace]), coq_list([out_term(o) for _, _, o in trace])))
        tail_meta.append({'initial': list(initial), 'head': head, 'steps': _j(steps),
                          'outputs': _j([o for _, _, o in trace])})
        distinct.add(('tail', tuple(o[0] for _, _, o in trace), tuple(op[0] for st in steps for op in st)))
        _monitor_tail(chk, initial, head, steps, trace, known)

    # ---- 2. the real responses, HTTP/1.1 chunked
    stream_cases, stream_meta = [], []
    zombie_cases, zombie_meta = [], []
    streams = []          # (body bytes, chunks expected by the model's view) for the decoder part
    bed = H.StreamBed(os.path.join(wd, 'srv'), S17.Testbed) if _mk(os.path.join(wd, 'srv')) else None
    try:
        plan = [(i, s, h) for (i, s, h) in SCRIPTED if h == 1024]
        for k in range(25 if quick else 300):
            hostile = rng.random() < 0.4
            initial = rbytes(rng, rng.choice([0, 1, 3, 10, 50, 1500]))
            plan.append((initial, [gen_ops(rng, hostile) for _ in range(rng.randrange(1, 6))], 1024))
        # a large append (several output buffers) and many small ones
        plan.append((b'', [[('append', rbytes(rng, 9000))], [('append', b'x')]], 1024))
        for idx, (initial, steps, head) in enumerate(plan):
            which = idx % 4
            errlog = os.path.join(bed.workdir, 'p.err.log')
            bed.tb.proc.config.stderr_logfile = errlog
            url, logpath = [('/logtail/g:p', os.path.join(bed.workdir, 'p.log')),
                            ('/mainlogtail', os.path.join(bed.workdir, 'main.log')),
                            ('/logtail/g:p/stderr', errlog),
                            ('/logtail/g%3Ap/stdout', os.path.join(bed.workdir, 'p.log'))][which]
            if steps and steps[0] == []:
                steps = steps[1:]
            try:
                hv = CHUNKED_VARIANTS[idx % len(CHUNKED_VARIANTS)]
                headb, bursts, states = bed.stream(url, logpath, initial, steps, inet=(idx % 3 == 2), headers=hv)
                count('stream-request:' + (hv[0].split(':')[0].lower() + '=' + hv[0].split(':', 1)[1].strip().lower() if hv else 'no-connection-header'))
                count('stream-socket:' + ('inet' if idx % 3 == 2 else 'unix'))
            except OSError:
                count('stream:skipped')
                continue
            count('stream:' + url.split('/')[1] + ('-stderr' if url.endswith('stderr') else '-pct' if '%' in url else ''))
            if not headb.startswith(b'HTTP/1.1 200') or b'Transfer-Encoding: chunked' not in headb:
                chk.violation({'kind': 'PROPERTY VIOLATED: an HTTP/1.1 tail request that does not ask to close did not get a '
                               'chunked 200 response head', 'first_bytes': headb[:300].decode('latin-1'), 'url': url,
                               'request': 'GET %s HTTP/1.1' % url, 'request_headers': list(hv), 'initial': list(initial[:200]),
                               'steps': _j(steps)})
                continue
            id0, table0 = states[0]
            stream_cases.append('(%s, %s, %s, %s, %s)' % (
                zlit(id0), table_term(table0), zlit(1024), hist_term(states), coq_list([bytes_lit(b) for b in bursts])))
            stream_meta.append({'url': url, 'initial': list(initial[:200]), 'steps': _j(steps),
                                'bursts': [list(b[:200]) for b in bursts]})
            body = b''.join(bursts)
            streams.append(body)
            _monitor_stream(chk, H, url, initial, steps, body)
            distinct.add(('stream', url, tuple(len(b) > 0 for b in bursts), tuple(op[0] for st in steps for op in st)))
            # the stream stays open: no terminating chunk
            if body.endswith(b'0\r\n\r\n') and not body.endswith(b'\r\n0\r\n\r\n0\r\n\r\n'):
                data, complete = H.independent_decode(body)
                if complete:
                    chk.violation({'kind': 'tail stream was terminated by the server', 'url': url, 'steps': _j(steps)})
        # ---- 2b. every request-header variant: which requests get the chunked stream.  HTTP/1.1 that does not ask
        #          to close must get a chunked 200 head at once; HTTP/1.0 and `Connection: close` are the known
        #          finding (held back by the globbing producer)
        for version, hv, chunked in REQUEST_VARIANTS:
            for url, logpath in (('/mainlogtail', os.path.join(bed.workdir, 'main.log')),
                                 ('/logtail/g:p', os.path.join(bed.workdir, 'p.log'))):
                initial, steps = b'abc', [[('append', b'def')], [('append', b'ghi')]]
                headb, bursts, states = bed.stream(url, logpath, initial, steps, version=version, headers=hv)
                got = headb + b''.join(bursts)
                count('stream-variant:HTTP/%s %s' % (version, '; '.join(hv) if hv else '-'))
                if chunked:
                    ok = headb.startswith(b'HTTP/1.1 200') and b'Transfer-Encoding: chunked' in headb
                    data = None
                    if ok:
                        try:
                            data, _ = H.independent_decode(b''.join(bursts))
                        except ValueError:
                            data = None
                    if not ok or data != b'abcdefghi':
                        chk.violation({'kind': 'PROPERTY VIOLATED: an HTTP/1.1 tail request that does not ask to close did not '
                                       'get the chunked stream of the log', 'request': 'GET %s HTTP/%s' % (url, version),
                                       'request_headers': list(hv), 'initial': list(initial), 'steps': _j(steps),
                                       'received': list(got[:600]), 'expected_body': list(b'abcdefghi')})
                else:
                    if got == b'':
                        known['http10'] += 1
                    elif b'abcdefghi' not in got:
                        chk.violation({'kind': 'non-chunked tail delivered something other than the log bytes',
                                       'request': 'GET %s HTTP/%s' % (url, version), 'request_headers': list(hv),
                                       'got': list(got[:400])}, nofail=True)
        # ---- 2c. maintenance (kill_zombies) while a tail is streaming: the fake clock runs past zombie_timeout
        #          (30 min) in steps during which stream A keeps delivering; then the real maintenance is
        #          triggered through the real accept path.  In use => stays open; idle beyond the timeout => closed.
        for step_s, nsteps, idle in ((200, 10, 0), (200, 5, 0), (600, 4, 1700), (1000, 2, 1801)):
            z = bed.zombie_scenario(step_s, nsteps, idle)
            count('zombie:scenario')
            sched = {'timeline': z['timeline'], 'zombie_timeout': z['timeout'], 'clock_at_maintenance': z['now'],
                     'channels_last_used_creation_survived': z['channels']}
            total_idle = step_s * nsteps + idle      # how long B, C, D have been idle at maintenance
            a_idle = idle                            # A delivered at the last step
            gotA = z['got']['A']
            hi = gotA.find(b'\r\n\r\n')
            try:
                dataA, _ = H.independent_decode(gotA[hi + 4:]) if hi >= 0 else (None, False)
            except ValueError:
                dataA = None
            if a_idle <= z['timeout']:
                if z['closed']['A'] or dataA != z['initial'] + z['appended']:
                    chk.violation(dict(sched, kind='PROPERTY VIOLATED: a /mainlogtail stream that delivered data within '
                                       'zombie_timeout was closed by maintenance (the response must stay open)',
                                       closed=z['closed']['A'], received=list(gotA[-400:]),
                                       expected_body=list(z['initial'] + z['appended'])))
            elif not z['closed']['A']:
                chk.violation(dict(sched, kind='a stream idle beyond zombie_timeout survived maintenance'), nofail=True)
            for k in ('B', 'C', 'D'):
                if (total_idle > z['timeout']) != z['closed'][k]:
                    chk.violation(dict(sched, kind='maintenance closed a connection idle for less than zombie_timeout, or kept '
                                       'one idle for longer', connection=k, idle_seconds=total_idle, closed=z['closed'][k]),
                                  nofail=z['closed'][k] is False)
            zombie_cases.append('(%s, %s, %s)' % (zlit(z['now']), zlit(z['timeout']),
                                                  coq_list(['(%s, %s)' % (zlit(lu), 'true' if sv else 'false')
                                                            for lu, ct, sv in z['channels']])))
            zombie_meta.append(sched)
            distinct.add(('zombie', step_s, nsteps, idle, tuple(sorted(z['closed'].items()))))
    finally:
        if bed is not None:
            bed.close()

    # ---- 2d. the same streams from servers built WITH authentication (valid credentials on every request):
    #          both tail URLs must stream exactly as without authentication; without credentials: 401, no log byte
    import base64 as _b64
    abed = H.StreamBed(os.path.join(wd, 'srv-auth'), S17.Testbed, 'alice', 's3cret') if _mk(os.path.join(wd, 'srv-auth')) else None
    try:
        auth = 'Authorization: Basic ' + _b64.b64encode(b'alice:s3cret').decode()
        errlog = os.path.join(abed.workdir, 'p.err.log')
        abed.tb.proc.config.stderr_logfile = errlog
        aplan = [(b'abc', [[('append', b'def')], [('append', b'ghi')]]),
                 (b'0123', [[('rotate', b'')], [('append', b'new')], [('truncate', 0)], [('append', b'x')]])]
        for k in range(3 if quick else 40):
            aplan.append((rbytes(rng, rng.choice([0, 3, 40])), [gen_ops(rng, False) for _ in range(rng.randrange(1, 5))]))
        urls = [('/mainlogtail', os.path.join(abed.workdir, 'main.log')), ('/logtail/g:p', os.path.join(abed.workdir, 'p.log')),
                ('/logtail/g:p/stderr', errlog), ('/logtail/g%3Ap/stdout', os.path.join(abed.workdir, 'p.log'))]
        for idx, (initial, steps) in enumerate(aplan):
            for ui, (url, logpath) in enumerate(urls):
                if idx >= 2 and ui != idx % 4:
                    continue
                try:
                    headb, bursts, states = abed.stream(url, logpath, initial, steps, inet=(idx % 2 == 1),
                                                       headers=(auth, 'Connection: keep-alive'))
                except OSError:
                    count('stream:skipped')
                    continue
                count('stream-auth:' + url.split('/')[1])
                if not headb.startswith(b'HTTP/1.1 200') or b'Transfer-Encoding: chunked' not in headb:
                    chk.violation({'kind': 'PROPERTY VIOLATED: with authentication configured, a tail request carrying the right '
                                   'credentials did not get the chunked 200 stream', 'request': 'GET %s HTTP/1.1' % url,
                                   'request_headers': [auth, 'Connection: keep-alive'], 'server_credentials': ['alice', 's3cret'],
                                   'first_bytes': headb[:300].decode('latin-1'), 'initial': list(initial[:200]), 'steps': _j(steps)})
                    continue
                id0, table0 = states[0]
                stream_cases.append('(%s, %s, %s, %s, %s)' % (
                    zlit(id0), table_term(table0), zlit(1024), hist_term(states), coq_list([bytes_lit(b) for b in bursts])))
                stream_meta.append({'url': url, 'authenticated': True, 'initial': list(initial[:200]), 'steps': _j(steps),
                                    'bursts': [list(b[:200]) for b in bursts]})
                _monitor_stream(chk, H, url + ' (authenticated server)', initial, steps, b''.join(bursts))
                distinct.add(('stream-auth', url, tuple(len(b) > 0 for b in bursts)))
        for url, logpath in urls[:2]:
            headb, bursts, states = abed.stream(url, logpath, b'secret-bytes', [[('append', b'more-secret')]])
            count('stream-auth:no-credentials')
            got = headb + b''.join(bursts)
            if not got.startswith(b'HTTP/1.1 401') or b'secret' in got:
                chk.violation({'kind': 'PROPERTY VIOLATED: tail request without credentials on an authenticated server was not a '
                               'plain 401', 'request': 'GET %s HTTP/1.1' % url, 'received': list(got[:400])})
    finally:
        if abed is not None:
            abed.close()

    # ---- 3. decoding under arbitrary segmentation: real client vs models
    dec_cases, dec_meta = [], []
    pool = list(streams)
    for k in range(40 if quick else 600):
        chunks = [rbytes(rng, rng.choice([1, 2, 9, 15, 16, 17, 255, 256, 300])) for _ in range(rng.randrange(0, 5))]
        enc = b''.join(b'%x\r\n' % len(c) + c + b'\r\n' for c in chunks)
        if rng.random() < 0.6:
            enc += b'0\r\n\r\n'
        pool.append(enc)
    resp_head = b'HTTP/1.1 200 OK\r\nServer: x\r\nTransfer-Encoding: chunked\r\nContent-Type: text/plain\r\n\r\n'
    for body in pool:
        variants = [(body, 'valid')]
        for _ in range(1 if quick else 3):
            variants.append((_damage(rng, body), 'damaged'))
        for stream, kind in variants:
            if len(stream) > 4000:
                stream = stream[:4000]
                kind = kind + '-cut'
            for _ in range(2 if quick else 4):
                segs = _segment(rng, resp_head + stream)
                fed, dead, lis = H.client_decode(segs)
                # body segments as the model sees them
                bsegs, seen = [], 0
                for sg in segs:
                    lo = max(0, len(resp_head) - seen)
                    seen += len(sg)
                    if lo < len(sg):
                        bsegs.append(sg[lo:])
                count('decode:' + kind)
                if kind == 'valid' or kind == 'valid-cut':
                    try:
                        data, complete = H.independent_decode(stream)
                        if b''.join(fed) != data or dead:
                            chk.violation({'kind': 'PROPERTY VIOLATED: the bundled client reassembles a well-formed chunked '
                                           'stream to different bytes under this segmentation',
                                           'stream': list(stream), 'segments': [len(x) for x in segs],
                                           'client': list(b''.join(fed)), 'expected': list(data), 'dead': dead})
                    except ValueError:
                        pass
                dec_cases.append('(%s, %s, %s)' % (coq_list([bytes_lit(x) for x in bsegs]),
                                                   coq_list([bytes_lit(x) for x in fed]), 'true' if dead else 'false'))
                dec_meta.append({'stream': list(stream[:600]), 'segments': [len(x) for x in bsegs], 'kind': kind,
                                 'fed': [list(x[:100]) for x in fed], 'dead': dead})
                distinct.add(('dec', kind, len(fed), dead, min(len(bsegs), 6)))

    # ---- 3b. the real encoder chain on generated pieces (terminated streams)
    enc_cases, enc_meta = [], []
    for k in range(40 if quick else 500):
        chunks = [rbytes(rng, rng.choice([1, 2, 9, 15, 16, 17, 255, 256, 4095, 4096] if k % 5 == 0 else [1, 2, 3, 16, 40]))
                  for _ in range(rng.randrange(0, 5))]
        pieces = []
        for c in chunks:
            if rng.random() < 0.3:
                pieces.append(None)                      # NOT_DONE_YET in between
            pieces.append(c if rng.random() < 0.8 else c.decode('latin-1').encode('latin-1'))
        sent = H.real_encode(pieces)
        enc_cases.append('(%s, %s)' % (coq_list([bytes_lit(c) for c in chunks]), bytes_lit(sent)))
        enc_meta.append({'chunks': [list(c[:50]) for c in chunks], 'sent': list(sent[:300])})
        count('encode:chain')
        data, complete = H.independent_decode(sent)
        if data != b''.join(chunks) or not complete:
            chk.violation({'kind': 'PROPERTY VIOLATED: the chunked producer chain emitted a stream that is not the well-formed '
                           'terminated coding of its input', 'chunks': [list(c) for c in chunks], 'sent': list(sent)})

    # ---- 3c. the real channel with a socket that accepts a scripted number of bytes
    #          per send(), interleaved with log appends (initiate_send / refill_buffer)
    chan_cases, chan_meta = [], []
    cbed = H.ChannelBed(os.path.join(wd, 'chan'), S17)
    try:
        ALL = 1 << 30
        scheds = [
            # ordinary use: small appends, whole sends
            (b'abc', [('pass', ALL)] + [x for i in range(4) for x in (('fs', [('append', rbytes(rng, 20))]), ('pass', ALL))]),
            # a burst larger than the output buffer, then more output while its tail still waits
            (rbytes(rng, 300), [('pass', ALL), ('fs', [('append', rbytes(rng, 4500))]), ('pass', ALL),
                                ('fs', [('append', rbytes(rng, 60))]), ('pass', ALL), ('fs', [('append', b'last')]), ('pass', ALL)]),
            # slow peer: partial sends while output keeps arriving
            (b'init', [('pass', 7)] + [x for i in range(5) for x in (('fs', [('append', rbytes(rng, 30))]), ('pass', 11))]),
            (b'', [('pass', 0), ('pass', 1), ('fs', [('append', b'a')]), ('pass', 1), ('fs', [('append', b'bc')]), ('pass', 1),
                   ('pass', 0), ('fs', [('append', b'def')]), ('pass', 2)]),
            (b'xyz', [('pass', 60), ('fs', [('append', b'0123456789')]), ('pass', 3), ('fs', [('append', b'MORE')]), ('pass', 2),
                      ('pass', 0), ('wait', 5), ('pass', 5)]),
        ]
        for k in range(40 if quick else 600):
            hostile = rng.random() < 0.25
            sched = [('pass', rng.choice([0, 1, 5, 50, 200, ALL]))]
            for _ in range(rng.randrange(2, 14)):
                r = rng.random()
                if r < 0.4:
                    if hostile and rng.random() < 0.4:
                        sched.append(('fs', gen_ops(rng, True)))
                    else:
                        sched.append(('fs', [('append', rbytes(rng, rng.choice([1, 2, 5, 17, 40, 40, 120])))]))
                elif r < 0.9:
                    sched.append(('pass', rng.choice([0, 1, 1, 2, 3, 7, 16, 50, 300, ALL, ALL])))
                else:
                    sched.append(('wait', rng.choice([1, 4, ALL])))
            scheds.append((rbytes(rng, rng.choice([0, 1, 5, 40, 1100])), sched))
        for idx, (initial, sched) in enumerate(scheds):
            url, logpath = (('/logtail/g:p', cbed.plog) if idx % 2 == 0 else ('/mainlogtail', cbed.mainlog))
            try:
                r = cbed.run(url, logpath, initial, sched)
            except OSError:
                count('channel:skipped')
                continue
            count('channel:' + url.split('/')[1])
            for op in r['ops']:
                count('channel-op:' + ('fs' if op[0] == 'fs' else
                                       ('send-all' if op[1] >= ALL else 'send-0' if op[1] == 0 else 'send-partial')))
            replay_sched = {'url': url, 'initial': list(initial), 'schedule': _j(sched),
                            'executed': [[o[0], (o[1] if o[0] == 'pass' else _j(o[2]))] for o in r['ops']],
                            'ac_out_buffer_size': r['obs']}
            wire = r['wire']
            hi = wire.find(b'\r\n\r\n')
            kinds = [fop[0] for op in sched if op[0] == 'fs' for fop in op[1]]
            problems = []
            if r['error']:
                problems.append('channel error: ' + r['error'])
            if not r['still_open']:
                problems.append('the response did not stay open')
            if hi < 0 or not wire.startswith(b'HTTP/1.1 200') or b'Transfer-Encoding: chunked' not in wire[:hi]:
                problems.append('no complete chunked 200 response head on the wire')
                header, body = wire, b''
            else:
                header, body = wire[:hi + 4], wire[hi + 4:]
                data, err = H.strict_dechunk(body)
                if err:
                    problems.append('the bytes the socket accepted are not a well-formed chunked stream: ' + err)
                if all(kk == 'append' for kk in kinds):
                    appended = b''.join(fop[1] for op in sched if op[0] == 'fs' for fop in op[1])
                    expect = initial[max(0, len(initial) - 1024):] + appended
                    if data != expect:
                        problems.append('log bytes lost or altered: expected %d bytes (initial tail + appended), decoded %d; '
                                        'first difference at %d' % (len(expect), len(data), _first_diff(expect, data)))
                if not err:
                    fed, dead, lis = H.client_decode(_segment(rng, wire))
                    if dead or b''.join(fed) != data:
                        problems.append('the bundled client reassembles the accepted bytes differently')
            if problems:
                replay_sched.update({'kind': 'PROPERTY VIOLATED: /logtail stream through the real channel with partial sends',
                                     'what': problems, 'wire': list(wire[:6000]), 'left_in_buffer': list(r['left'][:500])})
                chk.violation(replay_sched)
            st0 = r['state0']
            if len(wire) + sum(len(c) for o in r['ops'] if o[0] == 'fs' for c in o[1][1].values()) < 40000 and hi >= 0:
                opsl = []
                for o in r['ops']:
                    if o[0] == 'fs':
                        pid, tbl = o[1]
                        opsl.append('(LFs %s %s)' % (coq_opt(None if pid is None else zlit(pid)), table_term(tbl)))
                    else:
                        opsl.append('(LPass %s)' % zlit(o[1]))
                chan_cases.append('(%s, %s, %s, %s, %s, %s, %s, %s)' % (
                    zlit(st0[0]), table_term(st0[1]), zlit(1024), zlit(r['obs']), bytes_lit(header), coq_list(opsl),
                    bytes_lit(wire), bytes_lit(r['left'])))
                chan_meta.append(replay_sched)
                distinct.add(('chan', tuple(('f' if o[0] == 'fs' else ('0' if o[1] == 0 else 'a' if o[1] >= ALL else 'p'))
                                            for o in r['ops'][:12])))
    finally:
        cbed.close()

    # ---- 3d. the log RPCs for channels WITHOUT a readable log (file-system oracle)
    rf_read, rf_tail, rf_clear = _rpc_worlds(chk, os.path.join(wd, 'rpcw'), count, distinct)

    # ---- 3e. supervisorctl tail against a REAL daemon (RPC read with a negative offset; tail -f over /logtail)
    _ctl_tail_probe(chk, os.path.join(wd, 'daemon'), count)

    # ---- 3f. a log CLEARED while being read and tailed, through the real clearProcessLogs ->
    #          Subprocess.removelogs -> POutputDispatcher.removelogs -> FileHandler / RotatingFileHandler
    _clear_through_dispatcher(chk, os.path.join(wd, 'clr'), count)

    # ---- 4. hex
    hex_cases = ['(%s, %s)' % (zlit(n), bytes_lit(b'%x' % n)) for n in
                 list(range(0, 40)) + [255, 256, 4095, 4096, 65535, 65536, 1 << 20, (1 << 31) - 1, 1 << 40]
                 + [rng.randrange(1, 1 << 24) for _ in range(60)]]

    total = 0
    for name, ctype, fn, cases, meta in [
        ('tailf', 'tail_case', 'check_tail_case', tail_cases, tail_meta),
        ('stream', 'stream_case', 'check_stream_case', stream_cases, stream_meta),
        ('decode', 'dec_case', 'check_dec_case', dec_cases, dec_meta),
        ('encode', 'list bytes * bytes', 'check_encode', enc_cases, enc_meta),
        ('channel', 'chan_case', 'check_chan_case', chan_cases, chan_meta),
        ('zombie', 'Z * Z * list (Z * bool)', 'check_zombie_case', zombie_cases, zombie_meta),
        ('rpcfs_read', 'bool * Z * bytes * Z * Z * rpc_read', 'check_rpc_read_fs', rf_read[0], rf_read[1]),
        ('rpcfs_tail', 'bool * Z * bytes * Z * Z * rpc_tail', 'check_rpc_tail_fs', rf_tail[0], rf_tail[1]),
        ('rpcfs_clear', 'bool * Z * rpc_clear', 'check_rpc_clear', rf_clear[0], rf_clear[1]),
        ('hex', 'hexline_case', 'check_hexline', hex_cases, hex_cases),
    ]:
        bad, errs = vlib.coq_compare(IMPORTS, ctype, fn, cases, wd, tag='c16b_' + name, shard=60)
        total += len(cases)
        count('coq_cases:' + name, len(cases))
        for e in errs:
            chk.violation({'kind': 'model evaluation failed', 'part': 'C16b/' + name, 'error': e}, nofail=True)
        for i in bad[:4]:
            chk.violation({'kind': 'model and implementation disagree', 'part': 'C16b/' + name, 'case': meta[i],
                           'coq_case': cases[i][:3000],
                           'explanation': 'the Coq model of the tail producer / chunked coding (about which the C16 '
                                          'streaming theorems are proved) differs from the real code on this case'},
                          nofail=True)
    if known['regrow']:
        chk.known_finding('C16-tail-truncate-regrow',
                          'log truncated and re-grown to at least the old size between two polls of /logtail (same inode): '
                          'no truncation notice and the first bytes of the new content are never delivered; %d such histories '
                          'explored, all agree with the model (c16_tailf_truncate_regrow_refuted)' % known['regrow'])
    if known['rotation_tail']:
        chk.known_finding('C16-tail-rotation-loss',
                          'bytes appended to the old log after the last poll and before its rotation/removal are never '
                          'delivered by /logtail (RotatingFileHandler writes the record and renames in one step); %d such '
                          'histories explored, all agree with the model (c16_tailf_rotation_loses_tail_refuted)'
                          % known['rotation_tail'])
    if known['http10']:
        chk.known_finding('C16-tail-http10-held-back',
                          'an HTTP/1.0 (or Connection: close) request for /logtail or /mainlogtail receives nothing, not even '
                          'the response head, until 64 KB have accumulated in deferring_globbing_producer; observed %d time(s)'
                          % known['http10'])
    if not proved:
        chk.violation({'kind': 'proof obligation no longer checks', 'detail': failure,
                       'file': 'coq/props/C16b.v'}, nofail=not [v for v in chk.violations if not v[1]])
    cov = chk.coverage
    cov['c16b'] = {
        'evaluations': total, 'distinct_nontrivial': len(distinct), 'stats': stats,
        'rule': 'tail: scripted + random histories (60% plain single-op steps, 40% hostile multi-op steps) on real files, '
                'one poll per step; stream: the same kinds of histories against the real server over a unix socket, one '
                'burst per step; decode: every received body + generated + damaged streams x random segmentations through '
                'the real HTTPHandler; distinct = distinct (output kinds, op kinds) / (burst pattern) / (decode outcome)',
        'samples': (tail_meta[5:6] + stream_meta[1:2] + dec_meta[3:4]),
    }
    # when run on its own
    if not cov.get('evaluations'):
        cov['evaluations'] = total
        cov['distinct_nontrivial'] = len(distinct)
        cov['rule'] = cov['c16b']['rule']
        cov['samples'] = cov['c16b']['samples']
        cov['traces_validated_against_impl'] = total
    else:
        cov['evaluations'] += total
        cov['distinct_nontrivial'] += len(distinct)
        cov['traces_validated_against_impl'] = cov.get('traces_validated_against_impl', 0) + total


class _W(object):
    """Minimal supervisord for the log RPCs: one process g:p, a main log."""

    def __init__(self, removelogs_error=False):
        from supervisor import states
        from supervisor.options import ServerOptions

        class Logger(object):
            handlers = []

            def __getattr__(self, name):
                return lambda *a, **k: None

        class PConfig(object):
            name = 'p'
            stdout_logfile = None
            stderr_logfile = None

        outer = self

        class Proc(object):
            config = PConfig()

            def removelogs(self):
                outer.removed.append('p')
                if outer.removelogs_error:
                    raise OSError(21, 'Is a directory')

        class GConfig(object):
            name = 'g'

        class Group(object):
            config = GConfig()
            processes = {'p': Proc()}

        class Options(object):
            mood = states.SupervisorStates.RUNNING
            logfile = None
            logger = Logger()
            # the real methods of ServerOptions (os.path.exists / os.remove)
            exists = ServerOptions.exists
            remove = ServerOptions.remove

        self.options = Options()
        self.process_groups = {'g': Group()}
        self.pconfig = Proc.config
        self.removed = []
        self.removelogs_error = removelogs_error


def _rpc_worlds(chk, wd, count, distinct):
    """Every read*/tail*/clear* method against every kind of log configuration:
    None, a name that does not exist, an empty file, a file with content, a
    directory in place of the file - through the handler's dispatch AND the
    full XML-RPC path.  Any answer that is not a value or a fault is a
    violation whose replay is the call."""
    from supervisor import rpcinterface
    from supervisor.xmlrpc import Faults
    from rpcstack import RpcStack
    os.makedirs(wd, exist_ok=True)
    FAULTS = {Faults.BAD_ARGUMENTS: 'BAD_ARGUMENTS', Faults.NO_FILE: 'NO_FILE', Faults.BAD_NAME: 'BAD_NAME',
              Faults.FAILED: 'FAILED'}
    content = b'0123456789abcdefghij\nsecond line\n'
    kinds = [('none', None, 0, b''), ('missing', 'missing.log', 0, b''), ('empty', 'empty.log', 2, b''),
             ('file', 'file.log', 2, content), ('dir', 'adir', 1, b'')]
    pairs = [(0, 0), (0, 5), (2, 3), (-3, 0), (-1, 1), (0, -1), (100, 0), (5, 100), (-100, 0), (33, 1)]
    read_cases, read_meta, tail_cases, tail_meta, clear_cases, clear_meta = [], [], [], [], [], []
    w = _W()
    iface = rpcinterface.SupervisorNamespaceRPCInterface(w)
    stack = RpcStack(w, [('supervisor', iface)])

    def place(kind, rel, data):
        if rel is None:
            return None
        path = os.path.join(wd, rel)
        if os.path.isdir(path):
            os.rmdir(path)
        elif os.path.exists(path):
            os.remove(path)
        if kind in ('empty', 'file'):
            with open(path, 'wb') as f:
                f.write(data)
        elif kind == 'dir':
            os.mkdir(path)
        return path

    def both(method, params, world):
        d = stack.direct(method, params)
        x = stack.call(method, params)
        call = {'method': method, 'params': list(params), 'log_configuration': world}
        for how, r in (('handler dispatch', d), ('XML-RPC request', x)):
            if r[0] not in ('value', 'fault'):
                chk.violation({'kind': 'PROPERTY VIOLATED: a log RPC neither succeeded nor answered a fault', 'call': call,
                               'via': how, 'answer': repr(r),
                               'expected': 'NO_FILE when no log is configured or the file does not exist, FAILED for an '
                                           'unreadable name, otherwise the requested bytes / BAD_ARGUMENTS'})
                return None
        dv = ('value', list(d[1])) if d[0] == 'value' and isinstance(d[1], tuple) else d
        if dv != x:
            chk.violation({'kind': 'XML-RPC response differs from the method result', 'call': call, 'direct': repr(d),
                           'xml': repr(x)})
            return None
        return dv

    def read_term(r):
        if r[0] == 'value' and isinstance(r[1], str):
            return '(RValue %s)' % bytes_lit(r[1].encode('utf-8'))
        if r[0] == 'fault' and r[1] in FAULTS:
            return '(RFault %s)' % FAULTS[r[1]]
        return None

    for kind, rel, code, data in kinds:
        for target in ('main', 'stdout', 'stderr'):
            path = place(kind, rel, data)
            w.options.logfile = None
            w.pconfig.stdout_logfile = None
            w.pconfig.stderr_logfile = None
            if target == 'main':
                w.options.logfile = path
                reads = [('supervisor.readLog', ()), ('supervisor.readMainLog', ())]
                tails = []
            elif target == 'stdout':
                w.pconfig.stdout_logfile = path
                reads = [('supervisor.readProcessStdoutLog', ('g:p',)), ('supervisor.readProcessLog', ('g:p',))]
                tails = [('supervisor.tailProcessStdoutLog', ('g:p',)), ('supervisor.tailProcessLog', ('g:p',))]
            else:
                w.pconfig.stderr_logfile = path
                reads = [('supervisor.readProcessStderrLog', ('g:p',))]
                tails = [('supervisor.tailProcessStderrLog', ('g:p',))]
            world = '%s log: %s' % (target, kind)
            cfg = 'false' if kind == 'none' else 'true'
            for off, ln in pairs:
                for method, pre in reads:
                    r = both(method, pre + (off, ln), world)
                    count('rpcfs:read:' + kind)
                    if r is None:
                        continue
                    t = read_term(r)
                    if t is None:
                        chk.violation({'kind': 'PROPERTY VIOLATED: read RPC answered neither the bytes nor one of the documented '
                                       'faults (BAD_ARGUMENTS, NO_FILE, FAILED, BAD_NAME)',
                                       'call': {'method': method, 'params': list(pre) + [off, ln], 'log_configuration': world},
                                       'answer': repr(r),
                                       'expected': 'NO_FILE when no log is configured or the file does not exist'})
                        continue
                    read_cases.append('(%s, %s, %s, %s, %s, %s)' % (cfg, zlit(code), bytes_lit(data), zlit(off), zlit(ln), t))
                    read_meta.append({'method': method, 'offset': off, 'length': ln, 'log_configuration': world,
                                      'answer': repr(r)})
                    distinct.add(('rpcfs', method, kind, r[0], r[1] if r[0] == 'fault' else len(r[1])))
                for method, pre in tails:
                    r = both(method, pre + (off, ln), world)
                    count('rpcfs:tail:' + kind)
                    if r is None:
                        continue
                    if r[0] == 'value' and isinstance(r[1], list) and len(r[1]) == 3:
                        t = '(TValue %s %s %s)' % (bytes_lit(r[1][0].encode('utf-8')), zlit(r[1][1]), 'true' if r[1][2] else 'false')
                    else:
                        chk.violation({'kind': 'tail RPC gave an undocumented answer', 'method': method,
                                       'params': [off, ln], 'log_configuration': world, 'answer': repr(r)})
                        continue
                    tail_cases.append('(%s, %s, %s, %s, %s, %s)' % (cfg, zlit(code), bytes_lit(data), zlit(off), zlit(ln), t))
                    tail_meta.append({'method': method, 'offset': off, 'length': ln, 'log_configuration': world,
                                      'answer': repr(r)})
                    distinct.add(('rpcfs', method, kind, tuple(r[1][1:]), len(r[1][0])))
            # clear*: the main log through the real options.exists/remove; process logs through removelogs()
            if target == 'main':
                for via in ('direct', 'xml'):
                    path = place(kind, rel, data)
                    w.options.logfile = path
                    r = stack.direct('supervisor.clearLog', ()) if via == 'direct' else stack.call('supervisor.clearLog', ())
                    count('rpcfs:clearLog:' + kind)
                    if r == ('value', True):
                        t = 'CTrue'
                        if os.path.exists(path):
                            chk.violation({'kind': 'clearLog answered True but the main log is still there',
                                           'log_configuration': world})
                    elif r[0] == 'fault' and r[1] in FAULTS:
                        t = '(CFault %s)' % FAULTS[r[1]]
                    else:
                        chk.violation({'kind': 'PROPERTY VIOLATED: a log RPC neither succeeded nor answered a fault',
                                       'call': {'method': 'supervisor.clearLog', 'params': [], 'log_configuration': world},
                                       'via': via, 'answer': repr(r)})
                        continue
                    clear_cases.append('(%s, %s, %s)' % (cfg, zlit(code), t))
                    clear_meta.append({'method': 'clearLog', 'log_configuration': world, 'answer': repr(r)})
            else:
                for name, err in (('g:p', False), ('g:p', True), ('nosuch', False), ('g:nosuch', False)):
                    w.removelogs_error = err
                    del w.removed[:]
                    for method in ('supervisor.clearProcessLogs', 'supervisor.clearProcessLog'):
                        r = both(method, (name,), world + (' (removelogs raises OSError)' if err else ''))
                        count('rpcfs:clearProcessLogs')
                        if r is None:
                            continue
                        want = (('fault', Faults.BAD_NAME) if 'nosuch' in name else
                                ('fault', Faults.FAILED) if err else ('value', True))
                        if r != want:
                            chk.violation({'kind': 'clearProcessLogs answered differently from its documentation',
                                           'name': name, 'answer': repr(r), 'expected': repr(want),
                                           'log_configuration': world})
                w.removelogs_error = False
    # --- the log changes BETWEEN calls (grows, is removed and re-created, truncated): every
    #     call must answer for the file as it is at that moment; tail offsets are chained
    #     the way supervisorctl/web clients do (next offset = the one just returned)
    rng = chk.rng
    path = os.path.join(wd, 'seq.log')
    w.options.logfile = None
    w.pconfig.stderr_logfile = None
    w.pconfig.stdout_logfile = path
    for seq in range(12 if chk.tier == 'quick' else 150):
        cur = rbytes_ascii(rng, rng.choice([0, 3, 30]))
        with open(path, 'wb') as f:
            f.write(cur)
        off = 0
        for stepi in range(6):
            k = rng.random()
            if k < 0.5:
                add = rbytes_ascii(rng, rng.choice([1, 5, 40]))
                with open(path, 'ab') as f:
                    f.write(add)
                cur += add
                opk = 'append'
            elif k < 0.65:
                os.remove(path)
                cur = rbytes_ascii(rng, rng.choice([0, 4]))
                with open(path, 'wb') as f:
                    f.write(cur)
                opk = 'clear'
            elif k < 0.8:
                cur = cur[:rng.choice([0, 1, 5])]
                os.truncate(path, len(cur))
                opk = 'truncate'
            elif k < 0.9:
                os.remove(path)
                cur = None
                opk = 'remove'
            else:
                opk = 'nothing'
            ln = rng.choice([1, 5, 20, 100])
            r = both('supervisor.tailProcessStdoutLog', ('g:p', off, ln), 'stdout log after ' + opk)
            count('rpcfs:between-calls:' + opk)
            if r is not None and r[0] == 'value':
                tail_cases.append('(true, %s, %s, %s, %s, (TValue %s %s %s))' % (
                    zlit(0 if cur is None else 2), bytes_lit(cur or b''), zlit(off), zlit(ln),
                    bytes_lit(r[1][0].encode('utf-8')), zlit(r[1][1]), 'true' if r[1][2] else 'false'))
                tail_meta.append({'sequence': seq, 'step': stepi, 'op': opk, 'offset': off, 'length': ln,
                                  'content': None if cur is None else list(cur), 'answer': repr(r)})
                off = r[1][1]
            ro, rl = rng.choice([(0, 0), (-5, 0), (2, 4), (off, 0)])
            r = both('supervisor.readProcessStdoutLog', ('g:p', ro, rl), 'stdout log after ' + opk)
            if r is not None:
                t = read_term(r)
                if t is not None:
                    read_cases.append('(true, %s, %s, %s, %s, %s)' % (zlit(0 if cur is None else 2), bytes_lit(cur or b''),
                                                                     zlit(ro), zlit(rl), t))
                    read_meta.append({'sequence': seq, 'step': stepi, 'op': opk, 'offset': ro, 'length': rl,
                                      'content': None if cur is None else list(cur), 'answer': repr(r)})
            if cur is None:
                cur = b''
                with open(path, 'wb') as f:
                    pass
    return (read_cases, read_meta), (tail_cases, tail_meta), (clear_cases, clear_meta)


def _ctl_tail_probe(chk, dwd, count):
    import c17_daemon as D
    d = D.Daemon(dwd)
    try:
        if not d.start() or not d.wait_log():
            chk.note('real-daemon supervisorctl tail probe skipped: supervisord did not come up in this environment')
            count('daemon:unavailable')
            return
        log = D.LOG_LINES
        for args, want in ((['tail', '-12', 'echo'], log[-12:] + b'\n'), (['tail', 'echo'], log + b'\n'),
                           (['tail', '-5', 'echo', 'stdout'], log[-5:] + b'\n'), (['tail', 'echo', 'stderr'], b'\n'),
                           (['tail', 'nosuch'], None)):
            rc, out = d.ctl(args)
            count('daemon:ctl-tail')
            if want is None:
                ok = b'no such process' in out.lower() or b'ERROR' in out
            else:
                ok = out == want
            if not ok:
                chk.violation({'kind': 'PROPERTY VIOLATED (real daemon): supervisorctl tail printed something other than the '
                               'requested bytes of the log', 'args': args, 'output': list(out), 'expected': None if want is None else list(want),
                               'log': list(log)})
        rc, out = d.ctl(['tail', '-f', 'echo'], kill_after=1.5)
        count('daemon:ctl-tail-f')
        banner = b'==> Press Ctrl-C to exit <==\n'
        if not (out.startswith(banner) and out[len(banner):] == log):
            chk.violation({'kind': 'PROPERTY VIOLATED (real daemon): supervisorctl tail -f did not print the initial tail of the log',
                           'output': list(out), 'log': list(log)})
    finally:
        d.stop()


def _clear_through_dispatcher(chk, dwd, count):
    from supervisor import rpcinterface, loggers, http as shttp
    from supervisor.dispatchers import POutputDispatcher
    from supervisor.events import ProcessCommunicationStdoutEvent
    from supervisor.process import Subprocess
    from rpcstack import RpcStack
    os.makedirs(dwd, exist_ok=True)
    for maxbytes, kind in ((0, 'FileHandler'), (1 << 20, 'RotatingFileHandler')):
        path = os.path.join(dwd, 'out-%s.log' % kind)
        if os.path.exists(path):
            os.remove(path)
        w = _W()

        class Cfg(object):
            name = 'p'
            stdout_logfile = path
            stdout_logfile_maxbytes = maxbytes
            stdout_logfile_backups = 2
            stdout_syslog = False
            stdout_capture_maxbytes = 0
            stdout_events_enabled = False
            stderr_events_enabled = False
            stderr_logfile = None
            options = w.options
        w.options.getLogger = staticmethod(loggers.getLogger)
        w.options.loglevel = loggers.LevelsByName.INFO
        w.options.strip_ansi = False

        class RealishProc(object):
            """config + the real output dispatcher; removelogs/reopenlogs are Subprocess's own"""
            config = Cfg()
            pid = 4242
            removelogs = Subprocess.removelogs
            reopenlogs = Subprocess.reopenlogs
        proc = RealishProc()
        disp = POutputDispatcher(proc, ProcessCommunicationStdoutEvent, 1)
        proc.dispatchers = {1: disp}
        w.process_groups['g'].processes = {'p': proc}
        iface = rpcinterface.SupervisorNamespaceRPCInterface(w)
        stack = RpcStack(w, [('supervisor', iface)])
        script = []
        problems = []

        def out(data):
            script.append(['child writes', data.decode()])
            try:
                disp.output_buffer += data
                disp.record_output()
            except Exception as e:
                problems.append('child output after the clear raised %s: %s' % (type(e).__name__, e))

        def expect(what, got, want):
            script.append([what, repr(got)])
            if got != want:
                problems.append('%s: expected %r, got %r' % (what, want, got))

        class _R(object):
            pass
        out(b'before-1\n')
        out(b'before-2\n')
        prod = shttp.tail_f_producer(_R(), path, 1024)
        try:
            expect('tail -f producer', prod.more(), b'before-1\nbefore-2\n')
            expect('readProcessStdoutLog(0,0)', stack.call('supervisor.readProcessStdoutLog', ('g:p', 0, 0)),
                   ('value', 'before-1\nbefore-2\n'))
            for rnd in (1, 2):
                script.append(['clearProcessLogs', 'g:p'])
                expect('clearProcessLogs', stack.call('supervisor.clearProcessLogs', ('g:p',)), ('value', True))
                expect('readProcessStdoutLog(0,0) right after the clear',
                       stack.call('supervisor.readProcessStdoutLog', ('g:p', 0, 0)), ('value', ''))
                a = ('after-%d-a\n' % rnd).encode()
                b = ('after-%d-b\n' % rnd).encode()
                out(a)
                expect('readProcessStdoutLog(0,0)', stack.call('supervisor.readProcessStdoutLog', ('g:p', 0, 0)),
                       ('value', a.decode()))
                expect('tail -f producer resumes from the start of the new file', prod.more(), a)
                out(b)
                expect('tailProcessStdoutLog(0,100)', stack.call('supervisor.tailProcessStdoutLog', ('g:p', 0, 100)),
                       ('value', [(a + b).decode(), len(a + b), False]))
                expect('readProcessStdoutLog(-5,0)', stack.call('supervisor.readProcessStdoutLog', ('g:p', -5, 0)),
                       ('value', (a + b)[-5:].decode()))
                expect('tail -f producer', prod.more(), b)
                with open(path, 'rb') as f:
                    expect('log file content', f.read(), a + b)
        except Exception as e:
            problems.append('%s: %s' % (type(e).__name__, e))
        finally:
            prod._close()
            for h in list(disp.normallog.handlers):
                try:
                    h.close()
                except Exception:
                    pass
        count('clear-through-dispatcher:' + kind)
        if problems:
            chk.violation({'kind': 'PROPERTY VIOLATED: after supervisor.clearProcessLogs (real POutputDispatcher + %s) the bytes '
                           'written after the clear are not what the read/tail RPCs and the tail -f producer deliver' % kind,
                           'what': problems, 'sequence': script, 'handler': kind})


def _first_diff(a, b):
    for i, (x, y) in enumerate(zip(a, b)):
        if x != y:
            return i
    return min(len(a), len(b))


def _mk(path):
    os.makedirs(path, exist_ok=True)
    return True


def _j(x):
    if isinstance(x, bytes):
        return {'bytes': list(x[:300])}
    if isinstance(x, (list, tuple)):
        return [_j(y) for y in x]
    return x


def _segment(rng, data):
    segs = []
    i = 0
    mode = rng.choice(['bytes', 'small', 'mixed', 'whole'])
    while i < len(data):
        if mode == 'bytes':
            n = 1
        elif mode == 'small':
            n = rng.randrange(1, 5)
        elif mode == 'whole':
            n = len(data)
        else:
            n = rng.choice([1, 2, 3, 7, 50, 500])
        segs.append(data[i:i + n])
        i += n
    return segs


def _damage(rng, body):
    """Damaged chunked streams; the size-line alphabet avoids the int() extras
    the model does not cover (sign, 0x, underscore)."""
    b = bytearray(body)
    if not b:
        return b'zz\r\n'
    for _ in range(rng.randrange(1, 3)):
        i = rng.randrange(len(b))
        k = rng.random()
        if k < 0.3:
            del b[i]
        elif k < 0.6:
            b[i] = rng.choice(b'0123456789abcdefABCDEFg; \t\r\n')
        elif k < 0.8:
            b.insert(i, rng.choice(b'0123456789abcdefg; \t\r\n'))
        else:
            del b[i:]
        if not b:
            break
    out = bytes(b)
    for bad in (b'+', b'-', b'_', b'x', b'X'):
        out = out.replace(bad, b'y')
    return out


def _monitor_tail(chk, initial, head, steps, trace, known):
    """The stream law judged directly on the real producer's outputs, without
    the model, for histories inside the hypotheses; known findings counted for
    histories inside their signatures."""
    kinds = [op[0] for st in steps for op in st]
    delivered = b''.join(o[1] if o[0] == 'data' else (o[1].encode() if o[0] == 'notice' else b'') for _, _, o in trace)
    if all(k == 'append' for k in kinds):
        appended = b''.join(op[1] for st in steps for op in st)
        tail0 = initial[max(0, len(initial) - head):] if len(initial) >= head else initial
        expect = tail0 + appended
        if delivered != expect:
            chk.violation({'kind': 'PROPERTY VIOLATED: growing log, tail stream differs from initial tail + appended bytes',
                           'initial': list(initial), 'head': head, 'steps': _j(steps), 'delivered': list(delivered),
                           'expected': list(expect)})
    # rotation / clear seen at a step boundary: restart from offset 0 of the new file
    shape_ok = all((not st) or all(k == 'append' for k in [op[0] for op in st]) or
                   (st[0][0] in ('rotate', 'remove_create') and all(op[0] == 'append' for op in st[1:]))
                   for st in steps)
    if shape_ok and any(k in ('rotate', 'remove_create') for k in kinds):
        tail0 = initial[max(0, len(initial) - head):] if len(initial) >= head else initial
        expect = tail0 + b''.join(op[1] for st in steps for op in st)
        if delivered != expect:
            chk.violation({'kind': 'PROPERTY VIOLATED: after a rotation/clear the tail stream does not restart from the start '
                           'of the new file', 'initial': list(initial), 'head': head, 'steps': _j(steps),
                           'delivered': list(delivered), 'expected': list(expect)})
    # truncation seen at a step boundary: the notice, then from offset 0
    # signatures of the known findings
    for si, st in enumerate(steps):
        ks = [op[0] for op in st]
        if 'truncate_regrow' in ks:
            known['regrow'] += 1
        if ('rotate' in ks or 'remove_create' in ks or 'unlink' in ks) and 'append' in ks[:max(
                [i for i, k in enumerate(ks) if k in ('rotate', 'remove_create', 'unlink')] + [0])]:
            known['rotation_tail'] += 1


NOTICE = b'==> File truncated <==\n'


def _monitor_stream(chk, H, url, initial, steps, body):
    """The stream law judged on the real HTTP response (decoded by the harness's
    own decoder), for histories whose every step is: appends only | a rotation
    or clear followed by appends | one truncation to a smaller size."""
    cur = initial
    expect = initial[max(0, len(initial) - 1024):]
    for st in steps:
        ks = [op[0] for op in st]
        if all(k == 'append' for k in ks):
            add = b''.join(op[1] for op in st)
            cur += add
            expect += add
        elif ks and ks[0] in ('rotate', 'remove_create') and all(k == 'append' for k in ks[1:]):
            cur = b''.join(op[1] for op in st)
            expect += cur
        elif ks == ['truncate'] and st[0][1] < len(cur):
            cur = cur[:st[0][1]]
            expect += NOTICE + cur
        else:
            return
    try:
        data, complete = H.independent_decode(body)
    except ValueError as e:
        data, complete = None, False
    if data != expect or complete:
        chk.violation({'kind': 'PROPERTY VIOLATED: the %s stream does not carry initial tail + appended bytes '
                       '(restart after rotation, notice + restart after truncation) as an open chunked stream' % url,
                       'initial': list(initial[:2000]), 'steps': _j(steps), 'body': list(body[:3000]),
                       'decoded': None if data is None else list(data[:2000]), 'expected': list(expect[:2000]),
                       'terminated': complete})


def replay(chk, path):
    with open(path) as f:
        print(json.dumps(json.load(f), indent=1)[:3000])
    run(chk)
