#!/venv/bin/python
"""Per property and round: how many confirmed seeded changes the check caught at its FIRST evaluation (failing input /
no-failing-input-found / missed) and at its latest one.  Prints a markdown table (used in DESIGN.md section 6)."""
import json, glob, os, re, collections
HERE = os.path.dirname(os.path.dirname(os.path.abspath(__file__)))
rows = collections.defaultdict(collections.Counter)
for d in sorted(glob.glob(os.path.join(HERE, 'seeded', 'C*'))):
    mp = os.path.join(d, 'meta.json')
    if not os.path.exists(mp):
        continue
    m = json.load(open(mp))
    if not m.get('confirmed'):
        continue
    name = os.path.basename(d)
    rnd = '1' if re.match(r'C\d+-m\d', name) else name.split('-r')[1][0]
    hist = m.get('history') or [{'checks': m['checks']}]

    def verdict(h):
        c = h['checks'].get(m['property'])
        if not c or c['exit'] == 0:
            return 'missed'
        return 'nofail' if c['nofail_only'] else 'input'
    rows[(m['property'], rnd)]['first_' + verdict(hist[0])] += 1
    rows[(m['property'], rnd)]['last_' + verdict(hist[-1])] += 1
props = sorted(set(k[0] for k in rows))
rounds = sorted(set(k[1] for k in rows))
print('| property | ' + ' | '.join('round %s: first -> now' % r for r in rounds) + ' |')
print('|---|' + '---|' * len(rounds))
tot = collections.Counter()
for p in props:
    cells = []
    for r in rounds:
        c = rows.get((p, r))
        if not c:
            cells.append('-')
            continue
        n = c['first_input'] + c['first_nofail'] + c['first_missed']
        cells.append('%d of %d (%d with input) -> %d of %d (%d with input)' % (
            c['first_input'] + c['first_nofail'], n, c['first_input'], c['last_input'] + c['last_nofail'], n, c['last_input']))
        for k, v in c.items():
            tot[(r, k)] += v
    print('| %s | %s |' % (p, ' | '.join(cells)))
cells = []
for r in rounds:
    n = tot[(r, 'first_input')] + tot[(r, 'first_nofail')] + tot[(r, 'first_missed')]
    cells.append('%d of %d (%d with input) -> %d of %d (%d with input)' % (
        tot[(r, 'first_input')] + tot[(r, 'first_nofail')], n, tot[(r, 'first_input')],
        tot[(r, 'last_input')] + tot[(r, 'last_nofail')], n, tot[(r, 'last_input')]))
print('| all | %s |' % ' | '.join(cells))
