#!/bin/bash
# Re-checks every compiled property file (coq/props/*.vo) and everything it depends on with Coq's independent
# checker and prints the context summary (axioms, type-in-type, unsafe fixpoints, assumed positivity).
# Takes about two minutes; needs the .vo files (./setup.sh).
cd "$(dirname "$0")/../coq" || exit 2
timeout 3000 coqchk -silent -o -Q . SV $(ls props/*.vo | sed 's#props/\(.*\)\.vo#SV.props.\1#')
