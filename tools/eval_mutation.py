#!/venv/bin/python
"""Evaluate a seeded change: tools/eval_mutation.py CXX /tmp/mut/CXX/m1 [more checks...]

1. confirm in a scratch worktree: patch applies, full test suite passes with it, demo FAILs with it and PASSes without;
2. apply it to /repo, run ./check for the property (and any extra ones), undo;
3. store everything under /verif/seeded/<id>/ (patch.diff, demo.py, notes.md, meta.json)."""
import json, os, shutil, subprocess, sys, time

prop, src = sys.argv[1], sys.argv[2].rstrip('/')
extra = sys.argv[3:]
import re as _re
_m = _re.search(r'/mut(\d+)/', src)
name = '%s-%s%s' % (prop, ('r' + _m.group(1)) if _m else '', os.path.basename(src))
wt = '/tmp/evalwt-%s' % name
patch = os.path.join(src, 'patch.diff')


def sh(cmd, cwd=None, timeout=1800):
    p = subprocess.run(cmd, shell=True, cwd=cwd, stdout=subprocess.PIPE, stderr=subprocess.STDOUT, timeout=timeout)
    return p.returncode, p.stdout.decode('utf-8', 'replace')

meta = {'id': name, 'property': prop, 'source': src}
sh('git -C /repo worktree remove --force %s' % wt)
rc, out = sh('git -C /repo worktree add --detach %s HEAD' % wt)
try:
    rc, out = sh('/venv/bin/python m/demo.py' if False else 'cp -r %s %s/m && PYTHONPATH=%s /venv/bin/python m/demo.py' % (src, wt, wt), cwd=wt)
    meta['demo_without'] = {'rc': rc, 'tail': out[-300:]}
    rc, out = sh('git apply %s' % patch, cwd=wt)
    meta['applies'] = (rc == 0)
    if rc != 0:
        meta['apply_error'] = out[-500:]
    else:
        for _attempt in range(3):     # test_make_http_servers_noauth binds a fixed port: parallel runs can collide
            rc, out = sh('/venv/bin/python -m pytest -q -p no:cacheprovider -x 2>&1 | tail -3', cwd=wt)
            meta['tests_with'] = out.strip()[-200:]
            if 'passed' in out and 'failed' not in out:
                break
            time.sleep(5)
        rc, out = sh('PYTHONPATH=%s /venv/bin/python m/demo.py' % wt, cwd=wt)
        meta['demo_with'] = {'rc': rc, 'tail': out[-600:]}
finally:
    sh('git -C /repo worktree remove --force %s' % wt)
confirmed = meta.get('applies') and 'passed' in meta.get('tests_with', '') and 'failed' not in meta.get('tests_with', '') \
    and meta['demo_without']['rc'] == 0 and meta['demo_with']['rc'] != 0
meta['confirmed'] = bool(confirmed)
meta['checks'] = {}
if confirmed:
    # run the checks against a scratch copy of /repo with the change applied (VERIF_REPO), so that other work
    # using /repo at the same time is not disturbed; equivalent to `git -C /repo apply` + check + `git checkout -- .`
    mr = '/verif/_work/repo_mut_%s' % name
    sh('rm -rf %s' % mr)
    os.makedirs('/verif/_work', exist_ok=True)
    sh('cp -r /repo %s && rm -rf %s/.git' % (mr, mr))
    rc, out = sh('patch -p1 < %s' % patch, cwd=mr)
    assert rc == 0, out
    cq = '/verif/_work/coq_mut_%s' % name
    sh('rm -rf %s && cp -a /verif/coq %s' % (cq, cq))
    try:
        for c in [prop] + extra:
            t0 = time.time()
            rc, out = sh('VERIF_REPO=%s VERIF_COQ_DIR=%s VERIF_EVIDENCE_DIR=/verif/_work/ev_%s VERIF_REPLAY_DIR=/verif/_work/rp_%s ./check %s --tier quick' % (mr, cq, name, name, c), cwd='/verif', timeout=3600)
            lines = [l for l in out.split('\n') if l.startswith('VIOLATION') or l.startswith('KNOWN-FINDING')]
            meta['checks'][c] = {'exit': rc, 'wall_s': round(time.time() - t0), 'violations': [l for l in lines if l.startswith('VIOLATION')][:3],
                                 'nofail_only': all('no-failing-input-found' in l for l in lines if l.startswith('VIOLATION'))}
            # keep one replay as documentation
            for l in lines:
                if l.startswith('VIOLATION') and 'replay=' in l:
                    rp = l.split('replay=')[1].split()[0]
                    if os.path.exists(rp):
                        os.makedirs(os.path.join('/verif/seeded', name), exist_ok=True)
                        shutil.copy(rp, os.path.join('/verif/seeded', name, 'replay-%s.json' % c))
                    break
    finally:
        sh('rm -rf %s %s /verif/_work/ev_%s /verif/_work/rp_%s' % (mr, cq, name, name))
d = os.path.join('/verif/seeded', name)
os.makedirs(d, exist_ok=True)
for f in ('patch.diff', 'demo.py', 'notes.md'):
    if os.path.exists(os.path.join(src, f)):
        shutil.copy(os.path.join(src, f), os.path.join(d, f))
hist = []
try:
    old = json.load(open(os.path.join(d, 'meta.json')))
    hist = old.get('history', [])
    if old.get('checks') and not hist:
        hist = [{'when': 'first evaluation', 'checks': old['checks']}]
except Exception:
    pass
rc, head = sh('git -C /verif rev-parse --short HEAD')
hist.append({'when': time.strftime('%Y-%m-%d %H:%M'), 'verif_commit': head.strip(), 'checks': meta['checks']})
meta['history'] = hist
meta['needs'] = 'see notes.md (what the change needs in order to manifest)'
json.dump(meta, open(os.path.join(d, 'meta.json'), 'w'), indent=1)
print(json.dumps(meta, indent=1)[:3000])
