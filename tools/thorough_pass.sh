#!/bin/bash
# Runs setup and then every thorough command of MANIFEST.json, one after another; prints one line per check.
# Meant for `vp run --timeout 10h -- tools/thorough_pass.sh` (a snapshot of /verif) or for /verif itself.
# With VERIF_EVIDENCE_DIR / VERIF_REPLAY_DIR set, nothing committed is overwritten.
cd "$(dirname "$0")/.."
./setup.sh > thorough_setup.log 2>&1 || { echo "setup failed"; tail -20 thorough_setup.log; exit 2; }
ids=${*:-$(/venv/bin/python -c "import json;print(' '.join(c['property_id'] for c in json.load(open('MANIFEST.json'))['checks']))")}
rc_all=0
for id in $ids; do
  s=$(date +%s)
  ./check $id --tier thorough > thorough_$id.log 2>&1; rc=$?
  echo "$id rc=$rc wall=$(( $(date +%s)-s ))s violations=$(grep -c '^VIOLATION' thorough_$id.log) known=$(grep -c '^KNOWN-FINDING' thorough_$id.log)"
  [ $rc -ne 0 ] && rc_all=1
done
exit $rc_all
