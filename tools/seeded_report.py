#!/venv/bin/python
"""Summarise /verif/seeded/*/meta.json as a markdown table (seeded/RESULTS.md)."""
import glob, json, os
rows = []
for f in sorted(glob.glob('/verif/seeded/*/meta.json')):
    m = json.load(open(f))
    d = os.path.dirname(f)
    what = ''
    notes = os.path.join(d, 'notes.md')
    if os.path.exists(notes):
        for line in open(notes):
            line = line.strip()
            if line and not line.startswith('#'):
                what = line[:150]
                break
    def v(r):
        return 'MISSED' if r['exit'] == 0 else ('caught (failing input)' if not r['nofail_only'] else 'caught (disagreement only)')
    for c, r in m.get('checks', {}).items():
        verdict = v(r)
        firsts = [h['checks'][c] for h in m.get('history', [])[:1] if c in h.get('checks', {})]
        if firsts and v(firsts[0]) != verdict:
            verdict = '%s; first evaluation: %s (check strengthened since)' % (verdict, v(firsts[0]))
        rows.append('| %s | %s | %s | %s | %ss | %s |' % (m['id'], m['property'], c, verdict, r['wall_s'], what.replace('|', '/')))
    if not m.get('checks'):
        rows.append('| %s | %s | - | not confirmed (%s) | - | %s |' % (m['id'], m['property'], 'patch/tests/demo', what.replace('|', '/')))
out = ['# Seeded changes and what the checks did with them', '',
       'Each change was written by an independent agent that saw only the property text; confirmed in a scratch worktree',
       '(applies, 1376 tests pass, demo FAILs with / PASSes without), then the property\'s quick check was run on a copy of /repo with the change.', '',
       '| id | property | check | verdict | wall | change |', '|---|---|---|---|---|---|'] + rows
open('/verif/seeded/RESULTS.md', 'w').write('\n'.join(out) + '\n')
print('\n'.join(rows))
