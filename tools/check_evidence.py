#!/opt/veriftools/pyvenv/bin/python
"""Sanity gate before committing: every evidence file validates against the schema, reports no violation, and has
discharged == obligations >= 1 (an evidence file written by a seeded-change trial must never be committed)."""
import json, glob, sys, os
import jsonschema
HERE = os.path.dirname(os.path.dirname(os.path.abspath(__file__)))
schema = json.load(open('/root/.vp/EVIDENCE.schema.json'))
bad = 0
for f in sorted(glob.glob(os.path.join(HERE, 'evidence', '*.json'))):
    e = json.load(open(f))
    try:
        jsonschema.validate(e, schema)
    except Exception as ex:
        print('INVALID', f, str(ex)[:200]); bad += 1; continue
    c = e['coverage']
    if e.get('violations') or c.get('discharged', 0) < 1 or c.get('discharged') != c.get('obligations'):
        print('SUSPECT', os.path.basename(f), 'violations=%s discharged=%s obligations=%s' % (e.get('violations'), c.get('discharged'), c.get('obligations')))
        bad += 1
print('evidence files ok' if not bad else '%d evidence files need regenerating' % bad)
sys.exit(1 if bad else 0)
