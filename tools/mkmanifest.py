#!/venv/bin/python
"""Assemble MANIFEST.json and known_findings.json from the per-property
fragments manifest.d/CXX.json and known.d/CXX.json (one owner per file)."""
import glob, json, os
HERE = os.path.dirname(os.path.dirname(os.path.abspath(__file__)))
props = [json.loads(l) for l in open(os.path.join(HERE, 'properties.jsonl'))]
ids = [p['id'] for p in props]
checks, na = [], []
enabled = set(open(os.path.join(HERE, 'manifest.d', 'ENABLED.txt')).read().split())
for pid in ids:
    f = os.path.join(HERE, 'manifest.d', pid + '.json')
    if os.path.exists(f) and pid in enabled:
        frag = json.load(open(f))
        if 'not_applicable' in frag:
            na.append({'property_id': pid, 'reason': frag['not_applicable']})
            continue
        c = {
            'property_id': pid,
            'quick_cmd': './check %s --tier quick' % pid,
            'thorough_cmd': './check %s --tier thorough' % pid,
            'evidence_file': 'evidence/%s.json' % pid,
            'replay_cmd_template': './check %s --replay {path}' % pid,
            'engine': 'coq-model-correspondence',
            'level_claimed': frag['level_claimed'],
            'level_note': frag['level_note'],
            'technique': frag.get('technique', 'machine-checked proof in Coq 8.16 over a hand-written executable model tied to the code by a correspondence check'),
        }
        checks.append(c)
    else:
        na.append({'property_id': pid, 'reason': 'check not built yet in this revision (no claim made); see DESIGN.md'})
man = {
    'version': 1,
    'setup_cmd': './setup.sh',
    'hooks': {
        'guard': 'SUPERVISOR_VERIF',
        'enable': 'no source hooks are needed: the harness replaces system calls and the clock by injecting proxy modules at run time; SUPERVISOR_VERIF=1 is exported by the checks but nothing in /repo reads it',
        'baseline_off_cmd': 'cd /repo && /venv/bin/python -m pytest -ra -q -p no:cacheprovider --timeout=900 --continue-on-collection-errors',
        'source_commits': [],
        'add_only': True,
    },
    'engines': [{
        'name': 'coq-model-correspondence', 'path': 'check',
        'serves_properties': [c['property_id'] for c in checks],
        'kind_free_text': 'Coq 8.16.1 theorems over hand-written executable Gallina models (coq/), generated tables (gen/), and a correspondence harness (harness/, props/) running /repo code and the model (vm_compute inside coqc) on the same cases',
    }],
    'checks': checks,
    'not_applicable': na,
    'notes': 'See DESIGN.md. Known findings: known_findings.json (never written at run time).',
}
json.dump(man, open(os.path.join(HERE, 'MANIFEST.json'), 'w'), indent=1)
findings, fixed = [], []
for f in sorted(glob.glob(os.path.join(HERE, 'known.d', '*.json'))):
    d = json.load(open(f))
    findings += d.get('findings', [])
    fixed += d.get('fixed', [])
json.dump({'findings': findings, 'fixed': fixed}, open(os.path.join(HERE, 'known_findings.json'), 'w'), indent=1)
print('checks:', [c['property_id'] for c in checks])
