#!/venv/bin/python
"""Refresh the generated seeded-change table of DESIGN.md (between the seeded-summary markers)."""
import os, re, subprocess
HERE = os.path.dirname(os.path.dirname(os.path.abspath(__file__)))
table = subprocess.run([os.path.join(HERE, 'tools', 'seeded_summary.py')], stdout=subprocess.PIPE).stdout.decode()
p = os.path.join(HERE, 'DESIGN.md')
s = open(p).read()
s = re.sub(r'<!-- seeded-summary:begin -->.*?<!-- seeded-summary:end -->',
           lambda m: '<!-- seeded-summary:begin -->\n' + table + '<!-- seeded-summary:end -->', s, flags=re.S)
open(p, 'w').write(s)
